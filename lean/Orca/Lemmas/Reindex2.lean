import Orca.Lemmas.Reindex

namespace Orca.Reindex

/-! ### survivors, import prefix -/

theorem filter_split_imp (l : List Item) :
    (l.filter (fun x => !x.del)).Perm (l.filter keepImp ++ l.filter keepLoc) := by
  induction l with
  | nil => simp
  | cons x l ih =>
    by_cases hd : x.del
    · simp [keepImp, keepLoc, hd, ih]
    · by_cases hi : x.imp
      · simp [keepImp, keepLoc, hd, hi]; exact ih
      · simp only [keepImp, keepLoc, hd, hi, List.filter_cons, Bool.not_false, Bool.and_true, Bool.false_and,
          Bool.false_eq_true, if_false, if_true, Bool.true_and]
        exact (List.Perm.cons x ih).trans (List.perm_middle.symm)

/-- exactly the entries not marked deleted survive re-indexing -/
theorem reorganise_perm (orig : Nat) (xs : List Item) (h : orig ≤ xs.length) :
    (reorganise orig xs).Perm (xs.filter (fun x => !x.del)) := by
  rw [reorganise_eq orig xs h]
  unfold closed
  have h1 := filter_split_imp (xs.take orig)
  have h2 := filter_split_imp (xs.drop orig)
  have hx : xs.filter (fun x => !x.del) = (xs.take orig).filter (fun x => !x.del) ++ (xs.drop orig).filter (fun x => !x.del) := by
    rw [← List.filter_append, List.take_append_drop]
  rw [hx]
  refine List.Perm.trans ?_ (List.Perm.append h1.symm h2.symm)
  -- K ++ U ++ L ++ M  ~  (K ++ M) ++ (U ++ L)
  simp only [List.append_assoc]
  apply List.Perm.append_left
  -- U ++ (L ++ M) ~ M ++ (U ++ L)
  exact (List.perm_append_comm (l₁ := (xs.drop orig).filter keepImp ++ (xs.drop orig).filter keepLoc)
      (l₂ := (xs.take orig).filter keepLoc)).trans (by simp) |>.symm |>.symm |> fun p => by simpa [List.append_assoc] using p

theorem reorganise_no_deleted (orig : Nat) (xs : List Item) (h : orig ≤ xs.length) :
    ∀ y ∈ reorganise orig xs, y.del = false := by
  intro y hy
  have := (reorganise_perm orig xs h).subset hy
  simpa using (List.mem_filter.mp this).2

/-- after re-indexing, imports come first: the vector is an all-import prefix followed by an all-local suffix -/
theorem reorganise_imports_first (orig : Nat) (xs : List Item) (h : orig ≤ xs.length) :
    ∃ A B, reorganise orig xs = A ++ B ∧ (∀ a ∈ A, a.imp = true) ∧ (∀ b ∈ B, b.imp = false) := by
  rw [reorganise_eq orig xs h]
  refine ⟨(xs.take orig).filter keepImp ++ (xs.drop orig).filter keepImp,
    (xs.drop orig).filter keepLoc ++ (xs.take orig).filter keepLoc, by simp [closed], ?_, ?_⟩
  · intro a ha
    simp only [List.mem_append, List.mem_filter, keepImp, Bool.and_eq_true] at ha
    rcases ha with ha | ha <;> exact ha.2.1
  · intro b hb
    simp only [List.mem_append, List.mem_filter, keepLoc, Bool.and_eq_true, Bool.not_eq_true'] at hb
    rcases hb with hb | hb <;> exact hb.2.1

/-! ### `order_imports_generic` -/

theorem insertSorted_perm (x : Item) (l : List Item) : (insertSorted x l).Perm (x :: l) := by
  induction l with
  | nil => simp [insertSorted]
  | cons y ys ih =>
    simp only [insertSorted]
    split
    · exact (List.Perm.cons y ih).trans (List.Perm.swap x y ys)
    · exact List.Perm.refl _

theorem foldl_insertSorted_perm (l : List Item) : ∀ acc : List Item,
    (l.foldl (fun acc x => insertSorted x acc) acc).Perm (acc ++ l) := by
  induction l with
  | nil => intro acc; simp
  | cons x l ih =>
    intro acc
    simp only [List.foldl_cons]
    refine (ih _).trans ?_
    refine (List.Perm.append_right l (insertSorted_perm x acc)).trans ?_
    simpa using (List.perm_middle (a := x) (l₁ := acc) (l₂ := l)).symm

theorem sortImports_perm (l : List Item) : (sortImports l).Perm l := by
  simpa [sortImports] using foldl_insertSorted_perm l []

theorem takeWhile_append_of (p : Item → Bool) (A B : List Item) (hA : ∀ a ∈ A, p a = true) (hB : ∀ b ∈ B, p b = false) :
    (A ++ B).takeWhile p = A ∧ (A ++ B).dropWhile p = B := by
  induction A with
  | nil =>
    cases B with
    | nil => simp
    | cons b B => simp [List.takeWhile, List.dropWhile, hB b (by simp)]
  | cons a A ih =>
    have := ih (fun x hx => hA x (by simp [hx]))
    simp [List.takeWhile, List.dropWhile, hA a (by simp), this.1, this.2]

/-- ordering the imports permutes the import prefix only -/
theorem orderImports_spec (orig : Nat) (xs : List Item) (h : orig ≤ xs.length) :
    ∃ A B, reorganise orig xs = A ++ B ∧ orderImports (reorganise orig xs) = sortImports A ++ B
      ∧ (∀ a ∈ A, a.imp = true) ∧ (∀ b ∈ B, b.imp = false) := by
  obtain ⟨A, B, he, hA, hB⟩ := reorganise_imports_first orig xs h
  refine ⟨A, B, he, ?_, hA, hB⟩
  have := takeWhile_append_of (fun i => i.imp) A B hA hB
  simp [orderImports, he, this.1, this.2]

theorem orderImports_perm (orig : Nat) (xs : List Item) (h : orig ≤ xs.length) :
    (orderImports (reorganise orig xs)).Perm (xs.filter (fun x => !x.del)) := by
  obtain ⟨A, B, he, ho, _, _⟩ := orderImports_spec orig xs h
  rw [ho]
  refine (List.Perm.append_right B (sortImports_perm A)).trans ?_
  rw [← he]; exact reorganise_perm orig xs h

/-! ### the id map -/

theorem mappingFrom_none (ys : List Item) : ∀ (pos key : Nat), (∀ y ∈ ys, y.id ≠ key) → mappingFrom ys pos key = none := by
  induction ys with
  | nil => intro pos key _; rfl
  | cons y ys ih =>
    intro pos key h
    simp only [mappingFrom]
    rw [ih (pos + 1) key (fun z hz => h z (by simp [hz]))]
    simp [h y (by simp)]

/-- with pairwise distinct stored ids the map sends a stored id to the position of the entry that carries it -/
theorem mappingFrom_some (ys : List Item) : ∀ (pos key p : Nat), (ys.map (·.id)).Nodup →
    (ys[p]?).map (·.id) = some key → mappingFrom ys pos key = some (pos + p) := by
  induction ys with
  | nil => intro pos key p _ h; simp at h
  | cons y ys ih =>
    intro pos key p hnd h
    simp only [List.map_cons, List.nodup_cons] at hnd
    cases p with
    | zero =>
      simp only [List.getElem?_cons_zero, Option.map_some, Option.some.injEq] at h
      have hn : mappingFrom ys (pos + 1) key = none := by
        apply mappingFrom_none
        intro z hz hzk
        apply hnd.1
        rw [h]; rw [← hzk]; exact List.mem_map_of_mem hz
      simp [mappingFrom, hn, h]
    | succ p =>
      simp only [List.getElem?_cons_succ] at h
      have := ih (pos + 1) key p hnd.2 h
      simp only [mappingFrom, this]
      congr 1; omega

theorem mapping_some (ys : List Item) (key p : Nat) (hnd : (ys.map (·.id)).Nodup)
    (h : (ys[p]?).map (·.id) = some key) : mapping ys key = some p := by
  simpa [mapping] using mappingFrom_some ys 0 key p hnd h

theorem mapping_none (ys : List Item) (key : Nat) (h : ∀ y ∈ ys, y.id ≠ key) : mapping ys key = none :=
  mappingFrom_none ys 0 key h

theorem distinctIds_of_nodup (ys : List Item) (h : (ys.map (·.id)).Nodup) : distinctIds ys = ys.length := by
  unfold distinctIds
  have : (ys.map (·.id)).eraseDups = ys.map (·.id) := by
    generalize ys.map (·.id) = l at h
    induction l with
    | nil => simp
    | cons a l ih =>
      simp only [List.nodup_cons] at h
      rw [List.eraseDups_cons]
      have : l.filter (fun b => !b == a) = l := by
        apply List.filter_eq_self.mpr
        intro b hb
        have : b ≠ a := fun hba => h.1 (hba ▸ hb)
        simp [this]
      rw [this, ih h.2]
  rw [this]; simp

end Orca.Reindex

namespace Orca.Reindex

/-! ### the loop never indexes out of range -/

theorem phase1_ok (orig : Nat) (vs : List Item) :
    ∀ (K rest M : List Item) (idx ni nd : Nat), idx = K.length + nd → idx + vs.length ≤ orig →
    rloopOk orig { live := K ++ (vs ++ (rest ++ M)), numImported := ni, numDeleted := nd } idx vs = true := by
  induction vs with
  | nil => intro K rest M idx ni nd _ _; simp [rloopOk]
  | cons v vs ih =>
    intro K rest M idx ni nd hidx hle
    have hlt : idx < orig := by simp at hle; omega
    have hp : idx - nd = K.length := by omega
    have hin : idx - nd < (K ++ (v :: vs ++ (rest ++ M))).length := by simp; omega
    simp only [rloopOk, Bool.and_eq_true]
    constructor
    · simp only [rstepOk, hlt, if_true]
      split
      · simpa using hin
      · rfl
    · simp only [rstep, hlt, if_true, hp]
      by_cases hdel : v.del
      · simp only [hdel, if_true]
        rw [show K ++ (v :: vs ++ (rest ++ M)) = K ++ v :: (vs ++ (rest ++ M)) by simp, eraseIdx_mid]
        exact ih K rest M (idx + 1) (ni - 1) (nd + 1) (by omega) (by simp at hle; omega)
      · by_cases himp : v.imp
        · simp only [himp, hdel, Bool.not_true, Bool.false_eq_true, if_false]
          have h := ih (K ++ [v]) rest M (idx + 1) ni nd (by simp; omega) (by simp at hle; omega)
          simpa using h
        · simp only [himp, hdel, Bool.not_false, Bool.false_eq_true, if_false, if_true]
          rw [show K ++ (v :: vs ++ (rest ++ M)) = K ++ v :: (vs ++ (rest ++ M)) by simp,
            getElem?_mid, eraseIdx_mid]
          have h := ih K rest (M ++ [v]) (idx + 1) (ni - 1) (nd + 1) (by omega) (by simp at hle; omega)
          simpa using h

theorem phase2_ok (orig : Nat) (vs : List Item) :
    ∀ (K U L M : List Item) (idx nd : Nat), idx = K.length + U.length + L.length + nd → orig ≤ idx →
    rloopOk orig { live := K ++ (U ++ (L ++ (vs ++ M))), numImported := K.length + U.length, numDeleted := nd } idx vs = true := by
  induction vs with
  | nil => intro K U L M idx nd _ _; simp [rloopOk]
  | cons v vs ih =>
    intro K U L M idx nd hidx hle
    have hlt : ¬ idx < orig := by omega
    have hp : idx - nd = (K ++ (U ++ L)).length := by simp; omega
    have hin : idx - nd < (K ++ (U ++ (L ++ (v :: vs ++ M)))).length := by simp; omega
    have hni : K.length + U.length ≤ (K ++ (U ++ (L ++ (v :: vs ++ M)))).length - 1 := by simp; omega
    simp only [rloopOk, Bool.and_eq_true]
    constructor
    · simp only [rstepOk, hlt, if_false]
      split
      · simpa using hin
      · split
        · simp only [Bool.and_eq_true, decide_eq_true_eq]; exact ⟨hin, hni⟩
        · rfl
    · simp only [rstep, hlt, if_false, hp]
      by_cases hdel : v.del
      · simp only [hdel, if_true]
        rw [show K ++ (U ++ (L ++ (v :: vs ++ M))) = (K ++ (U ++ L)) ++ v :: (vs ++ M) by simp, eraseIdx_mid]
        have h := ih K U L M (idx + 1) (nd + 1) (by omega) (by omega)
        simpa using h
      · by_cases himp : v.imp
        · simp only [himp, hdel, Bool.false_eq_true, if_false, if_true]
          rw [show K ++ (U ++ (L ++ (v :: vs ++ M))) = (K ++ (U ++ L)) ++ v :: (vs ++ M) by simp,
            getElem?_mid, eraseIdx_mid]
          simp only
          rw [show (K ++ (U ++ L)) ++ (vs ++ M) = (K ++ U) ++ (L ++ (vs ++ M)) by simp,
            show K.length + U.length = (K ++ U).length by simp, insertIdx_mid]
          have h := ih K (U ++ [v]) L M (idx + 1) nd (by simp; omega) (by omega)
          simp only [List.append_assoc, List.length_append, List.length_singleton, List.singleton_append] at h ⊢
          rw [show K.length + U.length + 1 = K.length + (U.length + 1) by omega]
          exact h
        · simp only [himp, hdel, Bool.false_eq_true, if_false]
          have h := ih K U (L ++ [v]) M (idx + 1) nd (by simp; omega) (by omega)
          simpa using h

theorem rloopOk_append (orig : Nat) (as bs : List Item) : ∀ (st : RS) (idx : Nat),
    rloopOk orig st idx (as ++ bs) = (rloopOk orig st idx as && rloopOk orig (rloop orig st idx as) (idx + as.length) bs) := by
  induction as with
  | nil => intro st idx; simp [rloopOk, rloop]
  | cons a as ih =>
    intro st idx
    simp only [List.cons_append, rloopOk, rloop, ih, List.length_cons, Bool.and_assoc]
    congr 3; omega

/-- `Vec::remove` / `Vec::insert` are never called out of range -/
theorem rloopOk_true (orig : Nat) (xs : List Item) (h : orig ≤ xs.length) :
    rloopOk orig { live := xs, numImported := orig, numDeleted := 0 } 0 xs = true := by
  conv => lhs; arg 4; rw [← List.take_append_drop orig xs]
  conv => lhs; arg 2; rw [← List.take_append_drop orig xs]
  rw [rloopOk_append]
  have hlen : (xs.take orig).length = orig := by simp [h]
  have h1ok := phase1_ok orig (xs.take orig) [] (xs.drop orig) [] 0 orig 0 (by simp) (by simp; omega)
  have h1 := phase1 orig (xs.take orig) [] (xs.drop orig) [] 0 orig 0 (by simp) (by simp; omega)
  simp only [List.nil_append, List.append_nil] at h1 h1ok
  rw [h1ok, h1, Bool.true_and]
  have hk : ((xs.take orig).filter keepImp).length ≤ orig := by
    have := List.length_filter_le keepImp (xs.take orig); omega
  have h2 := phase2_ok orig (xs.drop orig) ((xs.take orig).filter keepImp) [] []
    ((xs.take orig).filter keepLoc) (0 + (xs.take orig).length)
    (0 + ((xs.take orig).length - ((xs.take orig).filter keepImp).length)) (by simp; omega) (by omega)
  simp only [List.nil_append, List.length_nil, Nat.add_zero] at h2
  rw [show orig - ((xs.take orig).length - ((xs.take orig).filter keepImp).length)
      = ((xs.take orig).filter keepImp).length by omega]
  exact h2

/-! ### the new position of every entry -/

/-- before the first encode the stored id of every entry is its position -/
def IdsFresh (xs : List Item) : Prop := ∀ (i : Nat) (x : Item), xs[i]? = some x → x.id = i

theorem idsFresh_nodup (xs : List Item) (hf : IdsFresh xs) : (xs.map (·.id)).Nodup := by
  have : xs.map (·.id) = List.range xs.length := by
    apply List.ext_getElem?
    intro i
    by_cases hi : i < xs.length
    · have hx : xs[i]? = some xs[i] := List.getElem?_eq_getElem hi
      simp [hi, hf i _ hx]
    · simp [List.getElem?_eq_none (Nat.le_of_not_lt hi), hi]
  rw [this]; exact List.nodup_range

theorem recalculate_spec (orig : Nat) (xs : List Item) (h : orig ≤ xs.length) (hf : IdsFresh xs) :
    ∃ ys, recalculate orig xs = some ys ∧ ys = orderImports (reorganise orig xs)
      ∧ ys.Perm (xs.filter (fun x => !x.del))
      ∧ (∀ i x, xs[i]? = some x → x.del = false → ∃ p, mapping ys i = some p ∧ ys[p]? = some x)
      ∧ (∀ i x, xs[i]? = some x → x.del = true → mapping ys i = none)
      ∧ (∀ i, xs.length ≤ i → mapping ys i = none) := by
  have hperm := orderImports_perm orig xs h
  have hnd0 := idsFresh_nodup xs hf
  have hndf : ((xs.filter (fun x => !x.del)).map (·.id)).Nodup :=
    (hnd0.sublist ((List.filter_sublist).map _))
  have hnd : ((orderImports (reorganise orig xs)).map (·.id)).Nodup :=
    (List.Perm.nodup_iff (hperm.map _)).mpr hndf
  refine ⟨orderImports (reorganise orig xs), ?_, rfl, hperm, ?_, ?_, ?_⟩
  · simp [recalculate, rloopOk_true orig xs h, distinctIds_of_nodup _ hnd]
  · intro i x hx hd
    have hmem : x ∈ orderImports (reorganise orig xs) := by
      apply hperm.symm.subset
      exact List.mem_filter.mpr ⟨List.mem_of_getElem? hx, by simp [hd]⟩
    obtain ⟨p, hp⟩ := List.getElem?_of_mem hmem
    exact ⟨p, mapping_some _ i p hnd (by simp [hp, hf i x hx]), hp⟩
  · intro i x hx hd
    apply mapping_none
    intro y hy hyi
    have hy' := List.mem_filter.mp (hperm.subset hy)
    obtain ⟨j, hj⟩ := List.getElem?_of_mem hy'.1
    have : j = i := by rw [← hf j y hj]; exact hyi
    subst this
    rw [hx] at hj
    have : x = y := Option.some.inj hj
    subst this
    simp [hd] at hy'
  · intro i hi
    apply mapping_none
    intro y hy hyi
    have hy' := List.mem_filter.mp (hperm.subset hy)
    obtain ⟨j, hj⟩ := List.getElem?_of_mem hy'.1
    have hjl : j < xs.length := by
      rcases Nat.lt_or_ge j xs.length with h' | h'
      · exact h'
      · simp [List.getElem?_eq_none h'] at hj
    have := hf j y hj
    omega

end Orca.Reindex
