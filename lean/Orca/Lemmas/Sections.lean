import Orca.Model.Sections
namespace Orca.Sections

/-- the non-custom part of the plan -/
def core (s : Shape) : List Nat := (plan s).filter (· ≠ 0)

/-- all non-custom sections, in the order of the binary format -/
def allCore : List Nat := [1, 2, 3, 4, 5, 13, 6, 7, 8, 9, 12, 10, 11]

theorem opt_sublist (c : Prop) [Decidable c] (x : Nat) : (if c then [x] else []).Sublist [x] := by
  split
  · exact List.Sublist.refl _
  · exact List.nil_sublist _

theorem filter_opt (c : Prop) [Decidable c] (x : Nat) (hx : x ≠ 0) :
    (if c then [x] else []).filter (· ≠ 0) = (if c then [x] else []) := by
  split <;> simp [hx]

theorem filter_zeros (n : Nat) : (List.replicate n 0).filter (· ≠ 0) = [] := by
  induction n with
  | zero => rfl
  | succ n ih => simp [List.replicate_succ]

theorem core_eq (s : Shape) : core s =
    (if s.typeGroups > 0 then [1] else []) ++ (if s.imports > 0 then [2] else []) ++ (if s.funcs > 0 then [3] else [])
      ++ (if s.tables > 0 then [4] else []) ++ (if s.mems > 0 then [5] else []) ++ (if s.tags > 0 then [13] else [])
      ++ (if s.globals > 0 then [6] else []) ++ (if s.exports > 0 then [7] else []) ++ (if s.start then [8] else [])
      ++ (if s.elems > 0 then [9] else []) ++ (if s.dataCount then [12] else []) ++ [10] ++ (if s.datas > 0 then [11] else []) := by
  unfold core plan
  simp only [List.filter_append, filter_opt _ _ (by decide : (1 : Nat) ≠ 0), filter_opt _ _ (by decide : (2 : Nat) ≠ 0),
    filter_opt _ _ (by decide : (3 : Nat) ≠ 0), filter_opt _ _ (by decide : (4 : Nat) ≠ 0), filter_opt _ _ (by decide : (5 : Nat) ≠ 0),
    filter_opt _ _ (by decide : (13 : Nat) ≠ 0), filter_opt _ _ (by decide : (6 : Nat) ≠ 0), filter_opt _ _ (by decide : (7 : Nat) ≠ 0),
    filter_opt _ _ (by decide : (8 : Nat) ≠ 0), filter_opt _ _ (by decide : (9 : Nat) ≠ 0), filter_opt _ _ (by decide : (12 : Nat) ≠ 0),
    filter_opt _ _ (by decide : (11 : Nat) ≠ 0), filter_zeros]
  simp

theorem core_sublist (s : Shape) : (core s).Sublist allCore := by
  rw [core_eq]
  have h : allCore = [1] ++ [2] ++ [3] ++ [4] ++ [5] ++ [13] ++ [6] ++ [7] ++ [8] ++ [9] ++ [12] ++ [10] ++ [11] := rfl
  rw [h]
  repeat (first | exact opt_sublist _ _ | exact List.Sublist.refl _ | apply List.Sublist.append)

theorem allCore_sorted : allCore.Pairwise (fun x y => rank x < rank y) := by decide

/-- **order.** the non-custom sections of every encoded module are in the order the binary format prescribes, each at most once -/
theorem core_sorted (s : Shape) : (core s).Pairwise (fun x y => rank x < rank y) :=
  allCore_sorted.sublist (core_sublist s)

theorem mem_core_of (s : Shape) (x : Nat) (h : x ∈ core s) : x ∈ allCore := (core_sublist s).subset h

end Orca.Sections
