import Orca.Lemmas.Sem
/-! Monitoring only adds trace events: erasing the trace, a run with the monitor on (any probes in any slots) and a run
    with the monitor off are the same run. This is the "neutral probes change nothing else" half of C16. -/
namespace Orca.Sem

variable {fns : List Callee}

/-- an outcome without its trace (and without the pending probe of a branch) -/
inductive OutA where
  | normal (c : Core)
  | br (n : Nat) (c : Core)
  | ret (c : Core)
  | trap (c : Core)
  | stuck
deriving Repr, DecidableEq

def Out.abs : Out → OutA
  | .normal s => .normal s.core
  | .br n _ s => .br n s.core
  | .ret s => .ret s.core
  | .trap s => .trap s.core
  | .stuck _ => .stuck

@[simp] theorem core_fire (s : St) (ps : List Nat) : (s.fire ps).core = s.core := rfl
@[simp] theorem core_withCore (s : St) (c : Core) : (s.withCore c).core = c := rfl

def leaveBlockA (base : List Nat) (a : Nat) : OutA → OutA
  | .normal c => .normal c
  | .br 0 c => .normal { c with stack := c.stack.take a ++ base }
  | .br (n + 1) c => .br n c
  | o => o

theorem leaveBlock_abs (m : Bool) (ann : Ann) (base : List Nat) (a : Nat) (o : Out) :
    (leaveBlock m ann base a o).abs = leaveBlockA base a o.abs := by
  cases o with
  | normal s => cases m <;> simp [leaveBlock, Out.abs, leaveBlockA]
  | br n pd s => cases n <;> cases m <;> simp [leaveBlock, Out.abs, leaveBlockA, St.exitTo, St.core, St.fire]
  | _ => simp [leaveBlock, Out.abs, leaveBlockA]

def callRetA (s : Core) (c : Callee) : OutA → OutA
  | .normal r | .ret r | .br 0 r => .normal { r with stack := r.stack.take c.nresults ++ s.stack.drop c.nparams, locals := s.locals }
  | .trap r => .trap { r with stack := s.stack, locals := s.locals }
  | .br (_ + 1) _ => .stuck
  | .stuck => .stuck

theorem callRet_abs (m : Bool) (after : List Nat) (s : St) (c : Callee) (o : Out) :
    (callRet m after s c o).abs = callRetA s.core c o.abs := by
  cases o with
  | br n pd r => cases n <;> cases m <;> simp [callRet, Out.abs, callRetA, St.core, St.fire]
  | _ => cases m <;> simp [callRet, Out.abs, callRetA, St.core, St.fire]

theorem stepTok_core (k : OpK) (s s' : St) (h : s.core = s'.core) :
    (match stepTok k s, stepTok k s' with
     | .ok a, .ok b => a.core = b.core
     | .trap, .trap => True
     | .call f, .call g => f = g
     | .stuck, .stuck => True
     | _, _ => False) := by
  simp only [stepTok, h]
  cases stepCore k s'.core <;> simp

/-- with equal cores, two runs — whatever the monitor switch and the exit probes — have the same outcome up to traces -/
theorem erase_aux : ∀ f : Nat, ∀ (m m' : Bool) (fx fx' : List Nat),
    (∀ p s s', s.core = s'.core → (run fns m fx f p s).abs = (run fns m' fx' f p s').abs)
    ∧ (∀ i s s', s.core = s'.core → (runOne fns m fx f i s).abs = (runOne fns m' fx' f i s').abs) := by
  intro f
  induction f with
  | zero => intro m m' fx fx'; exact ⟨fun _ _ _ _ => by simp [run, Out.abs], fun _ _ _ _ => by simp [runOne, Out.abs]⟩
  | succ f ih =>
    intro m m' fx fx'
    have ihL := fun m m' fx fx' => (ih m m' fx fx').1
    have ihO := fun m m' fx fx' => (ih m m' fx fx').2
    constructor
    · intro p s s' hc
      cases p with
      | nil => simp [run, Out.abs, hc]
      | cons i is =>
        rw [run, run]
        have h1 := ihO m m' fx fx' i s s' hc
        cases hx : runOne fns m fx f i s <;> cases hy : runOne fns m' fx' f i s' <;>
          rw [hx, hy] at h1 <;> simp only [Out.abs, OutA.normal.injEq, OutA.br.injEq, OutA.ret.injEq, OutA.trap.injEq, reduceCtorEq] at h1 <;>
          first
            | exact ihL m m' fx fx' is _ _ h1
            | simp [Out.abs, h1]
    · intro i s s' hc
      have hfire : ∀ (b : Bool) (ps : List Nat) (x : St), (if b = true then x.fire ps else x).core = x.core := by
        intro b ps x; cases b <;> rfl
      cases i with
      | op before after k =>
        rw [runOne, runOne]
        try simp only
        generalize hs1 : (if m = true then s.fire before else s) = s1
        generalize hs2 : (if m' = true then s'.fire before else s') = s2
        have hc12 : s1.core = s2.core := by rw [← hs1, ← hs2, hfire, hfire]; exact hc
        have hst := stepTok_core k s1 s2 hc12
        cases h1 : stepTok k s1 <;> cases h2 : stepTok k s2 <;> rw [h1, h2] at hst <;> try (simp only at hst)
        case ok.ok => simp only [Out.abs, apply_ite St.core, core_fire, ite_self, hst]
        case trap.trap => simp [Out.abs, hc12]
        case call.call g g' =>
          subst hst
          try simp only
          cases fns[g]? with
          | none => simp [Out.abs]
          | some c =>
            try simp only
            have hcc := hc12
            simp only [St.core, Core.mk.injEq] at hcc
            obtain ⟨hstack, hloc, hglob, hmem⟩ := hcc
            rw [hstack]
            by_cases hlt : s2.stack.length < c.nparams
            · simp [hlt, Out.abs]
            · simp only [hlt, if_false]
              by_cases hlog : c.log = true
              · simp only [hlog, if_true, Out.abs, hfire]
                simp [St.core, hloc, hglob, hmem]
              · simp only [hlog, Bool.false_eq_true, if_false]
                rw [callRet_abs, callRet_abs, hc12]
                congr 1
                apply ihL false false [] []
                simp [St.core, hglob, hmem]
      | probe id => simp [runOne, Out.abs, hc]
      | block before ann a tk body =>
        rw [runOne, runOne]
        try simp only
        rw [leaveBlock_abs, leaveBlock_abs]
        have hstack : (if m = true then s.fire before else s).stack = (if m' = true then s'.fire before else s').stack := by
          have := congrArg Core.stack hc
          cases m <;> cases m' <;> simpa [St.core] using this
        rw [hstack]
        congr 1
        apply ihL
        simp only [hfire]; exact hc
      | loop before ann tk body =>
        rw [runOne, runOne]
        try simp only
        have hb := ihL m m' fx fx' body
          (if m = true then (if m = true then s.fire before else s).fire ann.entry else (if m = true then s.fire before else s))
          (if m' = true then (if m' = true then s'.fire before else s').fire ann.entry else (if m' = true then s'.fire before else s'))
          (by simp only [hfire]; exact hc)
        have hstack : (if m = true then s.fire before else s).stack = (if m' = true then s'.fire before else s').stack := by
          have := congrArg Core.stack hc
          cases m <;> cases m' <;> simpa [St.core] using this
        cases hx : run fns m fx f body _ <;> cases hy : run fns m' fx' f body _ <;>
          rw [hx, hy] at hb <;> simp only [Out.abs, OutA.normal.injEq, OutA.br.injEq, OutA.ret.injEq, OutA.trap.injEq, reduceCtorEq] at hb
        · simp only [Out.abs, apply_ite St.core, core_fire, ite_self, hb]
        · obtain ⟨hn, hcore⟩ := hb
          subst hn
          rename_i n _ _ _ _
          cases n with
          | zero =>
            simp only
            apply ihO
            rw [hstack]
            simp only [St.core, Core.mk.injEq] at hcore ⊢
            simp [hcore]
          | succ n => simp [Out.abs, hcore]
        · simp [Out.abs, hb]
        · simp [Out.abs, hb]
        · simp [Out.abs]
      | ite before annT annE a tk t e he =>
        rw [runOne, runOne]
        try simp only
        have hstack : (if m = true then s.fire before else s).stack = (if m' = true then s'.fire before else s').stack := by
          have := congrArg Core.stack hc
          cases m <;> cases m' <;> simpa [St.core] using this
        rw [hstack]
        cases hst : (if m' = true then s'.fire before else s').stack with
        | nil => simp [Out.abs]
        | cons v st =>
          simp only
          have hc0 : (({ (if m = true then s.fire before else s) with stack := st } : St)).core
              = (({ (if m' = true then s'.fire before else s') with stack := st } : St)).core := by
            have := hc
            cases m <;> cases m' <;> simp_all [St.core, St.fire]
          by_cases hv : v ≠ 0
          · rw [if_pos hv, if_pos hv, leaveBlock_abs, leaveBlock_abs]
            congr 1
            apply ihL
            simp only [hfire]; exact hc0
          · rw [if_neg hv, if_neg hv, leaveBlock_abs, leaveBlock_abs]
            congr 1
            apply ihL
            simp only [hfire]; exact hc0
      | br before after sa n => simp only [runOne, Out.abs, hfire, hc]
      | brIf before after sa n =>
        rw [runOne, runOne]
        try simp only
        have hstack : (if m = true then s.fire before else s).stack = (if m' = true then s'.fire before else s').stack := by
          have := congrArg Core.stack hc
          cases m <;> cases m' <;> simpa [St.core] using this
        rw [hstack]
        cases hst : (if m' = true then s'.fire before else s').stack with
        | nil => simp [Out.abs]
        | cons v st =>
          simp only
          have hc0 : (({ (if m = true then s.fire before else s) with stack := st } : St)).core
              = (({ (if m' = true then s'.fire before else s') with stack := st } : St)).core := by
            have := hc
            cases m <;> cases m' <;> simp_all [St.core, St.fire]
          by_cases hv : v ≠ 0
          · rw [if_pos hv, if_pos hv]; simp only [Out.abs, hc0]
          · rw [if_neg hv, if_neg hv]; simp only [Out.abs, apply_ite St.core, core_fire, ite_self, hc0]
      | brTable before after sa ts d =>
        rw [runOne, runOne]
        try simp only
        have hstack : (if m = true then s.fire before else s).stack = (if m' = true then s'.fire before else s').stack := by
          have := congrArg Core.stack hc
          cases m <;> cases m' <;> simpa [St.core] using this
        rw [hstack]
        cases hst : (if m' = true then s'.fire before else s').stack with
        | nil => simp [Out.abs]
        | cons v st =>
          simp only [Out.abs]
          have hc0 : (({ (if m = true then s.fire before else s) with stack := st } : St)).core
              = (({ (if m' = true then s'.fire before else s') with stack := st } : St)).core := by
            have := hc
            cases m <;> cases m' <;> simp_all [St.core, St.fire]
          rw [hc0]
      | ret before after => simp only [runOne, Out.abs, apply_ite St.core, core_fire, ite_self, hc]
      | unreachable before after => simp only [runOne, Out.abs, apply_ite St.core, core_fire, ite_self, hc]

end Orca.Sem

namespace Orca.Sem
variable {fns : List Callee}

/-- what a caller can observe of an activation besides the trace: results, globals, memory — or a trap, with the globals
    and memory at the trap -/
inductive FOutA where
  | returned (results globals : List Nat) (mem : List (Nat × Nat))
  | trapped (globals : List Nat) (mem : List (Nat × Nat))
  | stuck
deriving Repr, DecidableEq

def FOut.abs : FOut → FOutA
  | .returned r s => .returned r s.globals s.mem
  | .trapped s => .trapped s.globals s.mem
  | .stuck _ => .stuck

def finishA (nres : Nat) : OutA → FOutA
  | .normal c | .ret c | .br 0 c => .returned (c.stack.take nres) c.globals c.mem
  | .br (_ + 1) _ => .stuck
  | .trap c => .trapped c.globals c.mem
  | .stuck => .stuck

theorem finish_abs (m : Bool) (F : Func) (base : List Nat) (o : Out) :
    (finish m F base o).abs = finishA F.nres o.abs := by
  cases o with
  | br n pd s => cases n <;> cases m <;> simp [finish, FOut.abs, finishA, Out.abs, St.core, St.fire, St.exitTo]
  | _ => cases m <;> simp [finish, FOut.abs, finishA, Out.abs, St.core, St.fire]

/-- **monitor erasure, function level**: an activation observed without its trace does not depend on the monitor -/
theorem runFunc_erase (F : Func) (s : St) (f : Nat) :
    (runFunc fns true f F s).abs = (runFunc fns false f F s).abs := by
  simp only [runFunc, if_true, Bool.false_eq_true, if_false, finish_abs]
  congr 1
  exact (erase_aux (fns := fns) f true false F.exit F.exit).1 F.body _ _ rfl

end Orca.Sem
