import Orca.Model.Sem
namespace Orca.Sem

@[simp] theorem St.fire_nil (s : St) : s.fire [] = s := by simp [St.fire]
@[simp] theorem St.fire_fire (s : St) (a b : List Nat) : (s.fire a).fire b = s.fire (a ++ b) := by
  simp [St.fire, List.append_assoc]
@[simp] theorem St.fire_stack (s : St) (a : List Nat) : (s.fire a).stack = s.stack := rfl

@[simp] theorem ok_normal (s : St) : (Out.normal s).ok = true := rfl
@[simp] theorem ok_br (n p) (s : St) : (Out.br n p s).ok = true := rfl
@[simp] theorem ok_ret (s : St) : (Out.ret s).ok = true := rfl
@[simp] theorem ok_trap (s : St) : (Out.trap s).ok = true := rfl
@[simp] theorem ok_stuck (w : String) : (Out.stuck w).ok = false := rfl

theorem leaveBlock_ok {m ann base a x} (h : (leaveBlock m ann base a x).ok = true) : x.ok = true := by
  cases x with
  | stuck w => simp [leaveBlock] at h
  | _ => rfl

theorem callRet_ok {m after s c x} (h : (callRet m after s c x).ok = true) : x.ok = true := by
  cases x with
  | stuck w => simp [callRet] at h
  | _ => rfl

/-- more fuel never changes a finished run -/
theorem mono (fns : List Callee) : ∀ f : Nat, ∀ (m : Bool) (fx : List Nat),
    (∀ p s o, run fns m fx f p s = o → o.ok = true → run fns m fx (f + 1) p s = o)
    ∧ (∀ i s o, runOne fns m fx f i s = o → o.ok = true → runOne fns m fx (f + 1) i s = o) := by
  intro f
  induction f with
  | zero =>
    intro m fx
    constructor
    · intro p s o h hok; simp [run] at h; subst h; simp at hok
    · intro i s o h hok; simp [runOne] at h; subst h; simp at hok
  | succ f ih =>
    intro m fx
    have ihL := fun m fx => (ih m fx).1
    have ihO := fun m fx => (ih m fx).2
    constructor
    · intro p s o h hok
      cases p with
      | nil => simpa [run] using h
      | cons i is =>
        rw [run] at h ⊢
        cases hx : runOne fns m fx f i s with
        | normal s' =>
          rw [hx] at h
          rw [ihO m fx i s _ hx rfl]
          exact ihL m fx is s' o h hok
        | stuck w => rw [hx] at h; subst h; simp at hok
        | br n pd s' => rw [hx] at h; rw [ihO m fx i s _ hx rfl]; exact h
        | ret s' => rw [hx] at h; rw [ihO m fx i s _ hx rfl]; exact h
        | trap s' => rw [hx] at h; rw [ihO m fx i s _ hx rfl]; exact h
    · intro i s o h hok
      cases i with
      | op before after t =>
        rw [runOne] at h ⊢
        try simp only at h ⊢
        generalize (if m = true then s.fire before else s) = s1 at h ⊢
        cases hst : stepTok t s1 with
        | ok s' => rw [hst] at h; simpa using h
        | trap => rw [hst] at h; simpa using h
        | stuck => rw [hst] at h; simpa using h
        | call g =>
          rw [hst] at h
          try simp only at h ⊢
          cases hc : fns[g]? with
          | none => rw [hc] at h; simpa using h
          | some c =>
            rw [hc] at h
            try simp only at h ⊢
            by_cases hlt : s1.stack.length < c.nparams
            · simp only [hlt, if_true] at h ⊢; exact h
            · simp only [hlt, if_false] at h ⊢
              by_cases hlog : c.log = true
              · simp only [hlog, if_true] at h ⊢; exact h
              · simp only [hlog] at h ⊢
                subst h
                have hx := callRet_ok hok
                rw [ihL false [] _ _ _ rfl hx]
      | probe id => simpa [runOne] using h
      | block before ann a tk body =>
        rw [runOne] at h ⊢
        try simp only at h ⊢
        generalize (if m = true then s.fire before else s) = s1 at h ⊢
        subst h
        have hx := leaveBlock_ok hok
        rw [ihL m fx _ _ _ rfl hx]
      | loop before ann tk body =>
        rw [runOne] at h ⊢
        try simp only at h ⊢
        generalize (if m = true then s.fire before else s) = s1 at h ⊢
        cases hx : run fns m fx f body (if m = true then s1.fire ann.entry else s1) with
        | normal s' => rw [hx] at h; rw [ihL m fx _ _ _ hx rfl]; exact h
        | stuck w => rw [hx] at h; subst h; simp at hok
        | ret s' => rw [hx] at h; rw [ihL m fx _ _ _ hx rfl]; exact h
        | trap s' => rw [hx] at h; rw [ihL m fx _ _ _ hx rfl]; exact h
        | br n pd s' =>
          rw [hx] at h; rw [ihL m fx _ _ _ hx rfl]
          cases n with
          | zero => simp only at h ⊢; exact ihO m fx _ _ _ h hok
          | succ n => exact h
      | ite before annT annE a tk t e he =>
        rw [runOne] at h ⊢
        try simp only at h ⊢
        generalize (if m = true then s.fire before else s) = s1 at h ⊢
        cases hs : s1.stack with
        | nil => rw [hs] at h; simpa using h
        | cons v st =>
          rw [hs] at h
          try simp only at h ⊢
          by_cases hv : v ≠ 0
          · rw [if_pos hv] at h ⊢
            subst h
            have hx := leaveBlock_ok hok
            rw [ihL m fx _ _ _ rfl hx]
          · rw [if_neg hv] at h ⊢
            subst h
            have hx := leaveBlock_ok hok
            rw [ihL m fx _ _ _ rfl hx]
      | br before after sa n => simpa [runOne] using h
      | brIf before after sa n => simpa [runOne] using h
      | brTable before after sa ts d => simpa [runOne] using h
      | ret before after => simpa [runOne] using h
      | unreachable before after => simpa [runOne] using h

end Orca.Sem
