import Orca.Lemmas.Preserve
/-!
Slots of the function vector are stable: an operation of the edit API changes the entry at position `j` only when it
addresses `j` (delete it, convert it, replace the import it carries). With `encode_spec` this turns the one-step
statements of C10 and C11 into statements about the encoded module after any further history.
-/
namespace Orca.Edit
open Orca.Reindex

/-- `op` does not address the function entry `x` stored at position `j` -/
def SparesF (j : Nat) (x : Item) : Op → Prop
  | .deleteFunc id => id ≠ j
  | .localToImport id _ => id ≠ j ∨ x.imp = true
  | .replaceImport k _ _ => x.imp = false ∨ x.impId ≠ k
  | .encode => False
  | _ => True

theorem setItem_ne (l : List Item) (i j : Nat) (f : Item → Item) (h : i ≠ j) : (setItem l i f)[j]? = l[j]? := by
  unfold setItem
  split
  · simp [h]
  · rfl

theorem deleteEntity_slotF (s : St) (sp : Sp) (id j : Nat) (h : sp = .F → id ≠ j) :
    (deleteEntity s sp id).1.f.items[j]? = s.f.items[j]? := by
  unfold deleteEntity
  cases sp with
  | F =>
    have hne := h rfl
    simp only [St.space, St.setSpace]
    split
    · exact setItem_ne _ _ _ _ hne
    · split
      · split <;> exact setItem_ne _ _ _ _ hne
      · exact setItem_ne _ _ _ _ hne
  | G =>
    simp only [St.space, St.setSpace]
    split
    · rfl
    · split
      · split <;> rfl
      · rfl
  | M =>
    simp only [St.space, St.setSpace]
    split
    · rfl
    · split
      · split <;> rfl
      · rfl

theorem getElem?_append_some {α : Type} (l t : List α) (j : Nat) (x : α) (h : l[j]? = some x) : (l ++ t)[j]? = some x := by
  have hlt : j < l.length := by
    rcases Nat.lt_or_ge j l.length with h' | h'
    · exact h'
    · rw [List.getElem?_eq_none h'] at h; cases h
  rw [List.getElem?_append_left hlt]; exact h

theorem findIdx?_sat {α : Type} (p : α → Bool) : ∀ (l : List α) (i : Nat), l.findIdx? p = some i → ∃ x, l[i]? = some x ∧ p x = true := by
  intro l
  induction l with
  | nil => intro i h; simp at h
  | cons a l ih =>
    intro i h
    rw [List.findIdx?_cons] at h
    by_cases hp : p a = true
    · simp [hp] at h; subst h; exact ⟨a, by simp, hp⟩
    · simp [hp] at h
      obtain ⟨k, hk, rfl⟩ := h
      obtain ⟨x, hx, hpx⟩ := ih k hk
      exact ⟨x, by simpa using hx, hpx⟩

/-- **frame.** an operation that does not address the entry at `j` leaves it as it is -/
theorem step_slotF (s : St) (op : Op) (j : Nat) (x : Item) (hx : s.f.items[j]? = some x) (hs : SparesF j x op) :
    (step s op).1.f.items[j]? = some x := by
  cases op with
  | addLocalFunc uid sites => simp only [step, addLocalFunc, Space.push]; exact getElem?_append_some _ _ _ _ hx
  | addImportFunc uid =>
    simp only [step, addImportFunc, addImport, St.space, St.setSpace, Space.push]; exact getElem?_append_some _ _ _ _ hx
  | deleteFunc id => simp only [step]; rw [deleteEntity_slotF s .F id j (fun _ => hs)]; exact hx
  | localToImport id uid =>
    simp only [step, localToImport]
    split
    · exact hx
    · split
      · exact hx
      · rename_i it hit hnimp
        have hne : id ≠ j := by
          rcases hs with h | h
          · exact h
          · intro e; subst e; rw [hx] at hit; cases hit; exact absurd h hnimp
        have hd := deleteEntity_slotF s .F id j (fun _ => hne)
        split
        · rw [hd]; exact hx
        · simp only [addImport, St.space, St.setSpace]
          rw [setItem_ne _ _ _ _ hne, hd]; exact hx
  | replaceImport k uid sites =>
    simp only [step, replaceImport]
    split
    · exact hx
    · split
      · exact hx
      · split
        · exact hx
        · rename_i fid hfind
          have hne : fid ≠ j := by
            intro e; subst e
            obtain ⟨y, hy, hp⟩ := findIdx?_sat _ _ _ hfind
            rw [hx] at hy; cases hy
            simp only [Bool.and_eq_true, beq_iff_eq] at hp
            rcases hs with h | h
            · rw [h] at hp; simp at hp
            · exact h hp.2
          have hd := deleteEntity_slotF s .F fid j (fun _ => hne)
          split
          · rw [hd]; exact hx
          · simp only []
            rw [setItem_ne _ _ _ _ hne, hd]; exact hx
  | inject id sites =>
    simp only [step, inject]
    split
    · exact hx
    · split <;> exact hx
  | addGlobal uid sites => exact hx
  | addImportedGlobal uid => simpa [step, addImportedGlobal, addImport, St.space, St.setSpace, Space.push] using hx
  | iterAddGlobal uid sites => exact hx
  | deleteGlobal id => simp only [step]; rw [deleteEntity_slotF s .G id j (fun h => by cases h)]; exact hx
  | modGlobalInit id sites =>
    simp only [step, modGlobalInit]
    split
    · split <;> exact hx
    · exact hx
  | addLocalMem uid => exact hx
  | addImportMem uid => simpa [step, addImportMem, addImport, St.space, St.setSpace, Space.push] using hx
  | deleteMem id => simp only [step]; rw [deleteEntity_slotF s .M id j (fun h => by cases h)]; exact hx
  | addExport r => exact hx
  | deleteExport i =>
    simp only [step, deleteExport]
    split <;> exact hx
  | addData mem sites => exact hx
  | encode => exact absurd hs (by simp [SparesF])

/-- every operation of a history spares the entry -/
def SparedBy (j : Nat) (x : Item) (ops : List Op) : Prop := ∀ op ∈ ops, SparesF j x op

theorem run_slotF (ops : List Op) : ∀ (s : St) (j : Nat) (x : Item), s.f.items[j]? = some x → SparedBy j x ops →
    (run s ops).1.f.items[j]? = some x := by
  induction ops with
  | nil => intro s j x hx _; exact hx
  | cons op ops ih =>
    intro s j x hx hs
    have h1 := step_slotF s op j x hx (hs op (List.mem_cons_self ..))
    simp only [run]
    split
    · exact h1
    · exact ih _ j x h1 (fun o ho => hs o (List.mem_cons_of_mem _ ho))

theorem SparedBy.noEncode {j : Nat} {x : Item} {ops : List Op} (h : SparedBy j x ops) : NoEncode ops := by
  intro op ho e
  subst e
  exact h _ ho

/-- **Redirection.** If position `j` of the function vector holds the live entry `x` and the history spares it, then after the
    history `encode` either fails loudly (some *other* stored reference dangles) or every emitted reference whose stored id was
    `j` designates, in the index space of the encoded module, the function `x.uid` — and every other reference designates what
    its id designated (C06). -/
theorem encode_redirects (s0 : St) (h0 : StInv s0) (j : Nat) (x : Item) (hx : s0.f.items[j]? = some x)
    (ops : List Op) (hs : SparedBy j x ops) :
    let s := (run s0 ops).1
    (∃ s' F G M res st, encode s = (s', Ret.encoded F G M res st)
        ∧ (∀ r' ∈ res ++ st.toList, ∃ r ∈ allRefs s, r'.site = r.site ∧ r'.sp = r.sp
            ∧ (∃ u, PointsTo s r u ∧ designated F G M r' = some u)
            ∧ (r.sp = .F → r.idx = j → designated F G M r' = some x.uid)))
    ∨ (∃ s' why, encode s = (s', Ret.panic why) ∧ ∃ r ∈ allRefs s, Dangling s r) := by
  intro s
  have hslot : s.f.items[j]? = some x := run_slotF ops s0 j x hx hs
  have hinv := spaceInv_after s0 h0 ops hs.noEncode
  rcases encode_spec s hinv.1 hinv.2.1 hinv.2.2 with ⟨s', F, G, M, res, st, he, hall⟩ | hp
  · refine .inl ⟨s', F, G, M, res, st, he, ?_⟩
    intro r' hr'
    obtain ⟨r, hr, h1, h2, u, hpt, hd⟩ := hall r' hr'
    refine ⟨r, hr, h1, h2, ⟨u, hpt, hd⟩, ?_⟩
    intro hsp hidx
    obtain ⟨item, hi, _, hu⟩ := hpt
    rw [hsp, hidx] at hi
    simp only [St.space] at hi
    rw [hslot] at hi
    cases hi
    rw [hd, hu]
  · exact .inr hp

end Orca.Edit
