import Orca.Lemmas.Preserve
/-!
Slots of the function vector are stable: an operation of the edit API changes the entry at position `j` only when it
addresses `j` (delete it, convert it, replace the import it carries). With `encode_spec` this turns the one-step
statements of C10 and C11 into statements about the encoded module after any further history.
-/
namespace Orca.Edit
open Orca.Reindex

/-- `op` does not address the function entry `x` stored at position `j` -/
def SparesF (j : Nat) (x : Item) : Op → Prop
  | .deleteFunc id => id ≠ j
  | .localToImport id _ => id ≠ j ∨ x.imp = true
  | .replaceImport k _ _ => x.imp = false ∨ x.impId ≠ k
  | .encode => False
  | _ => True

theorem setItem_ne (l : List Item) (i j : Nat) (f : Item → Item) (h : i ≠ j) : (setItem l i f)[j]? = l[j]? := by
  unfold setItem
  split
  · simp [h]
  · rfl

theorem deleteEntity_slotF (s : St) (sp : Sp) (id j : Nat) (h : sp = .F → id ≠ j) :
    (deleteEntity s sp id).1.f.items[j]? = s.f.items[j]? := by
  unfold deleteEntity
  cases sp with
  | F =>
    have hne := h rfl
    simp only [St.space, St.setSpace]
    split
    · exact setItem_ne _ _ _ _ hne
    · split
      · split <;> exact setItem_ne _ _ _ _ hne
      · exact setItem_ne _ _ _ _ hne
  | G =>
    simp only [St.space, St.setSpace]
    split
    · rfl
    · split
      · split <;> rfl
      · rfl
  | M =>
    simp only [St.space, St.setSpace]
    split
    · rfl
    · split
      · split <;> rfl
      · rfl

theorem getElem?_append_some {α : Type} (l t : List α) (j : Nat) (x : α) (h : l[j]? = some x) : (l ++ t)[j]? = some x := by
  have hlt : j < l.length := by
    rcases Nat.lt_or_ge j l.length with h' | h'
    · exact h'
    · rw [List.getElem?_eq_none h'] at h; cases h
  rw [List.getElem?_append_left hlt]; exact h

theorem findIdx?_sat {α : Type} (p : α → Bool) : ∀ (l : List α) (i : Nat), l.findIdx? p = some i → ∃ x, l[i]? = some x ∧ p x = true := by
  intro l
  induction l with
  | nil => intro i h; simp at h
  | cons a l ih =>
    intro i h
    rw [List.findIdx?_cons] at h
    by_cases hp : p a = true
    · simp [hp] at h; subst h; exact ⟨a, by simp, hp⟩
    · simp [hp] at h
      obtain ⟨k, hk, rfl⟩ := h
      obtain ⟨x, hx, hpx⟩ := ih k hk
      exact ⟨x, by simpa using hx, hpx⟩

/-- **frame.** an operation that does not address the entry at `j` leaves it as it is -/
theorem step_slotF (s : St) (op : Op) (j : Nat) (x : Item) (hx : s.f.items[j]? = some x) (hs : SparesF j x op) :
    (step s op).1.f.items[j]? = some x := by
  cases op with
  | addLocalFunc uid sites => simp only [step, addLocalFunc, Space.push]; exact getElem?_append_some _ _ _ _ hx
  | addImportFunc uid =>
    simp only [step, addImportFunc, addImport, St.space, St.setSpace, Space.push]; exact getElem?_append_some _ _ _ _ hx
  | deleteFunc id => simp only [step]; rw [deleteEntity_slotF s .F id j (fun _ => hs)]; exact hx
  | localToImport id uid =>
    simp only [step, localToImport]
    split
    · exact hx
    · split
      · exact hx
      · rename_i it hit hnimp
        have hne : id ≠ j := by
          rcases hs with h | h
          · exact h
          · intro e; subst e; rw [hx] at hit; cases hit; exact absurd h hnimp
        have hd := deleteEntity_slotF s .F id j (fun _ => hne)
        split
        · rw [hd]; exact hx
        · simp only [addImport, St.space, St.setSpace]
          rw [setItem_ne _ _ _ _ hne, hd]; exact hx
  | replaceImport k uid sites =>
    simp only [step, replaceImport]
    split
    · exact hx
    · split
      · exact hx
      · split
        · exact hx
        · rename_i fid hfind
          have hne : fid ≠ j := by
            intro e; subst e
            obtain ⟨y, hy, hp⟩ := findIdx?_sat _ _ _ hfind
            rw [hx] at hy; cases hy
            simp only [Bool.and_eq_true, beq_iff_eq] at hp
            rcases hs with h | h
            · rw [h] at hp; simp at hp
            · exact h hp.2
          have hd := deleteEntity_slotF s .F fid j (fun _ => hne)
          split
          · rw [hd]; exact hx
          · simp only []
            rw [setItem_ne _ _ _ _ hne, hd]; exact hx
  | inject id sites =>
    simp only [step, inject]
    split
    · exact hx
    · split <;> exact hx
  | addGlobal uid sites => exact hx
  | addImportedGlobal uid => simpa [step, addImportedGlobal, addImport, St.space, St.setSpace, Space.push] using hx
  | iterAddGlobal uid sites => exact hx
  | deleteGlobal id => simp only [step]; rw [deleteEntity_slotF s .G id j (fun h => by cases h)]; exact hx
  | modGlobalInit id sites =>
    simp only [step, modGlobalInit]
    split
    · split <;> exact hx
    · exact hx
  | addLocalMem uid => exact hx
  | addImportMem uid => simpa [step, addImportMem, addImport, St.space, St.setSpace, Space.push] using hx
  | deleteMem id => simp only [step]; rw [deleteEntity_slotF s .M id j (fun h => by cases h)]; exact hx
  | addExport r => exact hx
  | deleteExport i =>
    simp only [step, deleteExport]
    split <;> exact hx
  | addData mem sites => exact hx
  | encode => exact absurd hs (by simp [SparesF])

/-- every operation of a history spares the entry -/
def SparedBy (j : Nat) (x : Item) (ops : List Op) : Prop := ∀ op ∈ ops, SparesF j x op

theorem run_slotF (ops : List Op) : ∀ (s : St) (j : Nat) (x : Item), s.f.items[j]? = some x → SparedBy j x ops →
    (run s ops).1.f.items[j]? = some x := by
  induction ops with
  | nil => intro s j x hx _; exact hx
  | cons op ops ih =>
    intro s j x hx hs
    have h1 := step_slotF s op j x hx (hs op (List.mem_cons_self ..))
    simp only [run]
    split
    · exact h1
    · exact ih _ j x h1 (fun o ho => hs o (List.mem_cons_of_mem _ ho))

theorem SparedBy.noEncode {j : Nat} {x : Item} {ops : List Op} (h : SparedBy j x ops) : NoEncode ops := by
  intro op ho e
  subst e
  exact h _ ho

/-- **Redirection.** If position `j` of the function vector holds the live entry `x` and the history spares it, then after the
    history `encode` either fails loudly (some *other* stored reference dangles) or every emitted reference whose stored id was
    `j` designates, in the index space of the encoded module, the function `x.uid` — and every other reference designates what
    its id designated (C06). -/
theorem encode_redirects (s0 : St) (h0 : StInv s0) (j : Nat) (x : Item) (hx : s0.f.items[j]? = some x)
    (ops : List Op) (hs : SparedBy j x ops) :
    let s := (run s0 ops).1
    (∃ s' F G M res st, encode s = (s', Ret.encoded F G M res st)
        ∧ (∀ r' ∈ res ++ st.toList, ∃ r ∈ allRefs s, r'.site = r.site ∧ r'.sp = r.sp
            ∧ (∃ u, PointsTo s r u ∧ designated F G M r' = some u)
            ∧ (r.sp = .F → r.idx = j → designated F G M r' = some x.uid)))
    ∨ (∃ s' why, encode s = (s', Ret.panic why) ∧ ∃ r ∈ allRefs s, Dangling s r) := by
  intro s
  have hslot : s.f.items[j]? = some x := run_slotF ops s0 j x hx hs
  have hinv := spaceInv_after s0 h0 ops hs.noEncode
  rcases encode_spec s hinv.1 hinv.2.1 hinv.2.2 with ⟨s', F, G, M, res, st, he, hall⟩ | hp
  · refine .inl ⟨s', F, G, M, res, st, he, ?_⟩
    intro r' hr'
    obtain ⟨r, hr, h1, h2, u, hpt, hd⟩ := hall r' hr'
    refine ⟨r, hr, h1, h2, ⟨u, hpt, hd⟩, ?_⟩
    intro hsp hidx
    obtain ⟨item, hi, _, hu⟩ := hpt
    rw [hsp, hidx] at hi
    simp only [St.space] at hi
    rw [hslot] at hi
    cases hi
    rw [hd, hu]
  · exact .inr hp

/-! ### the same frame for the global and the memory vector -/

/-- `op` does not address the entry `x` stored at position `j` of the vector `sp` -/
def Spares (sp : Sp) (j : Nat) (x : Item) (op : Op) : Prop :=
  match sp with
  | .F => SparesF j x op
  | .G => (∀ id, op = .deleteGlobal id → id ≠ j) ∧ op ≠ .encode
  | .M => (∀ id, op = .deleteMem id → id ≠ j) ∧ op ≠ .encode

def markDel (x : Space) (id : Nat) : Space :=
  { x with items := setItem x.items id (fun (it : Item) => { it with del := true }), recalc := true }

theorem deleteEntity_space (s : St) (sp' : Sp) (id : Nat) (sp : Sp) :
    (deleteEntity s sp' id).1.space sp = (s.setSpace sp' (markDel (s.space sp') id)).space sp := by
  unfold deleteEntity
  simp only []
  split
  · rfl
  · split
    · split
      · cases sp <;> rfl
      · rfl
    · rfl

theorem deleteEntity_slot (s : St) (sp' : Sp) (id : Nat) (sp : Sp) (j : Nat) (h : sp' = sp → id ≠ j) :
    ((deleteEntity s sp' id).1.space sp).items[j]? = (s.space sp).items[j]? := by
  rw [deleteEntity_space]
  cases sp' <;> cases sp <;> simp only [St.setSpace, St.space, markDel] <;> first | rfl | exact setItem_ne _ _ _ _ (h rfl)

theorem localToImport_other (s : St) (id uid : Nat) : (localToImport s id uid).1.g = s.g ∧ (localToImport s id uid).1.m = s.m := by
  unfold localToImport
  split
  · exact ⟨rfl, rfl⟩
  · split
    · exact ⟨rfl, rfl⟩
    · have hg := deleteEntity_space s .F id .G
      have hm := deleteEntity_space s .F id .M
      simp only [St.space, St.setSpace, markDel] at hg hm
      dsimp only
      split
      · exact ⟨hg, hm⟩
      · simp only [addImport, St.space, St.setSpace]; exact ⟨hg, hm⟩

theorem replaceImport_other (s : St) (k uid : Nat) (c : List Ref) :
    (replaceImport s k uid c).1.g = s.g ∧ (replaceImport s k uid c).1.m = s.m := by
  unfold replaceImport
  split
  · exact ⟨rfl, rfl⟩
  · split
    · exact ⟨rfl, rfl⟩
    · split
      · exact ⟨rfl, rfl⟩
      · rename_i fid _
        have hg := deleteEntity_space s .F fid .G
        have hm := deleteEntity_space s .F fid .M
        simp only [St.space, St.setSpace, markDel] at hg hm
        dsimp only
        split
        · exact ⟨hg, hm⟩
        · exact ⟨hg, hm⟩

theorem step_slotG (s : St) (op : Op) (j : Nat) (x : Item) (hx : s.g.items[j]? = some x) (hs : Spares .G j x op) :
    (step s op).1.g.items[j]? = some x := by
  cases op with
  | addLocalFunc uid sites => exact hx
  | addImportFunc uid => simpa [step, addImportFunc, addImport, St.space, St.setSpace, Space.push] using hx
  | deleteFunc id => simp only [step]; have := deleteEntity_slot s .F id .G j (fun h => by cases h); simp only [St.space] at this; rw [this]; exact hx
  | localToImport id uid => simp only [step]; rw [(localToImport_other s id uid).1]; exact hx
  | replaceImport k uid c => simp only [step]; rw [(replaceImport_other s k uid c).1]; exact hx
  | inject id sites =>
    simp only [step, inject]
    split
    · exact hx
    · split <;> exact hx
  | addGlobal uid sites => simp only [step, addGlobal, Space.push]; exact getElem?_append_some _ _ _ _ hx
  | addImportedGlobal uid =>
    simp only [step, addImportedGlobal, addImport, St.space, St.setSpace, Space.push]; exact getElem?_append_some _ _ _ _ hx
  | iterAddGlobal uid sites => simp only [step, iterAddGlobal, Space.push]; exact getElem?_append_some _ _ _ _ hx
  | deleteGlobal id =>
    simp only [step]; have := deleteEntity_slot s .G id .G j (fun _ => hs.1 id rfl); simp only [St.space] at this; rw [this]; exact hx
  | modGlobalInit id sites =>
    simp only [step, modGlobalInit]
    split
    · split <;> exact hx
    · exact hx
  | addLocalMem uid => exact hx
  | addImportMem uid => simpa [step, addImportMem, addImport, St.space, St.setSpace, Space.push] using hx
  | deleteMem id => simp only [step]; have := deleteEntity_slot s .M id .G j (fun h => by cases h); simp only [St.space] at this; rw [this]; exact hx
  | addExport r => exact hx
  | deleteExport i =>
    simp only [step, deleteExport]
    split <;> exact hx
  | addData mem sites => exact hx
  | encode => exact absurd rfl hs.2

theorem step_slotM (s : St) (op : Op) (j : Nat) (x : Item) (hx : s.m.items[j]? = some x) (hs : Spares .M j x op) :
    (step s op).1.m.items[j]? = some x := by
  cases op with
  | addLocalFunc uid sites => exact hx
  | addImportFunc uid => simpa [step, addImportFunc, addImport, St.space, St.setSpace, Space.push] using hx
  | deleteFunc id => simp only [step]; have := deleteEntity_slot s .F id .M j (fun h => by cases h); simp only [St.space] at this; rw [this]; exact hx
  | localToImport id uid => simp only [step]; rw [(localToImport_other s id uid).2]; exact hx
  | replaceImport k uid c => simp only [step]; rw [(replaceImport_other s k uid c).2]; exact hx
  | inject id sites =>
    simp only [step, inject]
    split
    · exact hx
    · split <;> exact hx
  | addGlobal uid sites => exact hx
  | addImportedGlobal uid => simpa [step, addImportedGlobal, addImport, St.space, St.setSpace, Space.push] using hx
  | iterAddGlobal uid sites => exact hx
  | deleteGlobal id => simp only [step]; have := deleteEntity_slot s .G id .M j (fun h => by cases h); simp only [St.space] at this; rw [this]; exact hx
  | modGlobalInit id sites =>
    simp only [step, modGlobalInit]
    split
    · split <;> exact hx
    · exact hx
  | addLocalMem uid => simp only [step, addLocalMem, Space.push]; exact getElem?_append_some _ _ _ _ hx
  | addImportMem uid =>
    simp only [step, addImportMem, addImport, St.space, St.setSpace, Space.push]; exact getElem?_append_some _ _ _ _ hx
  | deleteMem id =>
    simp only [step]; have := deleteEntity_slot s .M id .M j (fun _ => hs.1 id rfl); simp only [St.space] at this; rw [this]; exact hx
  | addExport r => exact hx
  | deleteExport i =>
    simp only [step, deleteExport]
    split <;> exact hx
  | addData mem sites => exact hx
  | encode => exact absurd rfl hs.2

theorem step_slot (s : St) (op : Op) (sp : Sp) (j : Nat) (x : Item) (hx : (s.space sp).items[j]? = some x) (hs : Spares sp j x op) :
    ((step s op).1.space sp).items[j]? = some x := by
  cases sp with
  | F => exact step_slotF s op j x hx hs
  | G => exact step_slotG s op j x hx hs
  | M => exact step_slotM s op j x hx hs

def Spared (sp : Sp) (j : Nat) (x : Item) (ops : List Op) : Prop := ∀ op ∈ ops, Spares sp j x op

theorem run_slot (ops : List Op) : ∀ (s : St) (sp : Sp) (j : Nat) (x : Item), (s.space sp).items[j]? = some x → Spared sp j x ops →
    ((run s ops).1.space sp).items[j]? = some x := by
  induction ops with
  | nil => intro s sp j x hx _; exact hx
  | cons op ops ih =>
    intro s sp j x hx hs
    have h1 := step_slot s op sp j x hx (hs op (List.mem_cons_self ..))
    simp only [run]
    split
    · exact h1
    · exact ih _ sp j x h1 (fun o ho => hs o (List.mem_cons_of_mem _ ho))

theorem Spared.noEncode {sp : Sp} {j : Nat} {x : Item} {ops : List Op} (h : Spared sp j x ops) : NoEncode ops := by
  intro op ho e
  subst e
  have := h _ ho
  cases sp with
  | F => exact this
  | G => exact this.2 rfl
  | M => exact this.2 rfl

/-- **An id keeps designating its entity.** If position `j` of the vector `sp` holds the entry `x` and the history spares it,
    then after the history `encode` either fails loudly or every emitted reference of that index space whose stored id was `j`
    designates `x.uid` in the encoded module (and every reference at all designates what its id designated). -/
theorem encode_designates (s0 : St) (h0 : StInv s0) (sp : Sp) (j : Nat) (x : Item) (hx : (s0.space sp).items[j]? = some x)
    (ops : List Op) (hs : Spared sp j x ops) :
    let s := (run s0 ops).1
    (∃ s' F G M res st, encode s = (s', Ret.encoded F G M res st)
        ∧ (∀ r' ∈ res ++ st.toList, ∃ r ∈ allRefs s, r'.site = r.site ∧ r'.sp = r.sp
            ∧ (∃ u, PointsTo s r u ∧ designated F G M r' = some u)
            ∧ (r.sp = sp → r.idx = j → designated F G M r' = some x.uid)))
    ∨ (∃ s' why, encode s = (s', Ret.panic why) ∧ ∃ r ∈ allRefs s, Dangling s r) := by
  intro s
  have hslot : (s.space sp).items[j]? = some x := run_slot ops s0 sp j x hx hs
  have hinv := spaceInv_after s0 h0 ops hs.noEncode
  rcases encode_spec s hinv.1 hinv.2.1 hinv.2.2 with ⟨s', F, G, M, res, st, he, hall⟩ | hp
  · refine .inl ⟨s', F, G, M, res, st, he, ?_⟩
    intro r' hr'
    obtain ⟨r, hr, h1, h2, u, hpt, hd⟩ := hall r' hr'
    refine ⟨r, hr, h1, h2, ⟨u, hpt, hd⟩, ?_⟩
    intro hsp hidx
    obtain ⟨item, hi, _, hu⟩ := hpt
    rw [hsp, hidx, hslot] at hi
    cases hi
    rw [hd, hu]
  · exact .inr hp

/-! ### ids reported by the additions -/

/-- the operations that add an entity: its index space and the entity -/
def addedBy : Op → Option (Sp × Nat)
  | .addLocalFunc uid _ => some (.F, uid)
  | .addImportFunc uid => some (.F, uid)
  | .addGlobal uid _ => some (.G, uid)
  | .addImportedGlobal uid => some (.G, uid)
  | .iterAddGlobal uid _ => some (.G, uid)
  | .addLocalMem uid => some (.M, uid)
  | .addImportMem uid => some (.M, uid)
  | _ => none

/-- the entity id an operation reports -/
def reportedId : Ret → Option Nat
  | .id n => some n
  | .id2 n _ => some n
  | _ => none

/-- an addition reports the position at which it stores the new, live entity -/
theorem added_slot (s : St) (op : Op) (sp : Sp) (uid : Nat) (h : addedBy op = some (sp, uid)) :
    reportedId (step s op).2 = some (s.space sp).items.length
    ∧ ∃ x, ((step s op).1.space sp).items[(s.space sp).items.length]? = some x ∧ x.uid = uid ∧ x.del = false
        ∧ (x.imp = true → x.impId = s.imports.length) := by
  cases op <;> simp only [addedBy, Option.some.injEq, Prod.mk.injEq, reduceCtorEq] at h <;> obtain ⟨rfl, rfl⟩ := h
  all_goals simp [step, addLocalFunc, addImportFunc, addGlobal, addImportedGlobal, iterAddGlobal, addLocalMem, addImportMem,
    addImport, St.space, St.setSpace, Space.push, mkItem, reportedId]

theorem addedBy_ne_encode {op : Op} {p : Sp × Nat} (h : addedBy op = some p) : op ≠ .encode := by
  intro e; subst e; simp [addedBy] at h

/-- **The reported id designates the added item**, after any later history that spares it. -/
theorem added_id_designates (s0 : St) (h0 : StInv s0) (op : Op) (sp : Sp) (uid : Nat) (hadd : addedBy op = some (sp, uid))
    (ops : List Op)
    (hs : ∀ x, ((step s0 op).1.space sp).items[(s0.space sp).items.length]? = some x → Spared sp (s0.space sp).items.length x ops) :
    let n := (s0.space sp).items.length
    let s := (run (step s0 op).1 ops).1
    reportedId (step s0 op).2 = some n
    ∧ ((∃ s' F G M res st, encode s = (s', Ret.encoded F G M res st)
        ∧ (∀ r' ∈ res ++ st.toList, ∃ r ∈ allRefs s, r'.site = r.site ∧ r'.sp = r.sp
            ∧ (∃ u, PointsTo s r u ∧ designated F G M r' = some u)
            ∧ (r.sp = sp → r.idx = n → designated F G M r' = some uid)))
      ∨ (∃ s' why, encode s = (s', Ret.panic why) ∧ ∃ r ∈ allRefs s, Dangling s r)) := by
  intro n s
  obtain ⟨hrep, x, hx, hu, _, _⟩ := added_slot s0 op sp uid hadd
  refine ⟨hrep, ?_⟩
  have h1 : StInv (step s0 op).1 := stInv_step s0 op (addedBy_ne_encode hadd) h0
  have := encode_designates _ h1 sp n x hx ops (hs x hx)
  rw [hu] at this
  exact this

end Orca.Edit
