import Orca.Model.Names
namespace Orca.Names

theorem getName_setName (l : List (Nat × String)) (k q : Nat) (v : String) :
    getName (setName l k v) q = if k = q then some v else getName l q := by
  induction l with
  | nil => simp [setName, getName]
  | cons p ps ih =>
    obtain ⟨k', v'⟩ := p
    by_cases h1 : k' = k
    · subst h1
      by_cases h2 : k' = q <;> simp [setName, getName, h2]
    · by_cases h2 : k' = q
      · have : ¬ k = q := fun h => h1 (h2.trans h.symm)
        subst h2
        simp [setName, getName, h1, this]
      · simp [setName, getName, h1, h2, ih]

theorem mem_insertByKey {α : Type} (key : α → Nat) (a x : α) (l : List α) :
    x ∈ insertByKey key a l ↔ x = a ∨ x ∈ l := by
  induction l with
  | nil => simp [insertByKey]
  | cons y ys ih =>
    simp only [insertByKey]
    split
    · simp
    · simp only [List.mem_cons, ih]
      constructor
      · rintro (h | h | h)
        · exact .inr (.inl h)
        · exact .inl h
        · exact .inr (.inr h)
      · rintro (h | h | h)
        · exact .inr (.inl h)
        · exact .inl h
        · exact .inr (.inr h)

theorem mem_sortByKey {α : Type} (key : α → Nat) (x : α) (l : List α) : x ∈ sortByKey key l ↔ x ∈ l := by
  unfold sortByKey
  suffices h : ∀ (acc : List α), x ∈ l.foldl (fun acc y => insertByKey key y acc) acc ↔ x ∈ acc ∨ x ∈ l by
    simpa using h []
  induction l with
  | nil => intro acc; simp
  | cons y ys ih =>
    intro acc
    simp only [List.foldl_cons, ih, mem_insertByKey, List.mem_cons]
    constructor
    · rintro ((h | h) | h)
      · exact .inr (.inl h)
      · exact .inl h
      · exact .inr (.inr h)
    · rintro (h | h | h)
      · exact .inl (.inr h)
      · exact .inl (.inl h)
      · exact .inr h

/-- insertion keeps a list sorted -/
def Sorted {α : Type} (key : α → Nat) : List α → Prop
  | [] => True
  | [_] => True
  | a :: b :: rest => key a ≤ key b ∧ Sorted key (b :: rest)

theorem sorted_insert {α : Type} (key : α → Nat) (a : α) : ∀ l : List α, Sorted key l → Sorted key (insertByKey key a l)
  | [], _ => by simp [insertByKey, Sorted]
  | [y], _ => by
    simp only [insertByKey]
    split
    · exact ⟨by omega, trivial⟩
    · exact ⟨by omega, trivial⟩
  | y :: z :: rest, h => by
    simp only [insertByKey]
    split
    · rename_i hlt; exact ⟨by omega, h⟩
    · rename_i hge
      have ih := sorted_insert key a (z :: rest) h.2
      simp only [insertByKey] at ih ⊢
      split
      · rename_i hlt; exact ⟨by omega, by omega, h.2⟩
      · rename_i hge2
        simp only [hge2, if_false] at ih
        exact ⟨h.1, ih⟩

theorem sorted_sortByKey {α : Type} (key : α → Nat) (l : List α) : Sorted key (sortByKey key l) := by
  unfold sortByKey
  suffices h : ∀ acc, Sorted key acc → Sorted key (l.foldl (fun acc y => insertByKey key y acc) acc) from h [] trivial
  induction l with
  | nil => intro acc h; exact h
  | cons y ys ih => intro acc h; exact ih _ (sorted_insert key y acc h)

end Orca.Names
