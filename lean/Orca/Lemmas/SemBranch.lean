import Orca.Lemmas.SemSim
import Orca.Lemmas.SemErase
/-!
Semantic-after on **branches**: the flag scheme of the code (a fresh i32 local per annotated branch, `1` in front of the
branch, `0` behind it, `local.get flag; if <probes> end` behind the `end` of the target construct; the flag is never
cleared after the check has fired) simulates the monitor — on the scope where it does: annotated `br` / `br_if`, and no
loop contains (or is) the target of an annotated branch. Outside this scope the statement is false (findings F14, F15;
counterexamples in Props/C20.lean).
-/
namespace Orca.Sem

variable {fns : List Callee}

/-! ### flags of a fragment, scope -/

mutual
def flagsI : Instr → List Nat
  | .br _ _ (some sa) _ => [sa.flag]
  | .brIf _ _ (some sa) _ => [sa.flag]
  | .brTable _ _ (some sa) _ _ => [sa.flag]
  | .block _ _ _ _ body => flagsL body
  | .loop _ _ _ body => flagsL body
  | .ite _ _ _ _ _ t e _ => flagsL t ++ flagsL e
  | _ => []
def flagsL : List Instr → List Nat
  | [] => []
  | i :: is => flagsI i ++ flagsL is
end

mutual
/-- no construct inside is the target of an annotated branch -/
def noTargetsI : Instr → Bool
  | .block _ _ _ _ body => (pendingL 0 body).isEmpty && noTargetsL body
  | .loop _ _ _ body => (pendingL 0 body).isEmpty && noTargetsL body
  | .ite _ _ _ _ _ t e _ => (pendingL 0 t).isEmpty && (pendingL 0 e).isEmpty && noTargetsL t && noTargetsL e
  | _ => true
def noTargetsL : List Instr → Bool
  | [] => true
  | i :: is => noTargetsI i && noTargetsL is
end

/-- the local an instruction reads or writes -/
def OpK.local? : OpK → Option Nat
  | .localGet i | .localSet i | .localTee i => some i
  | _ => none

mutual
/-- the scope: annotations on `br` / `br_if` only; no loop contains (or is) the target of an annotated branch; the
    program's own instructions do not touch the flag locals `F` -/
def scopedI (F : List Nat) : Instr → Bool
  | .op _ _ k => match k.local? with | some i => !F.contains i | none => true
  | .block _ _ _ _ body => scopedL F body
  | .loop _ _ _ body => (pendingL 0 body).isEmpty && noTargetsL body && scopedL F body
  | .ite _ _ _ _ _ t e _ => scopedL F t && scopedL F e
  | .brTable _ _ sa _ _ => sa.isNone
  | _ => true
def scopedL (F : List Nat) : List Instr → Bool
  | [] => true
  | i :: is => scopedI F i && scopedL F is
end

/-! ### states that differ in flag locals only -/

structure FlagEq (F : List Nat) (s s' : St) : Prop where
  stack : s'.stack = s.stack
  globals : s'.globals = s.globals
  mem : s'.mem = s.mem
  trace : s'.trace = s.trace
  len : s'.locals.length = s.locals.length
  locals : ∀ i, i ∉ F → s'.locals[i]? = s.locals[i]?

theorem FlagEq.refl (F : List Nat) (s : St) : FlagEq F s s := ⟨rfl, rfl, rfl, rfl, rfl, fun _ _ => rfl⟩

theorem FlagEq.fire {F s s'} (h : FlagEq F s s') (ps : List Nat) : FlagEq F (s.fire ps) (s'.fire ps) :=
  ⟨h.stack, h.globals, h.mem, by simp [St.fire, h.trace], h.len, h.locals⟩

theorem FlagEq.withStack {F s s'} (h : FlagEq F s s') (st : List Nat) :
    FlagEq F { s with stack := st } { s' with stack := st } :=
  ⟨rfl, h.globals, h.mem, h.trace, h.len, h.locals⟩

theorem FlagEq.exitTo {F s s'} (h : FlagEq F s s') (base : List Nat) (a : Nat) : FlagEq F (s.exitTo base a) (s'.exitTo base a) :=
  ⟨by simp [St.exitTo, h.stack], h.globals, h.mem, h.trace, h.len, h.locals⟩

/-- the state an outcome carries -/
def Out.st? : Out → Option St
  | .normal s | .br _ _ s | .ret s | .trap s => some s
  | .stuck _ => none

/-- outcomes of the monitored run and of the lowered run: same shape, no pending probe in the lowered one, states equal
    up to flag locals -/
def OutRel (F : List Nat) : Out → Out → Prop
  | .normal s, .normal s' => FlagEq F s s'
  | .br n _ s, .br n' pd' s' => n' = n ∧ pd' = none ∧ FlagEq F s s'
  | .ret s, .ret s' => FlagEq F s s'
  | .trap s, .trap s' => FlagEq F s s'
  | _, _ => False

/-! ### instructions that do not touch the flags -/

theorem setNth_length (l : List Nat) (i v : Nat) : (setNth l i v).length = l.length := by
  unfold setNth; split <;> simp

theorem setNth_get_ne (l : List Nat) (i v j : Nat) (h : j ≠ i) : (setNth l i v)[j]? = l[j]? := by
  unfold setNth
  split
  · exact List.getElem?_set_ne (Ne.symm h)
  · rfl

theorem setNth_get_self (l : List Nat) (i v : Nat) (h : i < l.length) : (setNth l i v)[i]? = some v := by
  unfold setNth
  simp [h]

/-- cores that differ in flag locals only -/
structure CoreEq (F : List Nat) (c c' : Core) : Prop where
  stack : c'.stack = c.stack
  globals : c'.globals = c.globals
  mem : c'.mem = c.mem
  len : c'.locals.length = c.locals.length
  locals : ∀ i, i ∉ F → c'.locals[i]? = c.locals[i]?

def CoreRRel (F : List Nat) : CoreR → CoreR → Prop
  | .ok c, .ok c' => CoreEq F c c'
  | .trap, .trap => True
  | .call f, .call f' => f' = f
  | .stuck, .stuck => True
  | _, _ => False

theorem stepCore_frame (F : List Nat) (k : OpK) (c c' : Core) (h : CoreEq F c c')
    (hk : ∀ i, k.local? = some i → i ∉ F) : CoreRRel F (stepCore k c) (stepCore k c') := by
  obtain ⟨hs, hg, hm, hl, hloc⟩ := h
  cases k with
  | localGet i =>
    have hi := hloc i (hk i rfl)
    simp only [stepCore, hi]
    cases c.locals[i]? with
    | none => trivial
    | some v => exact ⟨by simp [hs], hg, hm, hl, hloc⟩
  | localSet i =>
    simp only [stepCore, hs, hl]
    cases c.stack with
    | nil => trivial
    | cons v st =>
      simp only
      split
      · refine ⟨rfl, hg, hm, by simp [setNth_length, hl], fun j hj => ?_⟩
        by_cases hji : j = i
        · subst hji
          rw [setNth_get_self _ _ _ (by omega), setNth_get_self _ _ _ (by omega)]
        · rw [setNth_get_ne _ _ _ _ hji, setNth_get_ne _ _ _ _ hji]; exact hloc j hj
      · trivial
  | localTee i =>
    simp only [stepCore, hs, hl]
    cases c.stack with
    | nil => trivial
    | cons v st =>
      simp only
      split
      · refine ⟨by simp [hs], hg, hm, by simp [setNth_length, hl], fun j hj => ?_⟩
        by_cases hji : j = i
        · subst hji
          rw [setNth_get_self _ _ _ (by omega), setNth_get_self _ _ _ (by omega)]
        · rw [setNth_get_ne _ _ _ _ hji, setNth_get_ne _ _ _ _ hji]; exact hloc j hj
      · trivial
  | _ =>
    all_goals
      simp only [stepCore, hs, hg, hm]
      repeat' split
      all_goals first
        | trivial
        | exact ⟨by simp_all, by simp_all, by simp_all, hl, hloc⟩
        | exact rfl

theorem stepCore_keeps (k : OpK) (c : Core) (x : Nat) (hk : k.local? ≠ some x) (c2 : Core) (h : stepCore k c = .ok c2) :
    c2.locals[x]? = c.locals[x]? ∧ c2.locals.length = c.locals.length := by
  have hne : ∀ i, k.local? = some i → x ≠ i := fun i hi e => hk (by rw [hi, e])
  cases k
  all_goals simp only [stepCore] at h
  all_goals (repeat' (split at h))
  all_goals first
    | (cases h; done)
    | (cases h; exact ⟨rfl, rfl⟩)
    | (cases h; exact ⟨setNth_get_ne _ _ _ _ (hne _ rfl), setNth_length _ _ _⟩)

/-- a property of the state an outcome carries -/
def Out.All (P : St → Prop) : Out → Prop
  | .normal s | .br _ _ s | .ret s | .trap s => P s
  | .stuck _ => True

theorem FlagEq.core {F s s'} (h : FlagEq F s s') : CoreEq F s.core s'.core :=
  ⟨h.stack, h.globals, h.mem, h.len, h.locals⟩

theorem withCore_flagEq {F s s' c c'} (h : FlagEq F s s') (hc : CoreEq F c c') : FlagEq F (s.withCore c) (s'.withCore c') :=
  ⟨hc.stack, hc.globals, hc.mem, h.trace, hc.len, hc.locals⟩

/-- a bare instruction that does not touch the flag locals, run from two states that differ in flag locals only: the same
    outcome up to flag locals, the flag locals of the second run stay what they were, and it is not a branch -/
theorem runOne_op_frame (F : List Nat) (f : Nat) (t : OpK) (s s' : St) (h : FlagEq F s s')
    (hk : ∀ i, t.local? = some i → i ∉ F) (o : Out)
    (ho : runOne fns false [] (f + 1) (.op [] [] t) s = o) (ok : o.ok = true) :
    ∃ o', runOne fns false [] (f + 1) (.op [] [] t) s' = o' ∧ OutRel F o o'
      ∧ o'.All (fun r => r.locals.length = s'.locals.length ∧ ∀ x ∈ F, r.locals[x]? = s'.locals[x]?)
      ∧ (∀ n pd r, o ≠ .br n pd r) := by
  simp only [runOne, Bool.false_eq_true, if_false, stepTok] at ho ⊢
  have hfr := stepCore_frame F t s.core s'.core h.core hk
  cases hc : stepCore t s.core with
  | ok c =>
    rw [hc] at ho hfr
    cases hc' : stepCore t s'.core with
    | ok c' =>
      rw [hc'] at hfr
      simp only at ho ⊢
      subst ho
      refine ⟨_, rfl, withCore_flagEq h hfr, ?_, by intro n pd r e; cases e⟩
      have hkeep := fun x (hx : x ∈ F) => stepCore_keeps t s'.core x (by intro e; exact hk x e hx) c' hc'
      refine ⟨?_, fun x hx => (hkeep x hx).1⟩
      cases F with
      | nil =>
        -- no flag at all: the length is still preserved by every instruction
        have := stepCore_keeps t s'.core (match t.local? with | some i => i + 1 | none => 0)
          (by cases ht : t.local? <;> simp) c' hc'
        exact this.2
      | cons x xs => exact (hkeep x (List.mem_cons_self ..)).2
    | trap => rw [hc'] at hfr; exact hfr.elim
    | call g => rw [hc'] at hfr; exact hfr.elim
    | stuck => rw [hc'] at hfr; exact hfr.elim
  | trap =>
    rw [hc] at ho hfr
    cases hc' : stepCore t s'.core with
    | trap =>
      simp only at ho ⊢
      subst ho
      exact ⟨_, rfl, h, ⟨rfl, fun _ _ => rfl⟩, by intro n pd r e; cases e⟩
    | ok c' => rw [hc'] at hfr; exact hfr.elim
    | call g => rw [hc'] at hfr; exact hfr.elim
    | stuck => rw [hc'] at hfr; exact hfr.elim
  | stuck => rw [hc] at ho; simp only at ho; subst ho; simp at ok
  | call g =>
    rw [hc] at ho hfr
    cases hc' : stepCore t s'.core with
    | ok c' => rw [hc'] at hfr; exact hfr.elim
    | trap => rw [hc'] at hfr; exact hfr.elim
    | stuck => rw [hc'] at hfr; exact hfr.elim
    | call g' =>
      rw [hc'] at hfr
      have hg : g' = g := hfr
      subst hg
      simp only at ho ⊢
      cases hfn : fns[g']? with
      | none => rw [hfn] at ho; simp only at ho; subst ho; simp at ok
      | some c =>
        rw [hfn] at ho
        simp only [h.stack] at ho ⊢
        by_cases hlt : s.stack.length < c.nparams
        · simp only [hlt, if_true] at ho; subst ho; simp at ok
        · simp only [hlt, if_false] at ho ⊢
          by_cases hlog : c.log = true
          · simp only [hlog, if_true] at ho ⊢
            subst ho
            refine ⟨_, rfl, ⟨by simp [h.stack], h.globals, h.mem, by simp [h.trace, h.stack], h.len, h.locals⟩,
              ⟨rfl, fun _ _ => rfl⟩, by intro n pd r e; cases e⟩
          · simp only [hlog] at ho ⊢
            have hcallee : ({ s' with stack := [], locals := (List.take c.nparams s.stack).reverse ++ List.replicate c.nlocals 0 } : St)
                = { s with stack := [], locals := (List.take c.nparams s.stack).reverse ++ List.replicate c.nlocals 0 } := by
              cases s; cases s'; simp_all [FlagEq.globals h, FlagEq.mem h, FlagEq.trace h]
              exact ⟨h.globals, h.mem, h.trace⟩
            rw [hcallee]
            generalize run fns false [] f c.body _ = oc at ho ⊢
            subst ho
            cases oc with
            | stuck w => simp [callRet] at ok
            | normal r =>
              refine ⟨_, rfl, ?_, ⟨rfl, fun _ _ => rfl⟩, by intro n pd r e; simp [callRet] at e⟩
              exact ⟨by simp [callRet, h.stack], rfl, rfl, rfl, h.len, h.locals⟩
            | ret r =>
              refine ⟨_, rfl, ?_, ⟨rfl, fun _ _ => rfl⟩, by intro n pd r e; simp [callRet] at e⟩
              exact ⟨by simp [callRet, h.stack], rfl, rfl, rfl, h.len, h.locals⟩
            | trap r =>
              refine ⟨_, rfl, ?_, ⟨rfl, fun _ _ => rfl⟩, by intro n pd r e; simp [callRet] at e⟩
              exact ⟨by simp [callRet, h.stack], rfl, rfl, rfl, h.len, h.locals⟩
            | br n pd r =>
              cases n with
              | zero =>
                refine ⟨_, rfl, ?_, ⟨rfl, fun _ _ => rfl⟩, by intro n pd r e; simp [callRet] at e⟩
                exact ⟨by simp [callRet, h.stack], rfl, rfl, rfl, h.len, h.locals⟩
              | succ n => simp [callRet] at ok

/-! ### the flag code -/

def flagIs (s : St) (x v : Nat) : Prop := s.locals[x]? = some v

def St.setLocal (s : St) (x v : Nat) : St := { s with locals := setNth s.locals x v }

theorem Runs1.const {s : St} (v : Nat) :
    Runs1 fns false [] (.op [] [] (.const v)) s (.normal { s with stack := (v % W) :: s.stack }) :=
  ⟨1, by simp [runOne, stepTok, stepCore, St.core, St.withCore], rfl⟩

theorem Runs1.localSet {s : St} (x v : Nat) (st : List Nat) (hs : s.stack = v :: st) (hx : x < s.locals.length) :
    Runs1 fns false [] (.op [] [] (.localSet x)) s (.normal { (s.setLocal x v) with stack := st }) :=
  ⟨1, by simp [runOne, stepTok, stepCore, St.core, St.withCore, hs, hx, St.setLocal], rfl⟩

theorem Runs1.localGet {s : St} (x v : Nat) (hx : s.locals[x]? = some v) :
    Runs1 fns false [] (.op [] [] (.localGet x)) s (.normal { s with stack := v :: s.stack }) :=
  ⟨1, by simp [runOne, stepTok, stepCore, St.core, St.withCore, hx], rfl⟩

/-- `i32.const v; local.set x` (v = 0 or 1) -/
theorem RunsL.setFlag_pre {is : List Instr} {s : St} {o : Out} (x v : Nat) (hv : v < W) (hx : x < s.locals.length)
    (h : RunsL fns false [] is (s.setLocal x v) o) : RunsL fns false [] (setFlag x v ++ is) s o := by
  simp only [setFlag, List.cons_append, List.nil_append]
  refine RunsL.cons_normal (Runs1.const v) (RunsL.cons_normal (Runs1.localSet x (v % W) s.stack rfl (by simpa using hx)) ?_)
  have : v % W = v := Nat.mod_eq_of_lt hv
  rw [this]
  have e : ({ (({ s with stack := v :: s.stack } : St).setLocal x v) with stack := s.stack } : St) = s.setLocal x v := by
    cases s; rfl
  rw [e]; exact h

theorem setLocal_flagIs (s : St) (x v : Nat) (hx : x < s.locals.length) : flagIs (s.setLocal x v) x v :=
  setNth_get_self _ _ _ hx

theorem setLocal_other (s : St) (x v y : Nat) (h : y ≠ x) : (s.setLocal x v).locals[y]? = s.locals[y]? :=
  setNth_get_ne _ _ _ _ h

theorem setLocal_len (s : St) (x v : Nat) : (s.setLocal x v).locals.length = s.locals.length := setNth_length _ _ _

theorem FlagEq.setLocal {F s s'} (h : FlagEq F s s') (x v : Nat) (hx : x ∈ F) : FlagEq F s (s'.setLocal x v) :=
  ⟨h.stack, h.globals, h.mem, h.trace, by rw [setLocal_len]; exact h.len,
   fun i hi => by rw [setLocal_other _ _ _ _ (by intro e; exact hi (e ▸ hx))]; exact h.locals i hi⟩

/-- what the chain of checks behind a target's `end` fires: the probes of the first entry whose flag is not 0 -/
def chainPs (s : St) : List SA → List Nat
  | [] => []
  | sa :: rest => if (s.locals[sa.flag]?).getD 0 ≠ 0 then sa.ps else chainPs s rest

theorem chainPs_fire (s : St) (ps : List Nat) (L : List SA) : chainPs (s.fire ps) L = chainPs s L := by
  induction L with
  | nil => rfl
  | cons sa rest ih => simp only [chainPs, ih]; rfl

theorem flagChain_runs : ∀ (L : List SA) (s : St), (∀ sa ∈ L, ∃ v, s.locals[sa.flag]? = some v) →
    RunsL fns false [] (flagChain L) s (.normal (s.fire (chainPs s L)))
  | [], s, _ => by simpa [flagChain, chainPs] using (RunsL.nil (fns := fns) (m := false) (fx := []) (s := s))
  | sa :: rest, s, h => by
    obtain ⟨v, hv⟩ := h sa (List.mem_cons_self ..)
    simp only [flagChain]
    refine RunsL.cons_normal (Runs1.localGet sa.flag v hv) ?_
    by_cases hz : v ≠ 0
    · have harm : RunsL fns false [] (if v ≠ 0 then probes sa.ps else flagChain rest)
          { ({ s with stack := v :: s.stack } : St) with stack := s.stack } (.normal (s.fire sa.ps)) := by
        rw [if_pos hz]
        have e : ({ ({ s with stack := v :: s.stack } : St) with stack := s.stack } : St) = s := by cases s; rfl
        rw [e]; exact RunsL.probes_only sa.ps
      have h1 := Runs1.ite (fns := fns) (fx := []) (a := 0) (tk := "if") (t := probes sa.ps) (e := flagChain rest)
        (he := !rest.isEmpty) (s := { s with stack := v :: s.stack }) (v := v) (st := s.stack) rfl harm
      have hl : leaveBlock false {} s.stack 0 (.normal (s.fire sa.ps)) = .normal (s.fire sa.ps) := by simp [leaveBlock]
      rw [hl] at h1
      have hc : chainPs s (sa :: rest) = sa.ps := by simp [chainPs, hv, hz]
      rw [hc]
      exact RunsL.cons_normal h1 RunsL.nil
    · have hrest := flagChain_runs rest s (fun sb hb => h sb (List.mem_cons_of_mem _ hb))
      have harm : RunsL fns false [] (if v ≠ 0 then probes sa.ps else flagChain rest)
          { ({ s with stack := v :: s.stack } : St) with stack := s.stack } (.normal (s.fire (chainPs s rest))) := by
        rw [if_neg hz]
        have e : ({ ({ s with stack := v :: s.stack } : St) with stack := s.stack } : St) = s := by cases s; rfl
        rw [e]; exact hrest
      have h1 := Runs1.ite (fns := fns) (fx := []) (a := 0) (tk := "if") (t := probes sa.ps) (e := flagChain rest)
        (he := !rest.isEmpty) (s := { s with stack := v :: s.stack }) (v := v) (st := s.stack) rfl harm
      have hl : leaveBlock false {} s.stack 0 (.normal (s.fire (chainPs s rest))) = .normal (s.fire (chainPs s rest)) := by
        simp [leaveBlock]
      rw [hl] at h1
      have hc : chainPs s (sa :: rest) = chainPs s rest := by simp [chainPs, hv, hz]
      rw [hc]
      exact RunsL.cons_normal h1 RunsL.nil

theorem chainPs_none (s : St) (L : List SA) (h : ∀ sa ∈ L, flagIs s sa.flag 0) : chainPs s L = [] := by
  induction L with
  | nil => rfl
  | cons sa rest ih =>
    have := h sa (List.mem_cons_self ..)
    simp only [chainPs, flagIs] at this ⊢
    rw [this]
    simpa using ih (fun sb hb => h sb (List.mem_cons_of_mem _ hb))

theorem chainPs_one (s : St) (L : List SA) (sp : SA) (hm : sp ∈ L) (h1 : flagIs s sp.flag 1)
    (h : ∀ sa ∈ L, sa = sp ∨ flagIs s sa.flag 0) : chainPs s L = sp.ps := by
  induction L with
  | nil => cases hm
  | cons sa rest ih =>
    rcases h sa (List.mem_cons_self ..) with rfl | h0
    · simp only [chainPs, flagIs] at h1 ⊢; rw [h1]; simp
    · rcases List.mem_cons.mp hm with rfl | hm'
      · simp only [flagIs] at h0 h1; rw [h0] at h1; cases h1
      · simp only [chainPs, flagIs] at h0 ⊢
        rw [h0]
        simpa using ih hm' (fun sb hb => h sb (List.mem_cons_of_mem _ hb))

/-! ### which flag belongs to which branch -/

mutual
theorem pendI_mem_flags (d : Nat) (sa : SA) : ∀ i, sa ∈ pendingI d i → sa.flag ∈ flagsI i
  | .op .., h | .probe _, h | .ret .., h | .unreachable .., h => by simp [pendingI] at h
  | .br _ _ none _, h | .brIf _ _ none _, h | .brTable _ _ none _ _, h => by simp [pendingI] at h
  | .br _ _ (some s) n, h | .brIf _ _ (some s) n, h => by
    simp only [pendingI] at h
    split at h
    · simp at h; subst h; simp [flagsI]
    · simp at h
  | .brTable _ _ (some s) ts dflt, h => by
    simp only [pendingI, List.mem_filterMap] at h
    obtain ⟨n, _, hn⟩ := h
    split at hn
    · simp at hn; subst hn; simp [flagsI]
    · simp at hn
  | .block _ _ _ _ body, h | .loop _ _ _ body, h => by
    simp only [pendingI] at h; simpa [flagsI] using pendL_mem_flags (d + 1) sa body h
  | .ite _ _ _ _ _ t e _, h => by
    simp only [pendingI, List.mem_append] at h
    simp only [flagsI, List.mem_append]
    rcases h with h | h
    · exact .inl (pendL_mem_flags (d + 1) sa t h)
    · exact .inr (pendL_mem_flags (d + 1) sa e h)
theorem pendL_mem_flags (d : Nat) (sa : SA) : ∀ p, sa ∈ pendingL d p → sa.flag ∈ flagsL p
  | [], h => by simp [pendingL] at h
  | i :: is, h => by
    simp only [pendingL, List.mem_append] at h
    simp only [flagsL, List.mem_append]
    rcases h with h | h
    · exact .inl (pendI_mem_flags d sa i h)
    · exact .inr (pendL_mem_flags d sa is h)
end

theorem nodup_append_disjoint {α : Type} [DecidableEq α] {a b : List α} (h : (a ++ b).Nodup) {x : α} (ha : x ∈ a) (hb : x ∈ b) : False := by
  rw [List.nodup_append] at h
  exact h.2.2 x ha x hb rfl

mutual
theorem pendI_inj (F : List Nat) (sa sb : SA) (d d' : Nat) (hf : sa.flag = sb.flag) :
    ∀ i, scopedI F i = true → (flagsI i).Nodup → sa ∈ pendingI d i → sb ∈ pendingI d' i → sa = sb ∧ d = d'
  | .op .., _, _, h, _ | .probe _, _, _, h, _ | .ret .., _, _, h, _ | .unreachable .., _, _, h, _ => by simp [pendingI] at h
  | .br _ _ none _, _, _, h, _ | .brIf _ _ none _, _, _, h, _ | .brTable _ _ none _ _, _, _, h, _ => by simp [pendingI] at h
  | .brTable _ _ (some s) _ _, hsc, _, _, _ => by simp [scopedI] at hsc
  | .br _ _ (some s) n, _, _, ha, hb | .brIf _ _ (some s) n, _, _, ha, hb => by
    simp only [pendingI] at ha hb
    split at ha
    · split at hb
      · simp at ha hb; subst ha hb; exact ⟨rfl, by omega⟩
      · simp at hb
    · simp at ha
  | .block _ _ _ _ body, hsc, hnd, ha, hb => by
    simp only [pendingI] at ha hb
    have := pendL_inj F sa sb (d + 1) (d' + 1) hf body (by simpa [scopedI] using hsc) (by simpa [flagsI] using hnd) ha hb
    exact ⟨this.1, by omega⟩
  | .loop _ _ _ body, hsc, hnd, ha, hb => by
    simp only [pendingI] at ha hb
    simp only [scopedI, Bool.and_eq_true] at hsc
    have := pendL_inj F sa sb (d + 1) (d' + 1) hf body hsc.2 (by simpa [flagsI] using hnd) ha hb
    exact ⟨this.1, by omega⟩
  | .ite _ _ _ _ _ t e _, hsc, hnd, ha, hb => by
    simp only [pendingI, List.mem_append] at ha hb
    simp only [scopedI, Bool.and_eq_true] at hsc
    simp only [flagsI] at hnd
    have hndt : (flagsL t).Nodup := (List.nodup_append.mp hnd).1
    have hnde : (flagsL e).Nodup := (List.nodup_append.mp hnd).2.1
    rcases ha with ha | ha <;> rcases hb with hb | hb
    · have := pendL_inj F sa sb (d + 1) (d' + 1) hf t hsc.1 hndt ha hb; exact ⟨this.1, by omega⟩
    · exact (nodup_append_disjoint hnd (pendL_mem_flags _ _ t ha) (hf ▸ pendL_mem_flags _ _ e hb)).elim
    · exact (nodup_append_disjoint hnd (hf ▸ pendL_mem_flags _ _ t hb) (pendL_mem_flags _ _ e ha)).elim
    · have := pendL_inj F sa sb (d + 1) (d' + 1) hf e hsc.2 hnde ha hb; exact ⟨this.1, by omega⟩
theorem pendL_inj (F : List Nat) (sa sb : SA) (d d' : Nat) (hf : sa.flag = sb.flag) :
    ∀ p, scopedL F p = true → (flagsL p).Nodup → sa ∈ pendingL d p → sb ∈ pendingL d' p → sa = sb ∧ d = d'
  | [], _, _, h, _ => by simp [pendingL] at h
  | i :: is, hsc, hnd, ha, hb => by
    simp only [pendingL, List.mem_append] at ha hb
    simp only [scopedL, Bool.and_eq_true] at hsc
    simp only [flagsL] at hnd
    have hndi : (flagsI i).Nodup := (List.nodup_append.mp hnd).1
    have hnds : (flagsL is).Nodup := (List.nodup_append.mp hnd).2.1
    rcases ha with ha | ha <;> rcases hb with hb | hb
    · exact pendI_inj F sa sb d d' hf i hsc.1 hndi ha hb
    · exact (nodup_append_disjoint hnd (pendI_mem_flags _ _ i ha) (hf ▸ pendL_mem_flags _ _ is hb)).elim
    · exact (nodup_append_disjoint hnd (hf ▸ pendI_mem_flags _ _ i hb) (pendL_mem_flags _ _ is ha)).elim
    · exact pendL_inj F sa sb d d' hf is hsc.2 hnds ha hb
end

mutual
/-- where no construct is a target, every flag belongs to a branch that leaves the fragment -/
theorem escapeI (F : List Nat) (x : Nat) : ∀ i, scopedI F i = true → noTargetsI i = true → x ∈ flagsI i →
    ∃ d sa, sa ∈ pendingI d i ∧ sa.flag = x
  | .op .., _, _, h | .probe _, _, _, h | .ret .., _, _, h | .unreachable .., _, _, h => by simp [flagsI] at h
  | .br _ _ none _, _, _, h | .brIf _ _ none _, _, _, h | .brTable _ _ none _ _, _, _, h => by simp [flagsI] at h
  | .brTable _ _ (some s) _ _, hsc, _, _ => by simp [scopedI] at hsc
  | .br _ _ (some s) n, _, _, h | .brIf _ _ (some s) n, _, _, h => by
    simp only [flagsI, List.mem_singleton] at h
    exact ⟨n, s, by simp [pendingI], h.symm⟩
  | .block _ _ _ _ body, hsc, hnt, h => by
    simp only [noTargetsI, Bool.and_eq_true, List.isEmpty_iff] at hnt
    obtain ⟨d, sa, hm, hx⟩ := escapeL F x body (by simpa [scopedI] using hsc) hnt.2 (by simpa [flagsI] using h)
    cases d with
    | zero => rw [hnt.1] at hm; cases hm
    | succ d => exact ⟨d, sa, by simpa [pendingI] using hm, hx⟩
  | .loop _ _ _ body, hsc, hnt, h => by
    simp only [noTargetsI, Bool.and_eq_true, List.isEmpty_iff] at hnt
    simp only [scopedI, Bool.and_eq_true] at hsc
    obtain ⟨d, sa, hm, hx⟩ := escapeL F x body hsc.2 hnt.2 (by simpa [flagsI] using h)
    cases d with
    | zero => rw [hnt.1] at hm; cases hm
    | succ d => exact ⟨d, sa, by simpa [pendingI] using hm, hx⟩
  | .ite _ _ _ _ _ t e _, hsc, hnt, h => by
    simp only [noTargetsI, Bool.and_eq_true, List.isEmpty_iff] at hnt
    simp only [scopedI, Bool.and_eq_true] at hsc
    simp only [flagsI, List.mem_append] at h
    rcases h with h | h
    · obtain ⟨d, sa, hm, hx⟩ := escapeL F x t hsc.1 hnt.1.2 h
      cases d with
      | zero => rw [hnt.1.1.1] at hm; cases hm
      | succ d => exact ⟨d, sa, by simp [pendingI, hm], hx⟩
    · obtain ⟨d, sa, hm, hx⟩ := escapeL F x e hsc.2 hnt.2 h
      cases d with
      | zero => rw [hnt.1.1.2] at hm; cases hm
      | succ d => exact ⟨d, sa, by simp [pendingI, hm], hx⟩
theorem escapeL (F : List Nat) (x : Nat) : ∀ p, scopedL F p = true → noTargetsL p = true → x ∈ flagsL p →
    ∃ d sa, sa ∈ pendingL d p ∧ sa.flag = x
  | [], _, _, h => by simp [flagsL] at h
  | i :: is, hsc, hnt, h => by
    simp only [scopedL, Bool.and_eq_true] at hsc
    simp only [noTargetsL, Bool.and_eq_true] at hnt
    simp only [flagsL, List.mem_append] at h
    rcases h with h | h
    · obtain ⟨d, sa, hm, hx⟩ := escapeI F x i hsc.1 hnt.1 h
      exact ⟨d, sa, by simp [pendingL, hm], hx⟩
    · obtain ⟨d, sa, hm, hx⟩ := escapeL F x is hsc.2 hnt.2 h
      exact ⟨d, sa, by simp [pendingL, hm], hx⟩
end

/-! ### the simulation invariant -/

/-- flag locals that are not flags of the fragment keep their value; the number of locals stays -/
def Frame (F flags : List Nat) (s0 : St) (o' : Out) : Prop :=
  o'.All (fun r => r.locals.length = s0.locals.length ∧ ∀ x ∈ F, x ∉ flags → r.locals[x]? = s0.locals[x]?)

/-- what the flags of the fragment's leaving branches hold when the fragment is left -/
def PostOk (pend : Nat → List SA) : Out → Out → Prop
  | .normal _, .normal r => ∀ d sa, sa ∈ pend d → flagIs r sa.flag 0
  | .br n pd _, .br _ _ r =>
    (∀ sp, pd = some sp → sp ∈ pend n ∧ flagIs r sp.flag 1)
      ∧ (∀ d sa, sa ∈ pend d → (∀ sp, pd = some sp → sa.flag ≠ sp.flag) → flagIs r sa.flag 0)
  | _, _ => True

theorem OutRel.normal_inv {F s o'} (h : OutRel F (.normal s) o') : ∃ r, o' = .normal r ∧ FlagEq F s r := by
  cases o' <;> simp [OutRel] at h
  exact ⟨_, rfl, h⟩

theorem OutRel.br_inv {F n pd s o'} (h : OutRel F (.br n pd s) o') : ∃ r, o' = .br n none r ∧ FlagEq F s r := by
  cases o' <;> simp [OutRel] at h
  obtain ⟨rfl, rfl, h⟩ := h
  exact ⟨_, rfl, h⟩

theorem OutRel.ret_inv {F s o'} (h : OutRel F (.ret s) o') : ∃ r, o' = .ret r ∧ FlagEq F s r := by
  cases o' <;> simp [OutRel] at h
  exact ⟨_, rfl, h⟩

theorem OutRel.trap_inv {F s o'} (h : OutRel F (.trap s) o') : ∃ r, o' = .trap r ∧ FlagEq F s r := by
  cases o' <;> simp [OutRel] at h
  exact ⟨_, rfl, h⟩

theorem OutRel.ok {F o o'} (h : OutRel F o o') : o'.ok = true := by
  cases o <;> cases o' <;> simp_all [OutRel]

theorem OutRel.isNormal {F o o'} (h : OutRel F o o') : o'.isNormal = o.isNormal := by
  cases o <;> cases o' <;> simp_all [OutRel, Out.isNormal]

theorem Frame.mono {F flags flags' s0 o'} (h : Frame F flags s0 o') (hsub : ∀ x, x ∈ flags → x ∈ flags') :
    Frame F flags' s0 o' := by
  cases o' <;> simp only [Frame, Out.All] at h ⊢
  all_goals exact ⟨h.1, fun x hx hn => h.2 x hx (fun hm => hn (hsub x hm))⟩

theorem Frame.fire_start {F flags s0 o'} (ps : List Nat) (h : Frame F flags (s0.fire ps) o') : Frame F flags s0 o' := h

theorem Out.All_onNormal_fire {P : St → Prop} {o : Out} (ps : List Nat) (hP : ∀ s, P s → P (s.fire ps)) (h : o.All P) :
    (o.onNormal (·.fire ps)).All P := by
  cases o <;> simp_all [Out.All, Out.onNormal]

/-- sequencing of frames: from `s0` to an intermediate `r1` (flags `fa`), then from `r1` on (flags `fb`) -/
theorem Frame.seq {F fa fb s0 r1 o'} (h1 : r1.locals.length = s0.locals.length ∧ ∀ x ∈ F, x ∉ fa → r1.locals[x]? = s0.locals[x]?)
    (h2 : Frame F fb r1 o') : Frame F (fa ++ fb) s0 o' := by
  cases o' <;> simp only [Frame, Out.All] at h2 ⊢
  all_goals
    refine ⟨h2.1.trans h1.1, fun x hx hn => ?_⟩
    rw [h2.2 x hx (fun hm => hn (List.mem_append_right _ hm)), h1.2 x hx (fun hm => hn (List.mem_append_left _ hm))]

/-- the checks behind a target's `end`, then the construct's own semantic-after probes -/
theorem RunsL.chain_then (L : List SA) (ps : List Nat) (r : St) (h : ∀ sa ∈ L, ∃ v, r.locals[sa.flag]? = some v) :
    RunsL fns false [] (flagChain L ++ probes ps) r (.normal ((r.fire (chainPs r L)).fire ps)) :=
  RunsL.append (flagChain_runs L r h) (fun s' e => by cases e; exact RunsL.probes_only ps) (by simp [Out.isNormal])

/-- what the chain fires when the fragment was left by a branch carrying `pd` (or without one) -/
theorem chain_fires (F : List Nat) (body : List Instr) (hsc : scopedL F body = true) (hnd : (flagsL body).Nodup)
    (pd : Option SA) (r : St)
    (h1 : ∀ sp, pd = some sp → sp ∈ pendingL 0 body ∧ flagIs r sp.flag 1)
    (h2 : ∀ d sa, sa ∈ pendingL d body → (∀ sp, pd = some sp → sa.flag ≠ sp.flag) → flagIs r sa.flag 0) :
    chainPs r (pendingL 0 body) = saPs pd ∧ ∀ sa ∈ pendingL 0 body, ∃ v, r.locals[sa.flag]? = some v := by
  cases pd with
  | none =>
    have h0 : ∀ sa ∈ pendingL 0 body, flagIs r sa.flag 0 := fun sa hm => h2 0 sa hm (by intro sp hsp; cases hsp)
    exact ⟨by rw [chainPs_none r _ h0]; rfl, fun sa hm => ⟨0, h0 sa hm⟩⟩
  | some sp =>
    obtain ⟨hm, hone⟩ := h1 sp rfl
    have hall : ∀ sa ∈ pendingL 0 body, sa = sp ∨ flagIs r sa.flag 0 := by
      intro sa hsa
      by_cases hf : sa.flag = sp.flag
      · exact .inl (pendL_inj F sa sp 0 0 hf body hsc hnd hsa hm).1
      · exact .inr (h2 0 sa hsa (by intro sp' hsp'; cases hsp'; exact hf))
    refine ⟨by rw [chainPs_one r _ sp hm hone hall]; rfl, fun sa hsa => ?_⟩
    rcases hall sa hsa with rfl | h0
    · exact ⟨1, hone⟩
    · exact ⟨0, h0⟩

/-- the same for a chain that also checks the flags `Lo` of the other arm of an `if`, all 0 -/
theorem chain_fires2 (F : List Nat) (x : List Instr) (hsc : scopedL F x = true) (hnd : (flagsL x).Nodup) (Lo L : List SA)
    (hL : ∀ sa, sa ∈ L ↔ sa ∈ pendingL 0 x ∨ sa ∈ Lo) (pd : Option SA) (r : St)
    (h1 : ∀ sp, pd = some sp → sp ∈ pendingL 0 x ∧ flagIs r sp.flag 1)
    (h2 : ∀ d sa, sa ∈ pendingL d x → (∀ sp, pd = some sp → sa.flag ≠ sp.flag) → flagIs r sa.flag 0)
    (ho : ∀ sa ∈ Lo, flagIs r sa.flag 0) :
    chainPs r L = saPs pd ∧ ∀ sa ∈ L, ∃ v, r.locals[sa.flag]? = some v := by
  cases pd with
  | none =>
    have h0 : ∀ sa ∈ L, flagIs r sa.flag 0 := by
      intro sa hm
      rcases (hL sa).mp hm with hm | hm
      · exact h2 0 sa hm (by intro sp hsp; cases hsp)
      · exact ho sa hm
    exact ⟨by rw [chainPs_none r _ h0]; rfl, fun sa hm => ⟨0, h0 sa hm⟩⟩
  | some sp =>
    obtain ⟨hm, hone⟩ := h1 sp rfl
    have hall : ∀ sa ∈ L, sa = sp ∨ flagIs r sa.flag 0 := by
      intro sa hsa
      rcases (hL sa).mp hsa with hsa | hsa
      · by_cases hf : sa.flag = sp.flag
        · exact .inl (pendL_inj F sa sp 0 0 hf x hsc hnd hsa hm).1
        · exact .inr (h2 0 sa hsa (by intro sp' hsp'; cases hsp'; exact hf))
      · exact .inr (ho sa hsa)
    refine ⟨by rw [chainPs_one r _ sp ((hL sp).mpr (.inl hm)) hone hall]; rfl, fun sa hsa => ?_⟩
    rcases hall sa hsa with rfl | h0
    · exact ⟨1, hone⟩
    · exact ⟨0, h0⟩

/-- the conclusion of the simulation for one fragment: `prog` is its lowering, `flags` its flag locals, `pend d` its
    annotated branches that reach `d` levels out of it -/
def SimOk (fns : List Callee) (F flags : List Nat) (pend : Nat → List SA) (prog : List Instr) (s' : St) (o : Out) : Prop :=
  ∃ o', RunsL fns false [] prog s' o' ∧ OutRel F o o' ∧ Frame F flags s' o' ∧ PostOk pend o o'

theorem scoped_op_avoid {F : List Nat} {b a : List Nat} {t : OpK} (h : scopedI F (.op b a t) = true) :
    ∀ i, t.local? = some i → i ∉ F := by
  intro i hi
  simp only [scopedI, hi] at h
  simpa using h

theorem OutRel.onNormal_fire {F o o'} (h : OutRel F o o') (ps : List Nat) :
    OutRel F (o.onNormal (·.fire ps)) (o'.onNormal (·.fire ps)) := by
  cases o <;> cases o' <;> simp_all [OutRel, Out.onNormal]
  exact FlagEq.fire h ps

theorem branch_sim_aux (F : List Nat) (fx : List Nat) : ∀ f : Nat,
    (∀ p s s' o, scopedL F p = true → (flagsL p).Nodup → (∀ x ∈ flagsL p, x ∈ F) →
        run fns true fx f p s = o → o.ok = true → FlagEq F s s' → (∀ x ∈ flagsL p, flagIs s' x 0) →
        SimOk fns F (flagsL p) (fun d => pendingL d p) (lowerL fx p) s' o)
    ∧ (∀ i s s' o, scopedI F i = true → (flagsI i).Nodup → (∀ x ∈ flagsI i, x ∈ F) →
        runOne fns true fx f i s = o → o.ok = true → FlagEq F s s' → (∀ x ∈ flagsI i, flagIs s' x 0) →
        SimOk fns F (flagsI i) (fun d => pendingI d i) (lower fx i) s' o) := by
  intro f
  induction f with
  | zero =>
    constructor
    · intro p s s' o _ _ _ h ok; simp [run] at h; subst h; simp at ok
    · intro i s s' o _ _ _ h ok; simp [runOne] at h; subst h; simp at ok
  | succ f ih =>
    obtain ⟨ihL, ihO⟩ := ih
    constructor
    · -- lists
      intro p s s' o hsc hnd hF h ok hfe hz
      cases p with
      | nil =>
        simp [run] at h; subst h
        exact ⟨.normal s', by simpa [lowerL] using RunsL.nil, hfe, ⟨rfl, fun _ _ _ => rfl⟩, by intro d sa hm; simp [pendingL] at hm⟩
      | cons i is =>
        simp only [scopedL, Bool.and_eq_true] at hsc
        simp only [flagsL] at hnd hF hz
        have hndi : (flagsI i).Nodup := (List.nodup_append.mp hnd).1
        have hnds : (flagsL is).Nodup := (List.nodup_append.mp hnd).2.1
        have hFi : ∀ x ∈ flagsI i, x ∈ F := fun x hx => hF x (List.mem_append_left _ hx)
        have hFs : ∀ x ∈ flagsL is, x ∈ F := fun x hx => hF x (List.mem_append_right _ hx)
        have hzi : ∀ x ∈ flagsI i, flagIs s' x 0 := fun x hx => hz x (List.mem_append_left _ hx)
        rw [run] at h
        simp only [lowerL]
        cases hx : runOne fns true fx f i s with
        | stuck w => rw [hx] at h; subst h; simp at ok
        | normal s1 =>
          rw [hx] at h
          obtain ⟨o1', hr1, hrel1, hfr1, hpo1⟩ := ihO i s s' _ hsc.1 hndi hFi hx rfl hfe hzi
          obtain ⟨r1, rfl, hfe1⟩ := hrel1.normal_inv
          simp only [Frame, Out.All] at hfr1
          simp only [PostOk] at hpo1
          have hz1 : ∀ x ∈ flagsL is, flagIs r1 x 0 := by
            intro x hxs
            have hni : x ∉ flagsI i := fun hxi => nodup_append_disjoint hnd hxi hxs
            simp only [flagIs]
            rw [hfr1.2 x (hFs x hxs) hni]
            exact hz x (List.mem_append_right _ hxs)
          obtain ⟨o2', hr2, hrel2, hfr2, hpo2⟩ := ihL is s1 r1 o hsc.2 hnds hFs h ok hfe1 hz1
          refine ⟨o2', RunsL.append hr1 (fun s'' e => by cases e; exact hr2) (by simp [Out.isNormal]), hrel2,
            Frame.seq hfr1 hfr2, ?_⟩
          -- flags of `i`'s leaving branches: 0 after `i`, untouched by the rest
          have keep : ∀ d sa, sa ∈ pendingI d i → ∀ r, o2'.st? = some r → flagIs r sa.flag 0 := by
            intro d sa hm r hr
            have hfl := pendI_mem_flags d sa i hm
            have hns : sa.flag ∉ flagsL is := fun hxs => nodup_append_disjoint hnd hfl hxs
            have h0 := hpo1 d sa hm
            cases o2' <;> simp only [Out.st?, Option.some.injEq] at hr <;> simp only [Out.All, Frame] at hfr2
            all_goals first
              | (subst hr; simp only [flagIs] at h0 ⊢; rw [hfr2.2 _ (hFi _ hfl) hns]; exact h0)
              | cases hr
          cases o with
          | normal so =>
            obtain ⟨r2, rfl, _⟩ := hrel2.normal_inv
            simp only [PostOk] at hpo2 ⊢
            intro d sa hm
            simp only [pendingL, List.mem_append] at hm
            rcases hm with hm | hm
            · exact keep d sa hm r2 rfl
            · exact hpo2 d sa hm
          | br n pd so =>
            obtain ⟨r2, rfl, _⟩ := hrel2.br_inv
            simp only [PostOk] at hpo2 ⊢
            refine ⟨fun sp hsp => ⟨by simp [pendingL, (hpo2.1 sp hsp).1], (hpo2.1 sp hsp).2⟩, ?_⟩
            intro d sa hm hne
            simp only [pendingL, List.mem_append] at hm
            rcases hm with hm | hm
            · exact keep d sa hm r2 rfl
            · exact hpo2.2 d sa hm hne
          | ret so => obtain ⟨r2, rfl, _⟩ := hrel2.ret_inv; trivial
          | trap so => obtain ⟨r2, rfl, _⟩ := hrel2.trap_inv; trivial
          | stuck w => simp at ok
        | br n pd s1 =>
          rw [hx] at h; subst h
          obtain ⟨o1', hr1, hrel1, hfr1, hpo1⟩ := ihO i s s' _ hsc.1 hndi hFi hx rfl hfe hzi
          obtain ⟨r1, rfl, hfe1⟩ := hrel1.br_inv
          refine ⟨_, RunsL.append hr1 (fun s'' e => by cases e) (fun _ => rfl), hrel1,
            hfr1.mono (fun x hx => List.mem_append_left _ hx), ?_⟩
          simp only [PostOk] at hpo1 ⊢
          refine ⟨fun sp hsp => ⟨by simp [pendingL, (hpo1.1 sp hsp).1], (hpo1.1 sp hsp).2⟩, ?_⟩
          intro d sa hm hne
          simp only [pendingL, List.mem_append] at hm
          rcases hm with hm | hm
          · exact hpo1.2 d sa hm hne
          · have hfl := pendL_mem_flags d sa is hm
            have hni : sa.flag ∉ flagsI i := fun hxi => nodup_append_disjoint hnd hxi hfl
            simp only [Frame, Out.All] at hfr1
            simp only [flagIs]
            rw [hfr1.2 _ (hFs _ hfl) hni]
            exact hz _ (List.mem_append_right _ hfl)
        | ret s1 =>
          rw [hx] at h; subst h
          obtain ⟨o1', hr1, hrel1, hfr1, hpo1⟩ := ihO i s s' _ hsc.1 hndi hFi hx rfl hfe hzi
          obtain ⟨r1, rfl, hfe1⟩ := hrel1.ret_inv
          exact ⟨_, RunsL.append hr1 (fun s'' e => by cases e) (fun _ => rfl), hrel1,
            hfr1.mono (fun x hx => List.mem_append_left _ hx), trivial⟩
        | trap s1 =>
          rw [hx] at h; subst h
          obtain ⟨o1', hr1, hrel1, hfr1, hpo1⟩ := ihO i s s' _ hsc.1 hndi hFi hx rfl hfe hzi
          obtain ⟨r1, rfl, hfe1⟩ := hrel1.trap_inv
          exact ⟨_, RunsL.append hr1 (fun s'' e => by cases e) (fun _ => rfl), hrel1,
            hfr1.mono (fun x hx => List.mem_append_left _ hx), trivial⟩
    · -- instructions
      intro i s s' o hsc hnd hF h ok hfe hz
      cases i with
      | op b a t =>
        rw [runOne_op_monitor fx [] f b a t s] at h
        have okx : (runOne fns false [] (f + 1) (.op [] [] t) (s.fire b)).ok = true := by
          rw [← h] at ok; simpa using ok
        obtain ⟨o1', ho1', hrel, hall, hnobr⟩ := runOne_op_frame (fns := fns) F f t (s.fire b) (s'.fire b) (hfe.fire b)
          (scoped_op_avoid hsc) _ rfl okx
        have hr : Runs1 fns false [] (.op [] [] t) (s'.fire b) o1' := Runs1.of_eq ho1' hrel.ok
        subst h
        refine ⟨o1'.onNormal (·.fire a), ?_, hrel.onNormal_fire a, ?_, ?_⟩
        · simp only [lower]
          rw [List.append_assoc]
          exact RunsL.probes_pre b (RunsL.blocklike hr)
        · apply Out.All_onNormal_fire a (fun r hr => hr)
          cases o1' <;> simp only [Out.All] at hall ⊢
          all_goals exact ⟨hall.1, fun x hx _ => hall.2 x hx⟩
        · cases hq : runOne fns false [] (f + 1) (.op [] [] t) (s.fire b) with
          | br n pd r => exact (hnobr n pd r hq).elim
          | normal r =>
            rw [hq] at hrel
            obtain ⟨r', rfl, _⟩ := hrel.normal_inv
            simp only [Out.onNormal, PostOk]
            intro d sa hm; simp [pendingI] at hm
          | ret r => rw [hq] at hrel; obtain ⟨r', rfl, _⟩ := hrel.ret_inv; trivial
          | trap r => rw [hq] at hrel; obtain ⟨r', rfl, _⟩ := hrel.trap_inv; trivial
          | stuck w => rw [hq] at okx; simp at okx
      | probe id =>
        simp [runOne] at h; subst h
        refine ⟨.normal (s'.fire [id]), by simpa [lower] using RunsL.cons_normal Runs1.probe RunsL.nil, hfe.fire _,
          ⟨rfl, fun _ _ _ => rfl⟩, ?_⟩
        intro d sa hm; simp [pendingI] at hm
      | block b ann a tk body =>
        simp only [scopedI] at hsc
        simp only [flagsI] at hnd hF hz
        simp only [runOne, if_true] at h
        subst h
        have okb := leaveBlock_ok ok
        obtain ⟨ob', hrb, hrelb, hfrb, hpob⟩ := ihL body ((s.fire b).fire ann.entry) ((s'.fire b).fire ann.entry) _ hsc hnd hF rfl okb
          ((hfe.fire b).fire _) (fun x hx => hz x hx)
        have hw := RunsL.wrapped (fns := fns) ann.entry ann.exit (s := s'.fire b) hrb
        have hblk := Runs1.block (fns := fns) (a := a) (tk := tk) hw
        have hbase : (s'.fire b).stack = (s.fire b).stack := (hfe.fire b).stack
        simp only [lower, flagsI]
        generalize run fns true fx f body ((s.fire b).fire ann.entry) = ob at *
        cases ob with
        | stuck w => simp at okb
        | normal sb =>
          obtain ⟨rb, rfl, hfeb⟩ := hrelb.normal_inv
          simp only [PostOk] at hpob
          simp only [Frame, Out.All] at hfrb
          have h0 : ∀ sa ∈ pendingL 0 body, flagIs (rb.fire ann.exit) sa.flag 0 := fun sa hm => hpob 0 sa hm
          have hch := RunsL.chain_then (fns := fns) (pendingL 0 body) ann.after (rb.fire ann.exit) (fun sa hm => ⟨0, h0 sa hm⟩)
          rw [chainPs_none _ _ h0] at hch
          refine ⟨_, RunsL.probes_pre b (RunsL.cons_normal (by simpa [Out.onNormal, leaveBlock] using hblk) hch), ?_, ?_, ?_⟩
          · simpa [leaveBlock, OutRel] using (hfeb.fire ann.exit).fire ann.after
          · exact ⟨hfrb.1, hfrb.2⟩
          · simp only [leaveBlock, if_true, PostOk]
            intro d sa hm
            exact hpob (d + 1) sa (by simpa [pendingI] using hm)
        | br n pd sb =>
          obtain ⟨rb, rfl, hfeb⟩ := hrelb.br_inv
          simp only [PostOk] at hpob
          simp only [Frame, Out.All] at hfrb
          cases n with
          | zero =>
            obtain ⟨hcp, hdef⟩ := chain_fires F body hsc hnd pd (rb.exitTo (s'.fire b).stack a) hpob.1 hpob.2
            have hch := RunsL.chain_then (fns := fns) (pendingL 0 body) ann.after (rb.exitTo (s'.fire b).stack a) hdef
            rw [hcp] at hch
            refine ⟨_, RunsL.probes_pre b (RunsL.cons_normal (by simpa [Out.onNormal, leaveBlock] using hblk) hch), ?_, ?_, ?_⟩
            · rw [hbase]
              simpa [leaveBlock, OutRel] using ((hfeb.exitTo (s.fire b).stack a).fire (saPs pd)).fire ann.after
            · exact ⟨hfrb.1, hfrb.2⟩
            · simp only [leaveBlock, if_true, PostOk]
              intro d sa hm
              have hm' : sa ∈ pendingL (d + 1) body := by simpa [pendingI] using hm
              refine hpob.2 (d + 1) sa hm' ?_
              intro sp hsp hf
              have := (pendL_inj F sa sp (d + 1) 0 hf body hsc hnd hm' (hpob.1 sp hsp).1).2
              omega
          | succ n =>
            refine ⟨.br n none rb, RunsL.probes_pre b (RunsL.cons_abrupt (by simpa [Out.onNormal, leaveBlock] using hblk) rfl), ?_, ?_, ?_⟩
            · simpa [leaveBlock, OutRel] using hfeb
            · exact ⟨hfrb.1, hfrb.2⟩
            · simp only [leaveBlock, PostOk]
              refine ⟨fun sp hsp => ⟨by simpa [pendingI] using (hpob.1 sp hsp).1, (hpob.1 sp hsp).2⟩, ?_⟩
              intro d sa hm hne
              exact hpob.2 (d + 1) sa (by simpa [pendingI] using hm) hne
        | ret sb =>
          obtain ⟨rb, rfl, hfeb⟩ := hrelb.ret_inv
          simp only [Frame, Out.All] at hfrb
          exact ⟨.ret rb, RunsL.probes_pre b (RunsL.cons_abrupt (by simpa [Out.onNormal, leaveBlock] using hblk) rfl),
            by simpa [leaveBlock, OutRel] using hfeb, ⟨hfrb.1, hfrb.2⟩, by simp [leaveBlock, PostOk]⟩
        | trap sb =>
          obtain ⟨rb, rfl, hfeb⟩ := hrelb.trap_inv
          simp only [Frame, Out.All] at hfrb
          exact ⟨.trap rb, RunsL.probes_pre b (RunsL.cons_abrupt (by simpa [Out.onNormal, leaveBlock] using hblk) rfl),
            by simpa [leaveBlock, OutRel] using hfeb, ⟨hfrb.1, hfrb.2⟩, by simp [leaveBlock, PostOk]⟩
      | loop b ann tk body =>
        simp only [scopedI, Bool.and_eq_true, List.isEmpty_iff] at hsc
        obtain ⟨⟨hp0, hnt⟩, hscb⟩ := hsc
        simp only [flagsI] at hnd hF hz
        simp only [runOne, if_true] at h
        simp only [lower, flagsI]
        have hbase : (s'.fire b).stack = (s.fire b).stack := (hfe.fire b).stack
        cases hrb : run fns true fx f body ((s.fire b).fire ann.entry) with
        | stuck w => rw [hrb] at h; subst h; simp at ok
        | normal sb =>
          rw [hrb] at h; simp only at h; subst h
          obtain ⟨ob', hr, hrelb, hfrb, hpob⟩ := ihL body _ ((s'.fire b).fire ann.entry) _ hscb hnd hF hrb rfl
            ((hfe.fire b).fire _) (fun x hx => hz x hx)
          obtain ⟨rb, rfl, hfeb⟩ := hrelb.normal_inv
          simp only [PostOk] at hpob
          simp only [Frame, Out.All] at hfrb
          have hw := RunsL.wrapped (fns := fns) ann.entry ann.exit (s := s'.fire b) hr
          have hl := Runs1.loop_normal (fns := fns) (tk := tk) hw
          have := RunsL.blocklike (ps := ann.after) hl
          refine ⟨.normal ((rb.fire ann.exit).fire ann.after), RunsL.probes_pre b (by simpa [Out.onNormal] using this), ?_,
            ⟨hfrb.1, hfrb.2⟩, ?_⟩
          · simpa [OutRel] using (hfeb.fire ann.exit).fire ann.after
          · simp only [PostOk]
            intro d sa hm
            exact hpob (d + 1) sa (by simpa [pendingI] using hm)
        | ret sb =>
          rw [hrb] at h; simp only at h; subst h
          obtain ⟨ob', hr, hrelb, hfrb, hpob⟩ := ihL body _ ((s'.fire b).fire ann.entry) _ hscb hnd hF hrb rfl
            ((hfe.fire b).fire _) (fun x hx => hz x hx)
          obtain ⟨rb, rfl, hfeb⟩ := hrelb.ret_inv
          simp only [Frame, Out.All] at hfrb
          have hw := RunsL.wrapped (fns := fns) ann.entry ann.exit (s := s'.fire b) hr
          have hl := Runs1.loop_abrupt (fns := fns) (tk := tk) (o := .ret rb) hw (by simp [Out.onNormal])
          exact ⟨.ret rb, RunsL.probes_pre b (RunsL.cons_abrupt hl rfl), hfeb, ⟨hfrb.1, hfrb.2⟩, trivial⟩
        | trap sb =>
          rw [hrb] at h; simp only at h; subst h
          obtain ⟨ob', hr, hrelb, hfrb, hpob⟩ := ihL body _ ((s'.fire b).fire ann.entry) _ hscb hnd hF hrb rfl
            ((hfe.fire b).fire _) (fun x hx => hz x hx)
          obtain ⟨rb, rfl, hfeb⟩ := hrelb.trap_inv
          simp only [Frame, Out.All] at hfrb
          have hw := RunsL.wrapped (fns := fns) ann.entry ann.exit (s := s'.fire b) hr
          have hl := Runs1.loop_abrupt (fns := fns) (tk := tk) (o := .trap rb) hw (by simp [Out.onNormal])
          exact ⟨.trap rb, RunsL.probes_pre b (RunsL.cons_abrupt hl rfl), hfeb, ⟨hfrb.1, hfrb.2⟩, trivial⟩
        | br n pd sb =>
          rw [hrb] at h
          obtain ⟨ob', hr, hrelb, hfrb, hpob⟩ := ihL body _ ((s'.fire b).fire ann.entry) _ hscb hnd hF hrb rfl
            ((hfe.fire b).fire _) (fun x hx => hz x hx)
          obtain ⟨rb, rfl, hfeb⟩ := hrelb.br_inv
          simp only [PostOk] at hpob
          simp only [Frame, Out.All] at hfrb
          have hw := RunsL.wrapped (fns := fns) ann.entry ann.exit (s := s'.fire b) hr
          cases n with
          | succ n =>
            simp only at h; subst h
            have hl := Runs1.loop_abrupt (fns := fns) (tk := tk) (o := .br n none rb) hw (by simp [Out.onNormal])
            refine ⟨.br n none rb, RunsL.probes_pre b (RunsL.cons_abrupt hl rfl), ⟨rfl, rfl, hfeb⟩, ⟨hfrb.1, hfrb.2⟩, ?_⟩
            simp only [PostOk]
            refine ⟨fun sp hsp => ⟨by simpa [pendingI] using (hpob.1 sp hsp).1, (hpob.1 sp hsp).2⟩, ?_⟩
            intro d sa hm hne
            exact hpob.2 (d + 1) sa (by simpa [pendingI] using hm) hne
          | zero =>
            simp only at h
            -- no annotated branch targets the loop: nothing is pending
            have hpd : pd = none := by
              cases pd with
              | none => rfl
              | some sp => have := (hpob.1 sp rfl).1; rw [hp0] at this; cases this
            subst hpd
            -- every flag of the body belongs to a branch that leaves the loop, so all are 0 again
            have hz2 : ∀ x ∈ flagsL body, flagIs ({ rb with stack := (s'.fire b).stack } : St) x 0 := by
              intro x hx
              obtain ⟨d, sa, hm, hxe⟩ := escapeL F x body hscb hnt hx
              have := hpob.2 d sa hm (by intro sp hsp; cases hsp)
              rw [hxe] at this; exact this
            have hfe2 : FlagEq F ({ sb with stack := (s.fire b).stack } : St) ({ rb with stack := (s'.fire b).stack } : St) := by
              rw [hbase]; exact hfeb.withStack _
            obtain ⟨o2', hr2, hrel2, hfr2, hpo2⟩ := ihO (.loop [] ann tk body) _ _ o
              (by simp [scopedI, hp0, hnt, hscb]) (by simpa [flagsI] using hnd) (by simpa [flagsI] using hF) h ok hfe2
              (by simpa [flagsI] using hz2)
            simp only [lower] at hr2
            rw [show probes [] = [] from rfl, List.nil_append] at hr2
            refine ⟨o2', RunsL.probes_pre b ?_, hrel2, ?_, ?_⟩
            · rcases RunsL.cons_inv hr2 with ⟨s2, h1, h2⟩ | ⟨h1, hx⟩
              · exact RunsL.cons_normal (Runs1.loop_again (fns := fns) hw h1) h2
              · exact RunsL.cons_abrupt (Runs1.loop_again (fns := fns) hw h1) hx
            · simp only [flagsI] at hfr2
              have := Frame.seq (F := F) (fa := flagsL body) (fb := flagsL body) (s0 := s') (r1 := { rb with stack := (s'.fire b).stack })
                ⟨hfrb.1, hfrb.2⟩ hfr2
              exact this.mono (fun x hx => by simpa using hx)
            · exact hpo2
      | ite b annT annE a tk t e he =>
        simp only [scopedI, Bool.and_eq_true] at hsc
        simp only [flagsI] at hnd hF hz
        simp only [runOne, if_true] at h
        simp only [lower, flagsI]
        cases hst : (s.fire b).stack with
        | nil => rw [hst] at h; subst h; simp at ok
        | cons v st =>
          rw [hst] at h
          simp only at h
          have hst' : (s'.fire b).stack = v :: st := by rw [(hfe.fire b).stack]; exact hst
          by_cases hv : v ≠ 0
          · -- the then-arm
            rw [if_pos hv] at h
            subst h
            have okb := leaveBlock_ok ok
            have hndt : (flagsL t).Nodup := (List.nodup_append.mp hnd).1
            have hFt : ∀ x ∈ flagsL t, x ∈ F := fun x hx => hF x (List.mem_append_left _ hx)
            have hFo : ∀ x ∈ flagsL e, x ∈ F := fun x hx => hF x (List.mem_append_right _ hx)
            have hdis : ∀ x, x ∈ flagsL t → x ∈ flagsL e → False := fun x h1 h2 => nodup_append_disjoint hnd h1 h2
            obtain ⟨ob', hrb, hrelb, hfrb, hpob⟩ := ihL t (({ (s.fire b) with stack := st } : St).fire annT.entry)
              (({ (s'.fire b) with stack := st } : St).fire annT.entry) _ hsc.1 hndt hFt rfl okb
              (((hfe.fire b).withStack st).fire _) (fun x hx => hz x (List.mem_append_left _ hx))
            have hw := RunsL.wrapped (fns := fns) annT.entry annT.exit (s := { (s'.fire b) with stack := st }) hrb
            have hi := Runs1.ite (fns := fns) (a := a) (tk := tk) (he := he)
              (e := probes annE.entry ++ lowerL fx e ++ probes annE.exit) (s := s'.fire b) hst' (by rw [if_pos hv]; exact hw)
            -- the flags of the other arm are untouched
            have hother : ∀ r, ob'.st? = some r → ∀ sa ∈ pendingL 0 e, flagIs r sa.flag 0 := by
              intro r hr sa hm
              have hfl := pendL_mem_flags 0 sa e hm
              cases ob' <;> simp only [Out.st?, Option.some.injEq] at hr <;> simp only [Frame, Out.All] at hfrb
              all_goals first
                | (subst hr; simp only [flagIs]; rw [hfrb.2 _ (hFo _ hfl) (fun hx => hdis _ hx hfl)]
                   exact hz _ (List.mem_append_right _ hfl))
                | cases hr
            have hotherd : ∀ r, ob'.st? = some r → ∀ d sa, sa ∈ pendingL d e → flagIs r sa.flag 0 := by
              intro r hr d sa hm
              have hfl := pendL_mem_flags d sa e hm
              cases ob' <;> simp only [Out.st?, Option.some.injEq] at hr <;> simp only [Frame, Out.All] at hfrb
              all_goals first
                | (subst hr; simp only [flagIs]; rw [hfrb.2 _ (hFo _ hfl) (fun hx => hdis _ hx hfl)]
                   exact hz _ (List.mem_append_right _ hfl))
                | cases hr
            have hLmem : ∀ sa, sa ∈ pendingL 0 t ++ pendingL 0 e ↔ sa ∈ pendingL 0 t ∨ sa ∈ pendingL 0 e := fun sa => List.mem_append
            generalize run fns true fx f t (({ (s.fire b) with stack := st } : St).fire annT.entry) = ob at *
            cases ob with
            | stuck w => simp at okb
            | normal sb =>
              obtain ⟨rb, rfl, hfeb⟩ := hrelb.normal_inv
              simp only [PostOk] at hpob
              simp only [Frame, Out.All] at hfrb
              obtain ⟨hcp, hdef⟩ := chain_fires2 F t hsc.1 hndt (pendingL 0 e) _ hLmem none (rb.fire annT.exit)
                (by intro sp hsp; cases hsp) (fun d sa hm _ => hpob d sa hm) (hother rb rfl)
              have hch := RunsL.chain_then (fns := fns) (pendingL 0 t ++ pendingL 0 e) (annT.after ++ annE.after) (rb.fire annT.exit) hdef
              rw [hcp] at hch
              refine ⟨_, RunsL.probes_pre b (RunsL.cons_normal (by simpa [Out.onNormal, leaveBlock] using hi) hch), ?_, ?_, ?_⟩
              · simpa [leaveBlock, OutRel, saPs] using (hfeb.fire annT.exit).fire (annT.after ++ annE.after)
              · exact ⟨hfrb.1, fun x hx hn => hfrb.2 x hx (fun hm => hn (List.mem_append_left _ hm))⟩
              · simp only [leaveBlock, if_true, PostOk]
                intro d sa hm
                simp only [pendingI, List.mem_append] at hm
                rcases hm with hm | hm
                · exact hpob (d + 1) sa hm
                · exact hotherd rb rfl (d + 1) sa hm
            | br n pd sb =>
              obtain ⟨rb, rfl, hfeb⟩ := hrelb.br_inv
              simp only [PostOk] at hpob
              simp only [Frame, Out.All] at hfrb
              cases n with
              | zero =>
                obtain ⟨hcp, hdef⟩ := chain_fires2 F t hsc.1 hndt (pendingL 0 e) _ hLmem pd (rb.exitTo st a)
                  hpob.1 hpob.2 (hother rb rfl)
                have hch := RunsL.chain_then (fns := fns) (pendingL 0 t ++ pendingL 0 e) (annT.after ++ annE.after) (rb.exitTo st a) hdef
                rw [hcp] at hch
                refine ⟨_, RunsL.probes_pre b (RunsL.cons_normal (by simpa [Out.onNormal, leaveBlock] using hi) hch), ?_, ?_, ?_⟩
                · simpa [leaveBlock, OutRel] using ((hfeb.exitTo st a).fire (saPs pd)).fire (annT.after ++ annE.after)
                · exact ⟨hfrb.1, fun x hx hn => hfrb.2 x hx (fun hm => hn (List.mem_append_left _ hm))⟩
                · simp only [leaveBlock, if_true, PostOk]
                  intro d sa hm
                  simp only [pendingI, List.mem_append] at hm
                  rcases hm with hm | hm
                  · refine hpob.2 (d + 1) sa hm ?_
                    intro sp hsp hf
                    have := (pendL_inj F sa sp (d + 1) 0 hf t hsc.1 hndt hm (hpob.1 sp hsp).1).2
                    omega
                  · exact hotherd rb rfl (d + 1) sa hm
              | succ n =>
                refine ⟨.br n none rb, RunsL.probes_pre b (RunsL.cons_abrupt (by simpa [Out.onNormal, leaveBlock] using hi) rfl), ?_, ?_, ?_⟩
                · simpa [leaveBlock, OutRel] using hfeb
                · exact ⟨hfrb.1, fun x hx hn => hfrb.2 x hx (fun hm => hn (List.mem_append_left _ hm))⟩
                · simp only [leaveBlock, PostOk]
                  refine ⟨fun sp hsp => ⟨by simp [pendingI, (hpob.1 sp hsp).1], (hpob.1 sp hsp).2⟩, ?_⟩
                  intro d sa hm hne
                  simp only [pendingI, List.mem_append] at hm
                  rcases hm with hm | hm
                  · exact hpob.2 (d + 1) sa hm hne
                  · exact hotherd rb rfl (d + 1) sa hm
            | ret sb =>
              obtain ⟨rb, rfl, hfeb⟩ := hrelb.ret_inv
              simp only [Frame, Out.All] at hfrb
              exact ⟨.ret rb, RunsL.probes_pre b (RunsL.cons_abrupt (by simpa [Out.onNormal, leaveBlock] using hi) rfl),
                by simpa [leaveBlock, OutRel] using hfeb,
                ⟨hfrb.1, fun x hx hn => hfrb.2 x hx (fun hm => hn (List.mem_append_left _ hm))⟩, by simp [leaveBlock, PostOk]⟩
            | trap sb =>
              obtain ⟨rb, rfl, hfeb⟩ := hrelb.trap_inv
              simp only [Frame, Out.All] at hfrb
              exact ⟨.trap rb, RunsL.probes_pre b (RunsL.cons_abrupt (by simpa [Out.onNormal, leaveBlock] using hi) rfl),
                by simpa [leaveBlock, OutRel] using hfeb,
                ⟨hfrb.1, fun x hx hn => hfrb.2 x hx (fun hm => hn (List.mem_append_left _ hm))⟩, by simp [leaveBlock, PostOk]⟩
          · -- the else-arm
            rw [if_neg hv] at h
            subst h
            have okb := leaveBlock_ok ok
            have hndt : (flagsL e).Nodup := (List.nodup_append.mp hnd).2.1
            have hFt : ∀ x ∈ flagsL e, x ∈ F := fun x hx => hF x (List.mem_append_right _ hx)
            have hFo : ∀ x ∈ flagsL t, x ∈ F := fun x hx => hF x (List.mem_append_left _ hx)
            have hdis : ∀ x, x ∈ flagsL e → x ∈ flagsL t → False := fun x h1 h2 => nodup_append_disjoint hnd h2 h1
            obtain ⟨ob', hrb, hrelb, hfrb, hpob⟩ := ihL e (({ (s.fire b) with stack := st } : St).fire annE.entry)
              (({ (s'.fire b) with stack := st } : St).fire annE.entry) _ hsc.2 hndt hFt rfl okb
              (((hfe.fire b).withStack st).fire _) (fun x hx => hz x (List.mem_append_right _ hx))
            have hw := RunsL.wrapped (fns := fns) annE.entry annE.exit (s := { (s'.fire b) with stack := st }) hrb
            have hi := Runs1.ite (fns := fns) (a := a) (tk := tk) (he := he)
              (t := probes annT.entry ++ lowerL fx t ++ probes annT.exit) (s := s'.fire b) hst' (by rw [if_neg hv]; exact hw)
            -- the flags of the other arm are untouched
            have hother : ∀ r, ob'.st? = some r → ∀ sa ∈ pendingL 0 t, flagIs r sa.flag 0 := by
              intro r hr sa hm
              have hfl := pendL_mem_flags 0 sa t hm
              cases ob' <;> simp only [Out.st?, Option.some.injEq] at hr <;> simp only [Frame, Out.All] at hfrb
              all_goals first
                | (subst hr; simp only [flagIs]; rw [hfrb.2 _ (hFo _ hfl) (fun hx => hdis _ hx hfl)]
                   exact hz _ (List.mem_append_left _ hfl))
                | cases hr
            have hotherd : ∀ r, ob'.st? = some r → ∀ d sa, sa ∈ pendingL d t → flagIs r sa.flag 0 := by
              intro r hr d sa hm
              have hfl := pendL_mem_flags d sa t hm
              cases ob' <;> simp only [Out.st?, Option.some.injEq] at hr <;> simp only [Frame, Out.All] at hfrb
              all_goals first
                | (subst hr; simp only [flagIs]; rw [hfrb.2 _ (hFo _ hfl) (fun hx => hdis _ hx hfl)]
                   exact hz _ (List.mem_append_left _ hfl))
                | cases hr
            have hLmem : ∀ sa, sa ∈ pendingL 0 t ++ pendingL 0 e ↔ sa ∈ pendingL 0 e ∨ sa ∈ pendingL 0 t := fun sa => by rw [List.mem_append]; exact Or.comm
            generalize run fns true fx f e (({ (s.fire b) with stack := st } : St).fire annE.entry) = ob at *
            cases ob with
            | stuck w => simp at okb
            | normal sb =>
              obtain ⟨rb, rfl, hfeb⟩ := hrelb.normal_inv
              simp only [PostOk] at hpob
              simp only [Frame, Out.All] at hfrb
              obtain ⟨hcp, hdef⟩ := chain_fires2 F e hsc.2 hndt (pendingL 0 t) _ hLmem none (rb.fire annE.exit)
                (by intro sp hsp; cases hsp) (fun d sa hm _ => hpob d sa hm) (hother rb rfl)
              have hch := RunsL.chain_then (fns := fns) (pendingL 0 t ++ pendingL 0 e) (annT.after ++ annE.after) (rb.fire annE.exit) hdef
              rw [hcp] at hch
              refine ⟨_, RunsL.probes_pre b (RunsL.cons_normal (by simpa [Out.onNormal, leaveBlock] using hi) hch), ?_, ?_, ?_⟩
              · simpa [leaveBlock, OutRel, saPs] using (hfeb.fire annE.exit).fire (annT.after ++ annE.after)
              · exact ⟨hfrb.1, fun x hx hn => hfrb.2 x hx (fun hm => hn (List.mem_append_right _ hm))⟩
              · simp only [leaveBlock, if_true, PostOk]
                intro d sa hm
                simp only [pendingI, List.mem_append] at hm
                rcases hm with hm | hm
                · exact hotherd rb rfl (d + 1) sa hm
                · exact hpob (d + 1) sa hm
            | br n pd sb =>
              obtain ⟨rb, rfl, hfeb⟩ := hrelb.br_inv
              simp only [PostOk] at hpob
              simp only [Frame, Out.All] at hfrb
              cases n with
              | zero =>
                obtain ⟨hcp, hdef⟩ := chain_fires2 F e hsc.2 hndt (pendingL 0 t) _ hLmem pd (rb.exitTo st a)
                  hpob.1 hpob.2 (hother rb rfl)
                have hch := RunsL.chain_then (fns := fns) (pendingL 0 t ++ pendingL 0 e) (annT.after ++ annE.after) (rb.exitTo st a) hdef
                rw [hcp] at hch
                refine ⟨_, RunsL.probes_pre b (RunsL.cons_normal (by simpa [Out.onNormal, leaveBlock] using hi) hch), ?_, ?_, ?_⟩
                · simpa [leaveBlock, OutRel] using ((hfeb.exitTo st a).fire (saPs pd)).fire (annT.after ++ annE.after)
                · exact ⟨hfrb.1, fun x hx hn => hfrb.2 x hx (fun hm => hn (List.mem_append_right _ hm))⟩
                · simp only [leaveBlock, if_true, PostOk]
                  intro d sa hm
                  simp only [pendingI, List.mem_append] at hm
                  rcases hm with hm | hm
                  · exact hotherd rb rfl (d + 1) sa hm
                  · refine hpob.2 (d + 1) sa hm ?_
                    intro sp hsp hf
                    have := (pendL_inj F sa sp (d + 1) 0 hf e hsc.2 hndt hm (hpob.1 sp hsp).1).2
                    omega
              | succ n =>
                refine ⟨.br n none rb, RunsL.probes_pre b (RunsL.cons_abrupt (by simpa [Out.onNormal, leaveBlock] using hi) rfl), ?_, ?_, ?_⟩
                · simpa [leaveBlock, OutRel] using hfeb
                · exact ⟨hfrb.1, fun x hx hn => hfrb.2 x hx (fun hm => hn (List.mem_append_right _ hm))⟩
                · simp only [leaveBlock, PostOk]
                  refine ⟨fun sp hsp => ⟨by simp [pendingI, (hpob.1 sp hsp).1], (hpob.1 sp hsp).2⟩, ?_⟩
                  intro d sa hm hne
                  simp only [pendingI, List.mem_append] at hm
                  rcases hm with hm | hm
                  · exact hotherd rb rfl (d + 1) sa hm
                  · exact hpob.2 (d + 1) sa hm hne
            | ret sb =>
              obtain ⟨rb, rfl, hfeb⟩ := hrelb.ret_inv
              simp only [Frame, Out.All] at hfrb
              exact ⟨.ret rb, RunsL.probes_pre b (RunsL.cons_abrupt (by simpa [Out.onNormal, leaveBlock] using hi) rfl),
                by simpa [leaveBlock, OutRel] using hfeb,
                ⟨hfrb.1, fun x hx hn => hfrb.2 x hx (fun hm => hn (List.mem_append_right _ hm))⟩, by simp [leaveBlock, PostOk]⟩
            | trap sb =>
              obtain ⟨rb, rfl, hfeb⟩ := hrelb.trap_inv
              simp only [Frame, Out.All] at hfrb
              exact ⟨.trap rb, RunsL.probes_pre b (RunsL.cons_abrupt (by simpa [Out.onNormal, leaveBlock] using hi) rfl),
                by simpa [leaveBlock, OutRel] using hfeb,
                ⟨hfrb.1, fun x hx hn => hfrb.2 x hx (fun hm => hn (List.mem_append_right _ hm))⟩, by simp [leaveBlock, PostOk]⟩
      | br b a sa n =>
        simp [runOne] at h; subst h
        cases sa with
        | none =>
          simp only [lower]
          refine ⟨.br n none (s'.fire b), ?_, ⟨rfl, rfl, hfe.fire b⟩, ⟨rfl, fun _ _ _ => rfl⟩, ?_⟩
          · rw [List.append_assoc]
            exact RunsL.probes_pre b (RunsL.cons_abrupt ⟨1, by simp [runOne], rfl⟩ rfl)
          · simp only [PostOk]
            exact ⟨fun sp hsp => (by cases hsp), fun d sa hm _ => (by simp [pendingI] at hm)⟩
        | some sa =>
          have hflag : sa.flag ∈ F := hF sa.flag (by simp [flagsI])
          have hin : flagIs s' sa.flag 0 := hz sa.flag (by simp [flagsI])
          have hlt : sa.flag < (s'.fire b).locals.length := by
            have : (s'.locals[sa.flag]?).isSome := by rw [hin]; rfl
            rcases Nat.lt_or_ge sa.flag s'.locals.length with h' | h'
            · exact h'
            · rw [List.getElem?_eq_none h'] at this; cases this
          simp only [lower]
          refine ⟨.br n none ((s'.fire b).setLocal sa.flag 1), ?_, ⟨rfl, rfl, (hfe.fire b).setLocal _ _ hflag⟩, ?_, ?_⟩
          · rw [List.append_assoc, List.append_assoc, List.append_assoc]
            apply RunsL.probes_pre b
            apply RunsL.setFlag_pre sa.flag 1 (by decide) hlt
            exact RunsL.cons_abrupt ⟨1, by simp [runOne], rfl⟩ rfl
          · refine ⟨by rw [setLocal_len]; rfl, fun x _ hn => ?_⟩
            rw [setLocal_other _ _ _ _ (by intro e; exact hn (by simp [flagsI, e]))]; rfl
          · refine ⟨fun sp hsp => ?_, fun d sb hm hne => ?_⟩
            · cases hsp
              exact ⟨by simp [pendingI], setLocal_flagIs _ _ _ hlt⟩
            · simp only [pendingI] at hm
              split at hm
              · simp at hm; subst hm; exact (hne sb rfl rfl).elim
              · simp at hm
      | brIf b a sa n =>
        simp only [runOne, if_true] at h
        cases hst : (s.fire b).stack with
        | nil => rw [hst] at h; subst h; simp at ok
        | cons v st =>
          rw [hst] at h
          simp only at h
          have hst' : (s'.fire b).stack = v :: st := by rw [(hfe.fire b).stack]; exact hst
          cases sa with
          | none =>
            simp only [lower]
            rw [List.append_assoc]
            by_cases hv : v ≠ 0
            · rw [if_pos hv] at h; subst h
              have h1 : Runs1 fns false [] (.brIf [] [] none n) (s'.fire b) (.br n none { (s'.fire b) with stack := st }) :=
                ⟨1, by simp only [runOne, Bool.false_eq_true, if_false, hst']; rw [if_pos hv], rfl⟩
              refine ⟨.br n none { (s'.fire b) with stack := st }, RunsL.probes_pre b (RunsL.cons_abrupt h1 rfl),
                ⟨rfl, rfl, (hfe.fire b).withStack st⟩, ⟨rfl, fun _ _ _ => rfl⟩, ?_⟩
              simp only [PostOk]
              exact ⟨fun sp hsp => (by cases hsp), fun d sa hm _ => (by simp [pendingI] at hm)⟩
            · rw [if_neg hv] at h; subst h
              have h1 : Runs1 fns false [] (.brIf [] [] none n) (s'.fire b) (.normal { (s'.fire b) with stack := st }) :=
                ⟨1, by simp only [runOne, Bool.false_eq_true, if_false, hst']; rw [if_neg hv], rfl⟩
              have := RunsL.blocklike (ps := a) h1
              refine ⟨.normal (({ (s'.fire b) with stack := st } : St).fire a), RunsL.probes_pre b (by simpa [Out.onNormal] using this),
                ?_, ⟨rfl, fun _ _ _ => rfl⟩, ?_⟩
              · simpa [OutRel, saPs] using ((hfe.fire b).withStack st).fire a
              · simp only [PostOk]; intro d sa hm; simp [pendingI] at hm
          | some sa =>
            have hflag : sa.flag ∈ F := hF sa.flag (by simp [flagsI])
            have hin : flagIs s' sa.flag 0 := hz sa.flag (by simp [flagsI])
            have hlt : sa.flag < (s'.fire b).locals.length := by
              have : (s'.locals[sa.flag]?).isSome := by rw [hin]; rfl
              rcases Nat.lt_or_ge sa.flag s'.locals.length with h' | h'
              · exact h'
              · rw [List.getElem?_eq_none h'] at this; cases this
            have hstk : ((s'.fire b).setLocal sa.flag 1).stack = v :: st := hst'
            simp only [lower, List.append_assoc, List.singleton_append]
            by_cases hv : v ≠ 0
            · rw [if_pos hv] at h; subst h
              have h1 : Runs1 fns false [] (.brIf [] [] none n) ((s'.fire b).setLocal sa.flag 1)
                  (.br n none { ((s'.fire b).setLocal sa.flag 1) with stack := st }) :=
                ⟨1, by simp only [runOne, Bool.false_eq_true, if_false, hstk]; rw [if_pos hv], rfl⟩
              refine ⟨.br n none { ((s'.fire b).setLocal sa.flag 1) with stack := st }, ?_,
                ⟨rfl, rfl, ((hfe.fire b).setLocal _ _ hflag).withStack st⟩, ?_, ?_⟩
              · apply RunsL.probes_pre b
                apply RunsL.setFlag_pre sa.flag 1 (by decide) hlt
                exact RunsL.cons_abrupt h1 rfl
              · refine ⟨by show (setNth _ _ _).length = _; rw [setNth_length]; rfl, fun x _ hn => ?_⟩
                show (setNth _ _ _)[x]? = _
                rw [setNth_get_ne _ _ _ _ (by intro e; exact hn (by simp [flagsI, e]))]; rfl
              · simp only [PostOk]
                refine ⟨fun sp hsp => ?_, fun d sb hm hne => ?_⟩
                · cases hsp
                  exact ⟨by simp [pendingI], setLocal_flagIs _ _ _ hlt⟩
                · simp only [pendingI] at hm
                  split at hm
                  · simp at hm; subst hm; exact (hne sb rfl rfl).elim
                  · simp at hm
            · rw [if_neg hv] at h; subst h
              have h1 : Runs1 fns false [] (.brIf [] [] none n) ((s'.fire b).setLocal sa.flag 1)
                  (.normal { ((s'.fire b).setLocal sa.flag 1) with stack := st }) :=
                ⟨1, by simp only [runOne, Bool.false_eq_true, if_false, hstk]; rw [if_neg hv], rfl⟩
              let r1 : St := ({ ((s'.fire b).setLocal sa.flag 1) with stack := st } : St).fire a
              have hlt1 : sa.flag < r1.locals.length := by
                show sa.flag < (setNth _ _ _).length; rw [setNth_length]; exact hlt
              refine ⟨.normal ((r1.setLocal sa.flag 0).fire sa.ps), ?_, ?_, ?_, ?_⟩
              · apply RunsL.probes_pre b
                apply RunsL.setFlag_pre sa.flag 1 (by decide) hlt
                refine RunsL.cons_normal h1 ?_
                apply RunsL.probes_pre a
                apply RunsL.setFlag_pre sa.flag 0 (by decide) hlt1
                exact RunsL.probes_only sa.ps
              · have e1 : FlagEq F (({ (s.fire b) with stack := st } : St).fire a) r1 :=
                  (((hfe.fire b).setLocal _ 1 hflag).withStack st).fire a
                simpa [OutRel, saPs] using (e1.setLocal sa.flag 0 hflag).fire sa.ps
              · refine ⟨?_, fun x _ hn => ?_⟩
                · show (setNth (setNth _ _ _) _ _).length = _; rw [setNth_length, setNth_length]; rfl
                · have hne : x ≠ sa.flag := by intro e; exact hn (by simp [flagsI, e])
                  show (setNth (setNth _ _ _) _ _)[x]? = _
                  rw [setNth_get_ne _ _ _ _ hne, setNth_get_ne _ _ _ _ hne]; rfl
              · simp only [PostOk]
                intro d sb hm
                simp only [pendingI] at hm
                split at hm
                · simp at hm; subst hm
                  exact setLocal_flagIs r1 _ 0 hlt1
                · simp at hm
      | brTable b a sa ts d =>
        simp only [scopedI, Option.isNone_iff_eq_none] at hsc; subst hsc
        simp only [runOne, if_true] at h
        simp only [lower]
        cases hst : (s.fire b).stack with
        | nil => rw [hst] at h; subst h; simp at ok
        | cons v st =>
          rw [hst] at h; simp only at h; subst h
          have hst' : (s'.fire b).stack = v :: st := by rw [(hfe.fire b).stack]; exact hst
          have h1 : Runs1 fns false [] (.brTable [] [] none ts d) (s'.fire b)
              (.br ((ts[v]?).getD d) none { (s'.fire b) with stack := st }) :=
            ⟨1, by simp only [runOne, Bool.false_eq_true, if_false, hst'], rfl⟩
          refine ⟨.br ((ts[v]?).getD d) none { (s'.fire b) with stack := st }, ?_, ⟨rfl, rfl, (hfe.fire b).withStack st⟩,
            ⟨rfl, fun _ _ _ => rfl⟩, ?_⟩
          · rw [List.append_assoc]
            exact RunsL.probes_pre b (RunsL.cons_abrupt h1 rfl)
          · simp only [PostOk]
            exact ⟨fun sp hsp => (by cases hsp), fun d sa hm _ => (by simp [pendingI] at hm)⟩
      | ret b a =>
        simp [runOne] at h; subst h
        simp only [lower]
        refine ⟨.ret ((s'.fire b).fire fx), ?_, (by simpa [OutRel] using (hfe.fire b).fire fx), ⟨rfl, fun _ _ _ => rfl⟩, trivial⟩
        rw [List.append_assoc, List.append_assoc]
        apply RunsL.probes_pre b
        apply RunsL.probes_pre fx
        exact RunsL.cons_abrupt ⟨1, by simp [runOne], rfl⟩ rfl
      | unreachable b a =>
        simp [runOne] at h; subst h
        simp only [lower]
        refine ⟨.trap ((s'.fire b).fire fx), ?_, (by simpa [OutRel] using (hfe.fire b).fire fx), ⟨rfl, fun _ _ _ => rfl⟩, trivial⟩
        rw [List.append_assoc, List.append_assoc]
        apply RunsL.probes_pre b
        apply RunsL.probes_pre fx
        exact RunsL.cons_abrupt ⟨1, by simp [runOne], rfl⟩ rfl

theorem branch_sim {F fx : List Nat} {f : Nat} {p : List Instr} {s s' : St} {o : Out}
    (hsc : scopedL F p = true) (hnd : (flagsL p).Nodup) (hF : ∀ x ∈ flagsL p, x ∈ F)
    (h : run fns true fx f p s = o) (ok : o.ok = true) (hfe : FlagEq F s s') (hz : ∀ x ∈ flagsL p, flagIs s' x 0) :
    SimOk fns F (flagsL p) (fun d => pendingL d p) (lowerL fx p) s' o :=
  (branch_sim_aux (fns := fns) F fx f).1 p s s' o hsc hnd hF h ok hfe hz

/-- results of the monitored and of the lowered function: the same values, trap or no trap, states equal up to flag locals -/
def FOutRel (F : List Nat) : FOut → FOut → Prop
  | .returned vs s, .returned vs' s' => vs' = vs ∧ FlagEq F s s'
  | .trapped s, .trapped s' => FlagEq F s s'
  | _, _ => False

/-- **function level, with annotated branches.** For a function in the scope (annotations on `br` / `br_if`; no loop
    contains the target of an annotated branch; no annotated branch targets the function label; the flag locals are
    distinct, untouched by the function's own code and 0 on entry), the lowered function run with the monitor off gives
    what the monitor semantics defines — results, trap, globals, memory, trace with every probe at its defining moment —
    and differs at most in the flag locals. -/
theorem branch_lowerF_sim (F : List Nat) (Fn : Func) (hsc : scopedL F Fn.body = true) (hnd : (flagsL Fn.body).Nodup)
    (hF : ∀ x ∈ flagsL Fn.body, x ∈ F) (hnoesc : ∀ d, pendingL d Fn.body = [])
    (s s' : St) (hs : s.stack = []) (hfe : FlagEq F s s') (hz : ∀ x ∈ flagsL Fn.body, flagIs s' x 0) (f : Nat)
    (ok : (runFunc fns true f Fn s).ok = true) :
    ∃ g, FOutRel F (runFunc fns true f Fn s) (runFunc fns false g (lowerF Fn) s') := by
  unfold runFunc at ok ⊢
  simp only [if_true] at ok ⊢
  have oko := finish_ok ok
  generalize ho : run fns true Fn.exit f Fn.body (s.fire Fn.entry) = o at ok oko
  obtain ⟨o', hr, hrel, _, hpo⟩ := branch_sim (fns := fns) hsc hnd hF ho oko (hfe.fire Fn.entry) (fun x hx => hz x hx)
  have hs' : s'.stack = [] := by rw [hfe.stack]; exact hs
  have hex : (lowerF Fn).exit = [] := rfl
  have hnres : (lowerF Fn).nres = Fn.nres := rfl
  -- nothing is pending when the body is left by a branch
  have hpd : ∀ n pd so, o = .br n pd so → pd = none := by
    intro n pd so e
    subst e
    obtain ⟨r, rfl, _⟩ := hrel.br_inv
    cases pd with
    | none => rfl
    | some sp =>
      have : sp ∈ pendingL n Fn.body := (hpo.1 sp rfl).1
      rw [hnoesc n] at this; cases this
  have hrE := RunsL.probes_post Fn.endBefore hr
  by_cases hexit : Fn.exit = []
  · have hbody : (lowerF Fn).body = probes Fn.entry ++ (lowerL [] Fn.body ++ probes Fn.endBefore) := by simp [lowerF, hexit]
    have hr' : RunsL fns false [] ((lowerF Fn).body) s' (o'.onNormal (·.fire Fn.endBefore)) := by
      rw [hbody]; apply RunsL.probes_pre; rw [hexit] at hrE; exact hrE
    obtain ⟨g, eg, _⟩ := hr'
    refine ⟨g, ?_⟩
    simp only [Bool.false_eq_true, if_false, hex, eg]
    cases o with
    | normal so =>
      obtain ⟨r, rfl, hfer⟩ := hrel.normal_inv
      simpa [finish, FOutRel, hnres, hexit, hfer.stack, Out.onNormal] using hfer.fire Fn.endBefore
    | br n pd so =>
      have := hpd n pd so rfl; subst this
      obtain ⟨r, rfl, hfer⟩ := hrel.br_inv
      cases n with
      | zero =>
        simp only [finish, if_true, saPs, hexit, St.fire_nil, Bool.false_eq_true, if_false, hnres, FOutRel, hfer.stack, true_and, Out.onNormal]
        rw [hs, hs']
        exact hfer.exitTo [] Fn.nres
      | succ n => simp [finish, FOut.ok] at ok
    | ret so =>
      obtain ⟨r, rfl, hfer⟩ := hrel.ret_inv
      simpa [finish, FOutRel, hnres, hfer.stack, Out.onNormal] using hfer
    | trap so =>
      obtain ⟨r, rfl, hfer⟩ := hrel.trap_inv
      simpa [finish, FOutRel, Out.onNormal] using hfer
    | stuck w => simp at oko
  · have hbody : (lowerF Fn).body
        = probes Fn.entry ++ ([Instr.block [] {} Fn.nres "block:functype" (lowerL Fn.exit Fn.body ++ probes Fn.endBefore)] ++ probes Fn.exit) := by
      simp [lowerF, hexit]
    have hblk := Runs1.block (fns := fns) (a := Fn.nres) (tk := "block:functype") hrE
    have hall := RunsL.blocklike (ps := Fn.exit) hblk
    have hr' : RunsL fns false [] ((lowerF Fn).body) s'
        (Out.onNormal (fun x => x.fire Fn.exit) (leaveBlock false {} (s'.fire Fn.entry).stack Fn.nres (o'.onNormal (·.fire Fn.endBefore)))) := by
      rw [hbody]; exact RunsL.probes_pre Fn.entry hall
    obtain ⟨g, eg, _⟩ := hr'
    refine ⟨g, ?_⟩
    simp only [Bool.false_eq_true, if_false, hex, eg]
    cases o with
    | normal so =>
      obtain ⟨r, rfl, hfer⟩ := hrel.normal_inv
      simpa [finish, FOutRel, hnres, leaveBlock, Out.onNormal, hfer.stack] using (hfer.fire Fn.endBefore).fire Fn.exit
    | br n pd so =>
      have := hpd n pd so rfl; subst this
      obtain ⟨r, rfl, hfer⟩ := hrel.br_inv
      cases n with
      | zero =>
        simp only [finish, if_true, saPs, St.fire_nil, leaveBlock, Out.onNormal, Bool.false_eq_true, if_false, hnres, FOutRel,
          St.fire_stack, hs, hs', St.exitTo, List.append_nil, hfer.stack, List.take_take, Nat.min_self, true_and]
        have := (hfer.exitTo [] Fn.nres).fire Fn.exit
        simpa [St.exitTo, hfer.stack] using this
      | succ n => simp [finish, FOut.ok] at ok
    | ret so =>
      obtain ⟨r, rfl, hfer⟩ := hrel.ret_inv
      simpa [finish, FOutRel, hnres, leaveBlock, Out.onNormal, hfer.stack] using hfer
    | trap so =>
      obtain ⟨r, rfl, hfer⟩ := hrel.trap_inv
      simpa [finish, FOutRel, leaveBlock, Out.onNormal] using hfer
    | stuck w => simp at oko

theorem FOutRel.abs {F : List Nat} {a b : FOut} (h : FOutRel F a b) : b.abs = a.abs := by
  cases a <;> cases b <;> simp only [FOutRel] at h
  · obtain ⟨rfl, h⟩ := h; simp [FOut.abs, h.globals, h.mem]
  · simp [FOut.abs, h.globals, h.mem]

end Orca.Sem
