import Orca.Lemmas.Lower
/-!
The general region theorem of C21: on a body whose only instrumentation is one block alternate, the lowering emits the
code in front of the selected construct, the replacement, and the code behind the construct's matching `end` — for every
nesting of the body around, inside and behind the construct.
-/
namespace Orca.Lower

/-- an instruction without instrumentation (its `mode` is irrelevant) -/
structure Clean (i : Instr) : Prop where
  before : i.before = []
  after : i.after = []
  alt : i.alt = none
  semAfter : i.semAfter = []
  blockEntry : i.blockEntry = []
  blockExit : i.blockExit = []
  blockAlt : i.blockAlt = none

theorem Clean.noInstr {i : Instr} (h : Clean i) : i.hasInstr = false := by
  simp [Instr.hasInstr, h.before, h.after, h.alt, h.semAfter, h.blockEntry, h.blockExit, h.blockAlt]

/-- what the lowering does to an instruction inside a removed construct -/
def mark (i : Instr) : Instr :=
  { i with alt := some [], semAfter := [], blockEntry := [], blockExit := [], blockAlt := none }

theorem modifyAt_mid (A B : List Instr) (x : Instr) (g : Instr → Instr) :
    modifyAt (A ++ x :: B) A.length g = A ++ g x :: B := by
  simp [modifyAt]

theorem mark_at (A B : List Instr) (x : Instr) :
    discardSpecial (setEmptyAlt (A ++ x :: B) A.length) A.length = A ++ mark x :: B := by
  unfold discardSpecial setEmptyAlt
  rw [modifyAt_mid, modifyAt_mid]
  rfl

/-- the resolver has nothing parked and no function-level code to place -/
structure Calm (s : RState) : Prop where
  entry : s.entry = []
  exit : s.exit = []
  e1 : s.onElseOrEnd = []
  e2 : s.onEndBefore = []
  e3 : s.onEndAfter = []

theorem planSpecial_clean (s : RState) (idx : Nat) (ins : Instr) (h : Clean ins) : planSpecial s idx ins = s := by
  simp [planSpecial, h.noInstr]

/-- the block stack holds the ids 0 .. n-1 (a block's id is the depth at which it was opened) -/
theorem range_succ_getLast (n : Nat) : (List.range (n + 1)).getLast? = some n := by
  simp [List.range_succ]

theorem range_succ_dropLast (n : Nat) : (List.range (n + 1)).dropLast = List.range n := by
  simp [List.range_succ]

theorem top_range_succ (n : Nat) : top (List.range (n + 1)) = n := by
  simp [top, range_succ_getLast]

/-- what a clean instruction does to the depth: `none` = an `end` without an open block -/
def depthStep (k : Kind) (n : Nat) : Option Nat :=
  match k with
  | .block | .loop | .if_ => some (n + 1)
  | .end_ => if n = 0 then none else some (n - 1)
  | _ => some n

def depthAfter : List Instr → Nat → Option Nat
  | [], n => some n
  | x :: xs, n => (depthStep x.kind n).bind (depthAfter xs)

/-! ### one step, nothing being removed -/

theorem rstep_clean_quiet (last : Nat) (s : RState) (idx : Nat) (ins : Instr) (hc : Clean ins) (hs : Calm s)
    (hd : s.deleteBlock = none) (n : Nat) (hst : s.stack = List.range n) (n' : Nat) (hn : depthStep ins.kind n = some n') :
    let s' := rstep last s idx ins
    Calm s' ∧ s'.deleteBlock = none ∧ s'.body = s.body ∧ s'.stack = List.range n' ∧ s'.nlocals = s.nlocals
      ∧ s'.added = s.added ∧ s'.retainEnd = s.retainEnd := by
  have hb := hc.blockAlt
  cases hk : ins.kind with
  | block | loop | if_ =>
    all_goals
      simp only [hk, depthStep, Option.some.injEq] at hn
      subst hn
      simp only [rstep, hs.entry, hs.exit, hk, hb, hd, List.isEmpty_nil, Bool.not_true, Bool.false_and, Bool.false_eq_true,
        if_false, if_true, Option.isNone_none, Option.isSome_none, planSpecial_clean _ _ _ hc]
      refine ⟨⟨?_, ?_, ?_, ?_, ?_⟩, ?_, ?_, ?_, ?_, ?_, ?_⟩ <;> simp [hs.entry, hs.exit, hs.e1, hs.e2, hs.e3, hd, hst, List.range_succ]
  | end_ =>
    simp only [hk, depthStep] at hn
    split at hn
    · cases hn
    · rename_i hn0
      simp only [Option.some.injEq] at hn
      subst hn
      obtain ⟨m, rfl⟩ : ∃ m, n = m + 1 := ⟨n - 1, by omega⟩
      simp only [rstep, hs.entry, hs.exit, hk, hd, hst, range_succ_getLast, range_succ_dropLast, hs.e1, hs.e2, hs.e3,
        List.isEmpty_nil, Bool.not_true, Bool.false_and, Bool.false_eq_true, if_false, if_true, List.any_nil,
        planSpecial_clean _ _ _ hc, removeInj, List.filter_nil]
      simp only [show ((none : Option Nat) == some m) = false from rfl, Bool.false_eq_true, if_false]
      refine ⟨⟨?_, ?_, ?_, ?_, ?_⟩, ?_, ?_, ?_, ?_, ?_, ?_⟩ <;> simp [hs.entry, hs.exit, hs.e1, hs.e2, hs.e3, hd, hst, List.range_succ]
  | else_ =>
    simp only [hk, depthStep, Option.some.injEq] at hn
    subst hn
    simp only [rstep, hs.entry, hs.exit, hk, hb, hd, hs.e1, List.isEmpty_nil, Bool.not_true, Bool.false_and, Bool.false_eq_true,
      if_false, if_true, List.any_nil, Option.isNone_none, Option.isSome_none, planSpecial_clean _ _ _ hc]
    refine ⟨⟨?_, ?_, ?_, ?_, ?_⟩, ?_, ?_, ?_, ?_, ?_, ?_⟩ <;> simp [hs.entry, hs.exit, hs.e1, hs.e2, hs.e3, hd, hst, List.range_succ]
  | br _ | brIf _ | brTable _ _ | other =>
    all_goals
      simp only [hk, depthStep, Option.some.injEq] at hn
      subst hn
      simp only [rstep, hs.entry, hs.exit, hk, hd, List.isEmpty_nil, Bool.not_true, Bool.false_and, Bool.false_eq_true,
        if_false, if_true, Option.isSome_none, planSpecial_clean _ _ _ hc]
      refine ⟨⟨?_, ?_, ?_, ?_, ?_⟩, ?_, ?_, ?_, ?_, ?_, ?_⟩ <;> simp [hs.entry, hs.exit, hs.e1, hs.e2, hs.e3, hd, hst, List.range_succ]
  | exitLike =>
    simp only [hk, depthStep, Option.some.injEq] at hn
    subst hn
    simp only [rstep, hs.entry, hs.exit, hk, hd, List.isEmpty_nil, Bool.not_true, Bool.false_and, Bool.false_eq_true,
      if_false, if_true, Option.isSome_none, planSpecial_clean _ _ _ hc]
    refine ⟨⟨?_, ?_, ?_, ?_, ?_⟩, ?_, ?_, ?_, ?_, ?_, ?_⟩ <;> simp [hs.entry, hs.exit, hs.e1, hs.e2, hs.e3, hd, hst, List.range_succ]

/-! ### one step inside a construct that is being removed -/

theorem rstep_del_nonend (last : Nat) (s : RState) (A B : List Instr) (ins : Instr) (hc : Clean ins) (hs : Calm s)
    (d : Nat) (hd : s.deleteBlock = some d) (hb : s.body = A ++ ins :: B) (n : Nat) (hst : s.stack = List.range n)
    (hk : ins.kind ≠ .end_) (n' : Nat) (hn : depthStep ins.kind n = some n') :
    let s' := rstep last s A.length ins
    Calm s' ∧ s'.deleteBlock = some d ∧ s'.body = A ++ mark ins :: B ∧ s'.stack = List.range n' ∧ s'.nlocals = s.nlocals
      ∧ s'.added = s.added ∧ s'.retainEnd = s.retainEnd := by
  have hba := hc.blockAlt
  cases hkk : ins.kind with
  | end_ => exact absurd hkk hk
  | block | loop | if_ =>
    all_goals
      simp only [hkk, depthStep, Option.some.injEq] at hn
      subst hn
      simp only [rstep, hs.entry, hs.exit, hkk, hba, hd, hb, mark_at, List.isEmpty_nil, Bool.not_true, Bool.false_and,
        Bool.false_eq_true, if_false, if_true, Option.isNone_some, Option.isSome_some]
      refine ⟨⟨?_, ?_, ?_, ?_, ?_⟩, ?_, ?_, ?_, ?_, ?_, ?_⟩ <;> simp [hs.entry, hs.exit, hs.e1, hs.e2, hs.e3, hd, hst, List.range_succ]
  | else_ =>
    simp only [hkk, depthStep, Option.some.injEq] at hn
    subst hn
    simp only [rstep, hs.entry, hs.exit, hkk, hba, hd, hb, hs.e1, mark_at, List.isEmpty_nil, Bool.not_true, Bool.false_and,
      Bool.false_eq_true, if_false, if_true, List.any_nil, Option.isNone_some, Option.isSome_some]
    refine ⟨⟨?_, ?_, ?_, ?_, ?_⟩, ?_, ?_, ?_, ?_, ?_, ?_⟩ <;> simp [hs.entry, hs.exit, hs.e1, hs.e2, hs.e3, hd, hst, List.range_succ]
  | br _ | brIf _ | brTable _ _ | other | exitLike =>
    all_goals
      simp only [hkk, depthStep, Option.some.injEq] at hn
      subst hn
      simp only [rstep, hs.entry, hs.exit, hkk, hd, hb, mark_at, List.isEmpty_nil, Bool.not_true, Bool.false_and,
        Bool.false_eq_true, if_false, if_true, Option.isSome_some]
      refine ⟨⟨?_, ?_, ?_, ?_, ?_⟩, ?_, ?_, ?_, ?_, ?_, ?_⟩ <;> simp [hs.entry, hs.exit, hs.e1, hs.e2, hs.e3, hd, hst, List.range_succ]

/-- an `end` of a construct nested in the removed one -/
theorem rstep_del_inner_end (last : Nat) (s : RState) (A B : List Instr) (ins : Instr) (hc : Clean ins) (hs : Calm s)
    (d : Nat) (hd : s.deleteBlock = some d) (hb : s.body = A ++ ins :: B) (m : Nat) (hst : s.stack = List.range (m + 1))
    (hk : ins.kind = .end_) (hne : d ≠ m) :
    let s' := rstep last s A.length ins
    Calm s' ∧ s'.deleteBlock = some d ∧ s'.body = A ++ mark ins :: B ∧ s'.stack = List.range m ∧ s'.nlocals = s.nlocals
      ∧ s'.added = s.added ∧ s'.retainEnd = s.retainEnd := by
  have hdm : (d == m) = false := by simpa using hne
  simp only [rstep, hs.entry, hs.exit, hk, hd, hb, hst, range_succ_getLast, range_succ_dropLast, mark_at, hdm,
    List.isEmpty_nil, Bool.not_true, Bool.false_and, Bool.false_eq_true, if_false, if_true]
  refine ⟨⟨?_, ?_, ?_, ?_, ?_⟩, ?_, ?_, ?_, ?_, ?_, ?_⟩ <;> simp [hs.entry, hs.exit, hs.e1, hs.e2, hs.e3, hd]

/-- the `end` that closes the removed construct: removed too (block, loop, if) or kept (else) -/
theorem rstep_del_closing_end (last : Nat) (s : RState) (A B : List Instr) (ins : Instr) (hc : Clean ins) (hs : Calm s)
    (d : Nat) (hd : s.deleteBlock = some d) (hb : s.body = A ++ ins :: B) (hst : s.stack = List.range (d + 1))
    (hk : ins.kind = .end_) :
    let s' := rstep last s A.length ins
    Calm s' ∧ s'.deleteBlock = none ∧ s'.body = A ++ (if s.retainEnd then ins else mark ins) :: B ∧ s'.stack = List.range d
      ∧ s'.nlocals = s.nlocals ∧ s'.added = s.added := by
  cases hr : s.retainEnd with
  | false =>
    simp only [rstep, hs.entry, hs.exit, hk, hd, hb, hst, hr, range_succ_getLast, range_succ_dropLast, mark_at, beq_self_eq_true,
      List.isEmpty_nil, Bool.not_true, Bool.not_false, Bool.false_and, Bool.false_eq_true, if_false, if_true]
    refine ⟨⟨?_, ?_, ?_, ?_, ?_⟩, ?_, ?_, ?_, ?_, ?_⟩ <;> simp [hs.entry, hs.exit, hs.e1, hs.e2, hs.e3]
  | true =>
    simp only [rstep, hs.entry, hs.exit, hk, hd, hb, hst, hr, range_succ_getLast, range_succ_dropLast, beq_self_eq_true,
      hs.e1, hs.e2, hs.e3, List.isEmpty_nil, Bool.not_true, Bool.false_and, Bool.false_eq_true, if_false, if_true, List.any_nil,
      planSpecial_clean _ _ _ hc, removeInj, List.filter_nil]
    refine ⟨⟨?_, ?_, ?_, ?_, ?_⟩, ?_, ?_, ?_, ?_, ?_⟩ <;> simp [hs.entry, hs.exit, hs.e1, hs.e2, hs.e3]

/-! ### runs of clean instructions -/

/-- clean code while nothing is being removed: the resolver only follows the nesting -/
theorem rloop_quiet (last : Nat) : ∀ (xs : List Instr) (s : RState) (k n n' : Nat), (∀ x ∈ xs, Clean x) → Calm s →
    s.deleteBlock = none → s.stack = List.range n → depthAfter xs n = some n' →
    let s' := rloop last s k xs
    Calm s' ∧ s'.deleteBlock = none ∧ s'.body = s.body ∧ s'.stack = List.range n' ∧ s'.nlocals = s.nlocals
      ∧ s'.added = s.added ∧ s'.retainEnd = s.retainEnd := by
  intro xs
  induction xs with
  | nil =>
    intro s k n n' _ hs hd hst hn
    simp only [depthAfter, Option.some.injEq] at hn
    subst hn
    exact ⟨hs, hd, rfl, hst, rfl, rfl, rfl⟩
  | cons x xs ih =>
    intro s k n n' hc hs hd hst hn
    simp only [depthAfter] at hn
    cases h1 : depthStep x.kind n with
    | none => simp [h1] at hn
    | some n1 =>
      simp only [h1, Option.bind_some] at hn
      obtain ⟨a1, a2, a3, a4, a5, a6, a7⟩ := rstep_clean_quiet last s k x (hc x (List.mem_cons_self ..)) hs hd n hst n1 h1
      obtain ⟨b1, b2, b3, b4, b5, b6, b7⟩ := ih (rstep last s k x) (k + 1) n1 n'
        (fun y hy => hc y (List.mem_cons_of_mem _ hy)) a1 a2 a4 hn
      exact ⟨b1, b2, b3.trans a3, b4, b5.trans a5, b6.trans a6, b7.trans a7⟩

/-- clean code inside the removed construct (relative depth `m`): every instruction is marked -/
theorem rloop_del (last : Nat) (d : Nat) : ∀ (xs : List Instr) (s : RState) (A B : List Instr) (m m' : Nat),
    (∀ x ∈ xs, Clean x) → Calm s → s.deleteBlock = some d → s.body = A ++ xs ++ B → s.stack = List.range (d + 1 + m) →
    depthAfter xs m = some m' →
    let s' := rloop last s A.length xs
    Calm s' ∧ s'.deleteBlock = some d ∧ s'.body = A ++ xs.map mark ++ B ∧ s'.stack = List.range (d + 1 + m')
      ∧ s'.nlocals = s.nlocals ∧ s'.added = s.added ∧ s'.retainEnd = s.retainEnd := by
  intro xs
  induction xs with
  | nil =>
    intro s A B m m' _ hs hd hb hst hn
    simp only [depthAfter, Option.some.injEq] at hn
    subst hn
    exact ⟨hs, hd, by simpa [rloop] using hb, hst, rfl, rfl, rfl⟩
  | cons x xs ih =>
    intro s A B m m' hc hs hd hb hst hn
    have hcx := hc x (List.mem_cons_self ..)
    have hb' : s.body = A ++ x :: (xs ++ B) := by simpa using hb
    simp only [depthAfter] at hn
    cases h1 : depthStep x.kind m with
    | none => simp [h1] at hn
    | some m1 =>
      simp only [h1, Option.bind_some] at hn
      -- the step
      have hstep : let s1 := rstep last s A.length x
          Calm s1 ∧ s1.deleteBlock = some d ∧ s1.body = A ++ mark x :: (xs ++ B) ∧ s1.stack = List.range (d + 1 + m1)
            ∧ s1.nlocals = s.nlocals ∧ s1.added = s.added ∧ s1.retainEnd = s.retainEnd := by
        by_cases hk : x.kind = .end_
        · simp only [hk, depthStep] at h1
          split at h1
          · cases h1
          · rename_i hm0
            simp only [Option.some.injEq] at h1
            subst h1
            have hst' : s.stack = List.range ((d + m) + 1) := by rw [hst]; congr 1; omega
            have := rstep_del_inner_end last s A (xs ++ B) x hcx hs d hd hb' (d + m) hst' hk (by omega)
            rw [show d + 1 + (m - 1) = d + m by omega]
            exact this
        · have hd1 : depthStep x.kind (d + 1 + m) = some (d + 1 + m1) := by
            cases hkk : x.kind <;> simp_all [depthStep] <;> omega
          exact rstep_del_nonend last s A (xs ++ B) x hcx hs d hd hb' (d + 1 + m) hst hk (d + 1 + m1) hd1
      obtain ⟨a1, a2, a3, a4, a5, a6, a7⟩ := hstep
      have a3' : (rstep last s A.length x).body = (A ++ [mark x]) ++ xs ++ B := by simpa using a3
      have := ih (rstep last s A.length x) (A ++ [mark x]) B m1 m' (fun y hy => hc y (List.mem_cons_of_mem _ hy)) a1 a2 a3' a4 hn
      simp only [List.length_append, List.length_singleton] at this
      obtain ⟨b1, b2, b3, b4, b5, b6, b7⟩ := this
      simp only [rloop]
      exact ⟨b1, b2, by simpa using b3, b4, b5.trans a5, b6.trans a6, b7.trans a7⟩

/-! ### the selected instruction -/

/-- the selected instruction carries a block alternate and nothing else -/
structure SelOnly (i : Instr) (repl : List Tok) : Prop where
  before : i.before = []
  after : i.after = []
  alt : i.alt = none
  semAfter : i.semAfter = []
  blockEntry : i.blockEntry = []
  blockExit : i.blockExit = []
  blockAlt : i.blockAlt = some repl

/-- what is left of it: the replacement as its alternate -/
def selDone (i : Instr) (repl : List Tok) : Instr :=
  if repl.isEmpty then mark i
  else { i with mode := some .alternate, alt := some ((i.alt.getD []) ++ repl), semAfter := [], blockEntry := [], blockExit := [],
                blockAlt := none }

theorem planBlockAlt_at (A B : List Instr) (x : Instr) (repl : List Tok) :
    planBlockAlt (A ++ x :: B) A.length repl = A ++ selDone x repl :: B := by
  unfold planBlockAlt selDone
  by_cases h : repl.isEmpty
  · simp only [h, if_true]
    exact mark_at A B x
  · simp only [h, Bool.false_eq_true, if_false, discardSpecial]
    rw [modifyAt_mid, modifyAt_mid]

theorem selDone_emit (i : Instr) (repl : List Tok) (h : SelOnly i repl) :
    (selDone i repl).before = [] ∧ (selDone i repl).after = [] ∧ (selDone i repl).alt = some repl := by
  unfold selDone
  by_cases hr : repl.isEmpty
  · simp only [hr, if_true, mark]
    exact ⟨h.before, h.after, by rw [List.isEmpty_iff.mp hr]⟩
  · simp only [hr, Bool.false_eq_true, if_false]
    exact ⟨h.before, h.after, by simp [h.alt]⟩

/-- the step at a selected `block` / `loop` / `if`: removal starts, the matching `end` will go too -/
theorem rstep_sel_block (last : Nat) (s : RState) (A B : List Instr) (sel : Instr) (repl : List Tok) (hsel : SelOnly sel repl)
    (hs : Calm s) (hd : s.deleteBlock = none) (hb : s.body = A ++ sel :: B) (n : Nat) (hst : s.stack = List.range n)
    (hk : sel.kind = .block ∨ sel.kind = .loop ∨ sel.kind = .if_) :
    let s' := rstep last s A.length sel
    Calm s' ∧ s'.deleteBlock = some n ∧ s'.retainEnd = false ∧ s'.body = A ++ selDone sel repl :: B
      ∧ s'.stack = List.range (n + 1) ∧ s'.nlocals = s.nlocals ∧ s'.added = s.added := by
  have htop : top (List.range n ++ [n]) = n := by simp [top]
  rcases hk with hk | hk | hk
  all_goals
    simp only [rstep, hs.entry, hs.exit, hk, hsel.blockAlt, hd, hb, hst, planBlockAlt_at, List.length_range, htop,
      List.isEmpty_nil, Bool.not_true, Bool.false_and, Bool.false_eq_true, if_false, if_true, Option.isNone_none]
    refine ⟨⟨?_, ?_, ?_, ?_, ?_⟩, ?_, ?_, ?_, ?_, ?_, ?_⟩ <;> simp [hs.entry, hs.exit, hs.e1, hs.e2, hs.e3, List.range_succ]

/-- the step at a selected `else`: the arm goes, the `end` of the `if` stays -/
theorem rstep_sel_else (last : Nat) (s : RState) (A B : List Instr) (sel : Instr) (repl : List Tok) (hsel : SelOnly sel repl)
    (hs : Calm s) (hd : s.deleteBlock = none) (hb : s.body = A ++ sel :: B) (n : Nat) (hst : s.stack = List.range (n + 1))
    (hk : sel.kind = .else_) :
    let s' := rstep last s A.length sel
    Calm s' ∧ s'.deleteBlock = some n ∧ s'.retainEnd = true ∧ s'.body = A ++ selDone sel repl :: B
      ∧ s'.stack = List.range (n + 1) ∧ s'.nlocals = s.nlocals ∧ s'.added = s.added := by
  simp only [rstep, hs.entry, hs.exit, hk, hsel.blockAlt, hd, hb, hst, hs.e1, planBlockAlt_at, top_range_succ,
    List.isEmpty_nil, Bool.not_true, Bool.false_and, Bool.false_eq_true, if_false, if_true, List.any_nil, Option.isNone_none]
  refine ⟨⟨?_, ?_, ?_, ?_, ?_⟩, ?_, ?_, ?_, ?_, ?_, ?_⟩ <;> simp [hs.entry, hs.exit, hs.e1, hs.e2, hs.e3]

/-! ### emission -/

def toks (xs : List Instr) : List Tok := xs.map (·.tok)

theorem emitFrom_append (last : Nat) : ∀ (xs ys : List Instr) (k : Nat),
    emitFrom last k (xs ++ ys) = emitFrom last k xs ++ emitFrom last (k + xs.length) ys := by
  intro xs
  induction xs with
  | nil => intro ys k; simp [emitFrom]
  | cons x xs ih =>
    intro ys k
    simp only [List.cons_append, emitFrom, ih ys (k + 1), List.length_cons, List.append_assoc]
    rw [show k + 1 + xs.length = k + (xs.length + 1) by omega]

theorem emitFrom_clean (last : Nat) : ∀ (xs : List Instr) (k : Nat), (∀ x ∈ xs, Clean x) → emitFrom last k xs = toks xs := by
  intro xs
  induction xs with
  | nil => intro k _; rfl
  | cons x xs ih =>
    intro k hc
    have hx := hc x (List.mem_cons_self ..)
    simp only [emitFrom, toks, List.map_cons, hx.before, hx.alt, hx.after, List.nil_append]
    rw [ih (k + 1) (fun y hy => hc y (List.mem_cons_of_mem _ hy))]
    split <;> simp [toks]

theorem emitFrom_marked (last : Nat) : ∀ (xs : List Instr) (k : Nat), (∀ x ∈ xs, Clean x) → k + xs.length ≤ last →
    emitFrom last k (xs.map mark) = [] := by
  intro xs
  induction xs with
  | nil => intro k _ _; rfl
  | cons x xs ih =>
    intro k hc hl
    have hx := hc x (List.mem_cons_self ..)
    simp only [List.length_cons] at hl
    have hlt : ¬ (k ≥ last) := by omega
    simp only [List.map_cons, emitFrom, mark, hx.before, hx.after, hlt, if_false, List.nil_append, List.append_nil]
    exact ih (k + 1) (fun y hy => hc y (List.mem_cons_of_mem _ hy)) (by omega)

/-! ### the whole body -/

theorem rloop_append (last : Nat) : ∀ (xs ys : List Instr) (s : RState) (k : Nat),
    rloop last s k (xs ++ ys) = rloop last (rloop last s k xs) (k + xs.length) ys := by
  intro xs
  induction xs with
  | nil => intro ys s k; simp [rloop]
  | cons x xs ih =>
    intro ys s k
    simp only [List.cons_append, rloop, ih ys _ (k + 1), List.length_cons]
    rw [show k + 1 + xs.length = k + (xs.length + 1) by omega]

/-- the resolver on a body whose only instrumentation is a block alternate on a `block` / `loop` / `if`: the construct and
    everything inside it are marked for removal up to and including its `end`; nothing else changes; no local is added -/
theorem rloop_blockAlt (last : Nat) (pre region post : List Instr) (sel endI : Instr) (repl : List Tok) (s0 : RState)
    (hs0 : Calm s0) (hd0 : s0.deleteBlock = none) (hb0 : s0.body = pre ++ sel :: region ++ endI :: post)
    (hst0 : s0.stack = List.range 1)
    (hpre : ∀ x ∈ pre, Clean x) (hreg : ∀ x ∈ region, Clean x) (hend : Clean endI) (hpost : ∀ x ∈ post, Clean x)
    (hsel : SelOnly sel repl) (hk : sel.kind = .block ∨ sel.kind = .loop ∨ sel.kind = .if_) (hendk : endI.kind = .end_)
    (n n2 : Nat) (hd1 : depthAfter pre 1 = some n) (hd2 : depthAfter region 0 = some 0) (hd3 : depthAfter post n = some n2) :
    let s' := rloop last s0 0 (pre ++ sel :: region ++ endI :: post)
    s'.body = pre ++ selDone sel repl :: region.map mark ++ mark endI :: post ∧ s'.nlocals = s0.nlocals ∧ s'.added = s0.added := by
  -- the code in front
  obtain ⟨a1, a2, a3, a4, a5, a6, _⟩ := rloop_quiet last pre s0 0 1 n hpre hs0 hd0 hst0 hd1
  -- the selected instruction
  have hb1 : (rloop last s0 0 pre).body = pre ++ sel :: (region ++ endI :: post) := by rw [a3, hb0]; simp
  obtain ⟨b1, b2, b3, b4, b5, b6, b7⟩ := rstep_sel_block last _ pre (region ++ endI :: post) sel repl hsel a1 a2 hb1 n a4 hk
  -- the inside of the construct
  have hb2 : (rstep last (rloop last s0 0 pre) pre.length sel).body = (pre ++ [selDone sel repl]) ++ region ++ (endI :: post) := by
    rw [b4]; simp
  have hst2 : (rstep last (rloop last s0 0 pre) pre.length sel).stack = List.range (n + 1 + 0) := b5
  have h3 := rloop_del last n region _ (pre ++ [selDone sel repl]) (endI :: post) 0 0 hreg b1 b2 hb2 hst2 hd2
  simp only [List.length_append, List.length_singleton] at h3
  obtain ⟨c1, c2, c3, c4, c5, c6, c7⟩ := h3
  -- the closing `end`
  have hb3 : (rloop last (rstep last (rloop last s0 0 pre) pre.length sel) (pre.length + 1) region).body
      = (pre ++ [selDone sel repl] ++ region.map mark) ++ endI :: post := by rw [c3]
  have h4 := rstep_del_closing_end last _ (pre ++ [selDone sel repl] ++ region.map mark) post endI hend c1 n c2 hb3 c4 hendk
  simp only [List.length_append, List.length_singleton, List.length_map, c7, b3, Bool.false_eq_true, if_false] at h4
  obtain ⟨e1, e2, e3, e4, e5, e6⟩ := h4
  -- the code behind
  obtain ⟨g1, g2, g3, g4, g5, g6, _⟩ := rloop_quiet last post _ (pre.length + 1 + region.length + 1) n n2 hpost e1 e2 e4 hd3
  -- assemble
  have hsplit : pre ++ sel :: region ++ endI :: post = pre ++ ([sel] ++ (region ++ ([endI] ++ post))) := by simp
  rw [hsplit, rloop_append, List.singleton_append, rloop, rloop_append, List.singleton_append, rloop]
  simp only [Nat.zero_add]
  refine ⟨?_, ?_, ?_⟩
  · rw [g3, e3]; simp
  · rw [g5, e5, c5, b6, a5]
  · rw [g6, e6, c6, b7, a6]

/-! ### `lower` on such a function -/

/-- `get_fn_modifier` touches the mode of the last instruction only -/
def touchLast (post : List Instr) (hp : post ≠ []) : List Instr :=
  post.dropLast ++ [{ post.getLast hp with mode := some .before }]

theorem modifyAt_last (X post : List Instr) (hp : post ≠ []) :
    modifyAt (X ++ post) ((X ++ post).length - 1) (fun i => { i with mode := some .before }) = X ++ touchLast post hp := by
  have hsplit : post = post.dropLast ++ [post.getLast hp] := (List.dropLast_concat_getLast hp).symm
  have hlen : (X ++ post).length - 1 = (X ++ post.dropLast).length := by
    have : post.length ≥ 1 := List.length_pos_iff.mpr hp
    simp only [List.length_append, List.length_dropLast]; omega
  rw [hlen]
  conv => lhs; arg 1; rw [hsplit, ← List.append_assoc]
  rw [modifyAt_mid]
  simp [touchLast]

theorem touchLast_clean (post : List Instr) (hp : post ≠ []) (h : ∀ x ∈ post, Clean x) : ∀ x ∈ touchLast post hp, Clean x := by
  intro x hx
  simp only [touchLast, List.mem_append, List.mem_singleton] at hx
  rcases hx with hx | rfl
  · exact h x (List.dropLast_subset _ hx)
  · have := h _ (List.getLast_mem hp)
    exact ⟨this.before, this.after, this.alt, this.semAfter, this.blockEntry, this.blockExit, this.blockAlt⟩

theorem touchLast_toks (post : List Instr) (hp : post ≠ []) : toks (touchLast post hp) = toks post := by
  conv => rhs; rw [← List.dropLast_concat_getLast hp]
  simp [toks, touchLast]

theorem depthAfter_append (xs ys : List Instr) : ∀ n, depthAfter (xs ++ ys) n = (depthAfter xs n).bind (depthAfter ys) := by
  induction xs with
  | nil => intro n; simp [depthAfter]
  | cons x xs ih =>
    intro n
    simp only [List.cons_append, depthAfter]
    cases depthStep x.kind n with
    | none => simp
    | some m => simp [ih m]

theorem touchLast_depth (post : List Instr) (hp : post ≠ []) (n : Nat) : depthAfter (touchLast post hp) n = depthAfter post n := by
  conv => rhs; rw [← List.dropLast_concat_getLast hp]
  simp only [touchLast, depthAfter_append]
  rfl

theorem touchLast_length (post : List Instr) (hp : post ≠ []) : (touchLast post hp).length = post.length := by
  have : post.length ≥ 1 := List.length_pos_iff.mpr hp
  simp only [touchLast, List.length_append, List.length_dropLast, List.length_singleton]; omega

/-- **C21, every nesting.** A function whose only instrumentation is a block alternate on a `block`, `loop` or `if` is
    encoded as: the code in front of the construct, the replacement (nothing, for an empty one), the code behind the
    construct's matching `end`. The construct may sit at any depth (`pre` need not be balanced), contain any nesting
    (`region` is any balanced instruction sequence) and be followed by anything; no local is added. -/
theorem blockAlt_region (f : Func) (pre region post : List Instr) (sel endI : Instr) (repl : List Tok)
    (hbody : f.body = pre ++ sel :: region ++ endI :: post) (hpne : post ≠ [])
    (hsp : f.hasSpecial = true) (hentry : f.entry = []) (hexit : f.exit = [])
    (hpre : ∀ x ∈ pre, Clean x) (hreg : ∀ x ∈ region, Clean x) (hend : Clean endI) (hpost : ∀ x ∈ post, Clean x)
    (hsel : SelOnly sel repl) (hk : sel.kind = .block ∨ sel.kind = .loop ∨ sel.kind = .if_) (hendk : endI.kind = .end_)
    (n n2 : Nat) (hd1 : depthAfter pre 1 = some n) (hd2 : depthAfter region 0 = some 0) (hd3 : depthAfter post n = some n2) :
    lower f = (toks pre ++ repl ++ toks post, f.added) := by
  have hplen : post.length ≥ 1 := List.length_pos_iff.mpr hpne
  have hbody0 : modifyAt f.body (f.body.length - 1) (fun i => { i with mode := some .before })
      = pre ++ sel :: region ++ endI :: touchLast post hpne := by
    have : f.body = (pre ++ sel :: region ++ [endI]) ++ post := by rw [hbody]; simp
    rw [this, modifyAt_last _ post hpne]; simp
  have hres := rloop_blockAlt (f.body.length - 1) pre region (touchLast post hpne) sel endI repl
    { body := pre ++ sel :: region ++ endI :: touchLast post hpne, entry := [], exit := [], nlocals := f.nlocals }
    ⟨rfl, rfl, rfl, rfl, rfl⟩ rfl rfl rfl hpre hreg hend (touchLast_clean post hpne hpost) hsel hk hendk n n2 hd1 hd2
    (by rw [touchLast_depth]; exact hd3)
  obtain ⟨r1, _, r3⟩ := hres
  have hlen : f.body.length = pre.length + 1 + region.length + 1 + post.length := by rw [hbody]; simp; omega
  unfold lower resolveSpecial
  simp only [hsp, Bool.not_true, Bool.false_eq_true, if_false, hexit, hentry, List.isEmpty_nil, if_true, hbody0]
  simp only [emit, r1, r3]
  refine Prod.ext ?_ (by simp)
  simp only
  have hL : (pre ++ selDone sel repl :: List.map mark region ++ mark endI :: touchLast post hpne).length - 1
      = pre.length + region.length + 1 + post.length := by
    simp [touchLast_length]; omega
  rw [hL]
  have hsplit : pre ++ selDone sel repl :: List.map mark region ++ mark endI :: touchLast post hpne
      = pre ++ ([selDone sel repl] ++ (region.map mark ++ ([endI].map mark ++ touchLast post hpne))) := by simp
  rw [hsplit, emitFrom_append, emitFrom_append, emitFrom_append, emitFrom_append]
  rw [emitFrom_clean _ pre _ hpre, emitFrom_clean _ _ _ (touchLast_clean post hpne hpost), touchLast_toks,
    emitFrom_marked _ region _ hreg (by simp; omega),
    emitFrom_marked _ [endI] _ (by intro x hx; simp at hx; subst hx; exact hend) (by simp; omega)]
  obtain ⟨s1, s2, s3⟩ := selDone_emit sel repl hsel
  have hnotend : ¬ (0 + pre.length ≥ pre.length + region.length + 1 + post.length) := by omega
  simp [emitFrom, s1, s2, s3]
  intro h; omega

/-! ### the `else` arm -/

theorem rloop_blockAlt_else (last : Nat) (pre region post : List Instr) (sel endI : Instr) (repl : List Tok) (s0 : RState)
    (hs0 : Calm s0) (hd0 : s0.deleteBlock = none) (hb0 : s0.body = pre ++ sel :: region ++ endI :: post)
    (hst0 : s0.stack = List.range 1)
    (hpre : ∀ x ∈ pre, Clean x) (hreg : ∀ x ∈ region, Clean x) (hend : Clean endI) (hpost : ∀ x ∈ post, Clean x)
    (hsel : SelOnly sel repl) (hk : sel.kind = .else_) (hendk : endI.kind = .end_)
    (n n2 : Nat) (hd1 : depthAfter pre 1 = some (n + 1)) (hd2 : depthAfter region 0 = some 0) (hd3 : depthAfter post n = some n2) :
    let s' := rloop last s0 0 (pre ++ sel :: region ++ endI :: post)
    s'.body = pre ++ selDone sel repl :: region.map mark ++ endI :: post ∧ s'.nlocals = s0.nlocals ∧ s'.added = s0.added := by
  obtain ⟨a1, a2, a3, a4, a5, a6, _⟩ := rloop_quiet last pre s0 0 1 (n + 1) hpre hs0 hd0 hst0 hd1
  have hb1 : (rloop last s0 0 pre).body = pre ++ sel :: (region ++ endI :: post) := by rw [a3, hb0]; simp
  obtain ⟨b1, b2, b3, b4, b5, b6, b7⟩ := rstep_sel_else last _ pre (region ++ endI :: post) sel repl hsel a1 a2 hb1 n a4 hk
  have hb2 : (rstep last (rloop last s0 0 pre) pre.length sel).body = (pre ++ [selDone sel repl]) ++ region ++ (endI :: post) := by
    rw [b4]; simp
  have hst2 : (rstep last (rloop last s0 0 pre) pre.length sel).stack = List.range (n + 1 + 0) := b5
  have h3 := rloop_del last n region _ (pre ++ [selDone sel repl]) (endI :: post) 0 0 hreg b1 b2 hb2 hst2 hd2
  simp only [List.length_append, List.length_singleton] at h3
  obtain ⟨c1, c2, c3, c4, c5, c6, c7⟩ := h3
  have hb3 : (rloop last (rstep last (rloop last s0 0 pre) pre.length sel) (pre.length + 1) region).body
      = (pre ++ [selDone sel repl] ++ region.map mark) ++ endI :: post := by rw [c3]
  have h4 := rstep_del_closing_end last _ (pre ++ [selDone sel repl] ++ region.map mark) post endI hend c1 n c2 hb3 c4 hendk
  simp only [List.length_append, List.length_singleton, List.length_map, c7, b3, if_true] at h4
  obtain ⟨e1, e2, e3, e4, e5, e6⟩ := h4
  obtain ⟨g1, g2, g3, g4, g5, g6, _⟩ := rloop_quiet last post _ (pre.length + 1 + region.length + 1) n n2 hpost e1 e2 e4 hd3
  have hsplit : pre ++ sel :: region ++ endI :: post = pre ++ ([sel] ++ (region ++ ([endI] ++ post))) := by simp
  rw [hsplit, rloop_append, List.singleton_append, rloop, rloop_append, List.singleton_append, rloop]
  simp only [Nat.zero_add]
  refine ⟨?_, ?_, ?_⟩
  · rw [g3, e3]; simp
  · rw [g5, e5, c5, b6, a5]
  · rw [g6, e6, c6, b7, a6]

/-- **C21 on an `else`.** The keyword and its arm are replaced; the `end` of the `if` stays. -/
theorem blockAlt_region_else (f : Func) (pre region post : List Instr) (sel endI : Instr) (repl : List Tok)
    (hbody : f.body = pre ++ sel :: region ++ endI :: post) (hpne : post ≠ [])
    (hsp : f.hasSpecial = true) (hentry : f.entry = []) (hexit : f.exit = [])
    (hpre : ∀ x ∈ pre, Clean x) (hreg : ∀ x ∈ region, Clean x) (hend : Clean endI) (hpost : ∀ x ∈ post, Clean x)
    (hsel : SelOnly sel repl) (hk : sel.kind = .else_) (hendk : endI.kind = .end_)
    (n n2 : Nat) (hd1 : depthAfter pre 1 = some (n + 1)) (hd2 : depthAfter region 0 = some 0) (hd3 : depthAfter post n = some n2) :
    lower f = (toks pre ++ repl ++ [endI.tok] ++ toks post, f.added) := by
  have hplen : post.length ≥ 1 := List.length_pos_iff.mpr hpne
  have hbody0 : modifyAt f.body (f.body.length - 1) (fun i => { i with mode := some .before })
      = pre ++ sel :: region ++ endI :: touchLast post hpne := by
    have : f.body = (pre ++ sel :: region ++ [endI]) ++ post := by rw [hbody]; simp
    rw [this, modifyAt_last _ post hpne]; simp
  have hres := rloop_blockAlt_else (f.body.length - 1) pre region (touchLast post hpne) sel endI repl
    { body := pre ++ sel :: region ++ endI :: touchLast post hpne, entry := [], exit := [], nlocals := f.nlocals }
    ⟨rfl, rfl, rfl, rfl, rfl⟩ rfl rfl rfl hpre hreg hend (touchLast_clean post hpne hpost) hsel hk hendk n n2 hd1 hd2
    (by rw [touchLast_depth]; exact hd3)
  obtain ⟨r1, _, r3⟩ := hres
  unfold lower resolveSpecial
  simp only [hsp, Bool.not_true, Bool.false_eq_true, if_false, hexit, hentry, List.isEmpty_nil, if_true, hbody0]
  simp only [emit, r1, r3]
  refine Prod.ext ?_ (by simp)
  simp only
  have hL : (pre ++ selDone sel repl :: List.map mark region ++ endI :: touchLast post hpne).length - 1
      = pre.length + region.length + 1 + post.length := by
    simp [touchLast_length]; omega
  rw [hL]
  have hsplit : pre ++ selDone sel repl :: List.map mark region ++ endI :: touchLast post hpne
      = pre ++ ([selDone sel repl] ++ (region.map mark ++ ([endI] ++ touchLast post hpne))) := by simp
  rw [hsplit, emitFrom_append, emitFrom_append, emitFrom_append, emitFrom_append]
  rw [emitFrom_clean _ pre _ hpre, emitFrom_clean _ _ _ (touchLast_clean post hpne hpost), touchLast_toks,
    emitFrom_marked _ region _ hreg (by simp; omega),
    emitFrom_clean _ [endI] _ (by intro x hx; simp at hx; subst hx; exact hend)]
  obtain ⟨s1, s2, s3⟩ := selDone_emit sel repl hsel
  simp [emitFrom, s1, s2, s3, toks]
  intro h; omega

end Orca.Lower
