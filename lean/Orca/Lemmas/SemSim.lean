import Orca.Lemmas.SemRuns
/-! The simulation: running the lowered program with the monitor off produces the outcome (trace included) that the
    monitor semantics defines for the annotated program. Here for programs without semantic-after on branches. -/
namespace Orca.Sem

variable {fns : List Callee}

mutual
/-- no branch carries a semantic-after annotation -/
def noSAI : Instr → Bool
  | .br _ _ sa _ | .brIf _ _ sa _ | .brTable _ _ sa _ _ => sa.isNone
  | .block _ _ _ _ body => noSAL body
  | .loop _ _ _ body => noSAL body
  | .ite _ _ _ _ _ t e _ => noSAL t && noSAL e
  | _ => true
def noSAL : List Instr → Bool
  | [] => true
  | i :: is => noSAI i && noSAL is
end

mutual
theorem pendingI_noSA (d : Nat) : ∀ i, noSAI i = true → pendingI d i = []
  | .op .., _ | .probe _, _ | .ret .., _ | .unreachable .., _ => by simp [pendingI]
  | .br _ _ sa _, h | .brIf _ _ sa _, h | .brTable _ _ sa _ _, h => by
    cases sa <;> simp_all [pendingI, noSAI]
  | .block _ _ _ _ body, h | .loop _ _ _ body, h => by
    simp only [noSAI] at h; simp [pendingI, pendingL_noSA (d + 1) body h]
  | .ite _ _ _ _ _ t e _, h => by
    simp only [noSAI, Bool.and_eq_true] at h
    simp [pendingI, pendingL_noSA (d + 1) t h.1, pendingL_noSA (d + 1) e h.2]
theorem pendingL_noSA (d : Nat) : ∀ p, noSAL p = true → pendingL d p = []
  | [], _ => by simp [pendingL]
  | i :: is, h => by
    simp only [noSAL, Bool.and_eq_true] at h
    simp [pendingL, pendingI_noSA d i h.1, pendingL_noSA d is h.2]
end

/-! ### rules for single instructions, monitor off -/

theorem leaveBlock_false (ann : Ann) (base : List Nat) (a : Nat) (ob : Out) :
    leaveBlock false ann base a ob = leaveBlock false {} base a ob := by
  cases ob with
  | br n pd s' => cases n <;> simp [leaveBlock]
  | _ => simp [leaveBlock]

theorem leaveBlock_ok_of {m ann base a ob} (h : ob.ok = true) : (leaveBlock m ann base a ob).ok = true := by
  cases ob with
  | br n pd s' => cases n <;> simp [leaveBlock]
  | stuck w => simp at h
  | _ => simp [leaveBlock]

theorem Runs1.block {fx a tk body s ob} (h : RunsL fns false fx body s ob) :
    Runs1 fns false fx (.block [] {} a tk body) s (leaveBlock false {} s.stack a ob) := by
  obtain ⟨f, e, ok⟩ := h
  exact ⟨f + 1, by simp [runOne, e], leaveBlock_ok_of ok⟩

theorem runOne_ite_false (fx : List Nat) (f : Nat) (b annT annE a tk t e he) (s : St) (v : Nat) (st : List Nat)
    (hs : s.stack = v :: st) :
    runOne fns false fx (f + 1) (.ite b annT annE a tk t e he) s
      = leaveBlock false {} st a (run fns false fx f (if v ≠ 0 then t else e) { s with stack := st }) := by
  simp only [runOne, Bool.false_eq_true, if_false, hs]
  by_cases hv : v ≠ 0
  · rw [if_pos hv, if_pos hv]; exact leaveBlock_false _ _ _ _
  · rw [if_neg hv, if_neg hv]; exact leaveBlock_false _ _ _ _

theorem Runs1.ite {fx a tk t e he s v st ob} (hs : s.stack = v :: st)
    (h : RunsL fns false fx (if v ≠ 0 then t else e) { s with stack := st } ob) :
    Runs1 fns false fx (.ite [] {} {} a tk t e he) s (leaveBlock false {} st a ob) := by
  obtain ⟨f, e', ok⟩ := h
  exact ⟨f + 1, by rw [runOne_ite_false fx f _ _ _ _ _ _ _ _ s v st hs, e'], leaveBlock_ok_of ok⟩

theorem Runs1.loop_normal {fx tk body s s'} (h : RunsL fns false fx body s (.normal s')) :
    Runs1 fns false fx (.loop [] {} tk body) s (.normal s') := by
  obtain ⟨f, e, _⟩ := h
  exact ⟨f + 1, by simp [runOne, e], rfl⟩

theorem Runs1.loop_again {fx tk body s pd s' o} (h : RunsL fns false fx body s (.br 0 pd s'))
    (h2 : Runs1 fns false fx (.loop [] {} tk body) { s' with stack := s.stack } o) :
    Runs1 fns false fx (.loop [] {} tk body) s o := by
  obtain ⟨f, e, _⟩ := h
  obtain ⟨g, e2, ok2⟩ := h2
  refine ⟨max f g + 1, ?_, ok2⟩
  simp only [runOne, Bool.false_eq_true, if_false]
  rw [run_mono_le e rfl (Nat.le_max_left _ _)]
  simp only
  exact runOne_mono_le e2 ok2 (Nat.le_max_right _ _)

theorem Runs1.loop_abrupt {fx tk body s ob o} (h : RunsL fns false fx body s ob)
    (ho : match ob with
          | .br (n + 1) pd s' => o = .br n pd s'
          | .ret s' => o = .ret s'
          | .trap s' => o = .trap s'
          | _ => False) :
    Runs1 fns false fx (.loop [] {} tk body) s o := by
  obtain ⟨f, e, _⟩ := h
  cases ob with
  | normal _ => simp at ho
  | stuck _ => simp at ho
  | br n pd s' =>
    cases n with
    | zero => simp at ho
    | succ n => simp at ho; subst ho; exact ⟨f + 1, by simp [runOne, e], rfl⟩
  | ret s' => simp at ho; subst ho; exact ⟨f + 1, by simp [runOne, e], rfl⟩
  | trap s' => simp at ho; subst ho; exact ⟨f + 1, by simp [runOne, e], rfl⟩

/-- a non-structural instruction under the monitor = its `before` probes, the bare instruction, its `after` probes -/
theorem runOne_op_monitor (fx fx' : List Nat) (f : Nat) (b a : List Nat) (t : OpK) (s : St) :
    runOne fns true fx (f + 1) (.op b a t) s
      = (runOne fns false fx' (f + 1) (.op [] [] t) (s.fire b)).onNormal (·.fire a) := by
  simp only [runOne, if_true, Bool.false_eq_true, if_false]
  cases stepTok t (s.fire b) with
  | ok s' => simp [Out.onNormal]
  | trap => simp [Out.onNormal]
  | stuck => simp [Out.onNormal]
  | call g =>
    simp only
    cases fns[g]? with
    | none => simp [Out.onNormal]
    | some c =>
      simp only
      by_cases hlt : s.stack.length < c.nparams
      · simp [hlt, Out.onNormal]
      · simp only [St.fire_stack, hlt, if_false]
        by_cases hlog : c.log = true
        · simp [hlog, Out.onNormal]
        · simp only [hlog]
          cases run fns false [] f c.body _ with
          | br n pd r => cases n <;> simp [callRet, Out.onNormal]
          | _ => simp [callRet, Out.onNormal]

theorem Runs1.of_eq {m fx i s o f} (e : runOne fns m fx f i s = o) (ok : o.ok = true) : Runs1 fns m fx i s o := ⟨f, e, ok⟩

end Orca.Sem

namespace Orca.Sem
variable {fns : List Callee}

/-- outcomes of monitored runs of programs without branch annotations never carry a pending probe -/
def Out.noPend : Out → Prop
  | .br _ pd _ => pd = none
  | _ => True

/-- outcome of a lowered block-like, from the body outcome of the lowered body -/
theorem leave_lowered {ann : Ann} {base : List Nat} {a : Nat} {ob : Out} (hp : ob.noPend) :
    Out.onNormal (fun x => x.fire ann.after) (leaveBlock false {} base a (Out.onNormal (fun x => x.fire ann.exit) ob))
      = leaveBlock true ann base a ob
    ∧ (leaveBlock true ann base a ob).noPend := by
  cases ob with
  | br n pd s' =>
    simp only [Out.noPend] at hp; subst hp
    cases n <;> simp [leaveBlock, Out.onNormal, saPs, Out.noPend]
  | _ => simp [leaveBlock, Out.onNormal, Out.noPend]

/-- the block-like instruction followed by its semantic-after probes -/
theorem RunsL.blocklike {fx i ps s o} (h : Runs1 fns false fx i s o) :
    RunsL fns false fx (i :: probes ps) s (o.onNormal (·.fire ps)) := by
  cases o with
  | normal s' => exact RunsL.cons_normal h (RunsL.probes_only ps)
  | br n pd s' => exact RunsL.cons_abrupt h rfl
  | ret s' => exact RunsL.cons_abrupt h rfl
  | trap s' => exact RunsL.cons_abrupt h rfl
  | stuck w => obtain ⟨_, _, ok⟩ := h; simp at ok

theorem lower_sim_aux (fx : List Nat) : ∀ f : Nat,
    (∀ p s o, noSAL p = true → run fns true fx f p s = o → o.ok = true →
        RunsL fns false [] (lowerL fx p) s o ∧ o.noPend)
    ∧ (∀ i s o, noSAI i = true → runOne fns true fx f i s = o → o.ok = true →
        RunsL fns false [] (lower fx i) s o ∧ o.noPend) := by
  intro f
  induction f with
  | zero =>
    constructor
    · intro p s o _ h ok; simp [run] at h; subst h; simp at ok
    · intro i s o _ h ok; simp [runOne] at h; subst h; simp at ok
  | succ f ih =>
    obtain ⟨ihL, ihO⟩ := ih
    constructor
    · intro p s o hns h ok
      cases p with
      | nil => simp [run] at h; subst h; exact ⟨by simpa [lowerL] using RunsL.nil, trivial⟩
      | cons i is =>
        simp only [noSAL, Bool.and_eq_true] at hns
        rw [run] at h
        simp only [lowerL]
        cases hx : runOne fns true fx f i s with
        | normal s' =>
          rw [hx] at h
          have h1 := ihO i s _ hns.1 hx rfl
          have h2 := ihL is s' o hns.2 h ok
          exact ⟨RunsL.append h1.1 (fun s'' e => by cases e; exact h2.1) (by simp [Out.isNormal]), h2.2⟩
        | stuck w => rw [hx] at h; subst h; simp at ok
        | br n pd s' =>
          rw [hx] at h; subst h
          have h1 := ihO i s _ hns.1 hx rfl
          exact ⟨RunsL.append h1.1 (fun s'' e => by cases e) (fun _ => rfl), h1.2⟩
        | ret s' =>
          rw [hx] at h; subst h
          have h1 := ihO i s _ hns.1 hx rfl
          exact ⟨RunsL.append h1.1 (fun s'' e => by cases e) (fun _ => rfl), h1.2⟩
        | trap s' =>
          rw [hx] at h; subst h
          have h1 := ihO i s _ hns.1 hx rfl
          exact ⟨RunsL.append h1.1 (fun s'' e => by cases e) (fun _ => rfl), h1.2⟩
    · intro i s o hns h ok
      cases i with
      | op b a t =>
        rw [runOne_op_monitor fx [] f b a t s] at h
        simp only [lower]
        have okx : (runOne fns false [] (f + 1) (.op [] [] t) (s.fire b)).ok = true := by
          rw [← h] at ok; simpa using ok
        have hr : Runs1 fns false [] (.op [] [] t) (s.fire b) _ := Runs1.of_eq rfl okx
        subst h
        refine ⟨?_, ?_⟩
        · rw [List.append_assoc]
          apply RunsL.probes_pre
          exact RunsL.blocklike hr
        · cases hq : runOne fns false [] (f + 1) (.op [] [] t) (s.fire b) with
          | br n pd s' =>
            -- a non-structural instruction never branches
            exfalso
            simp only [runOne, Bool.false_eq_true, if_false] at hq
            cases hst : stepTok t (s.fire b) with
            | ok s' => rw [hst] at hq; simp at hq
            | trap => rw [hst] at hq; simp at hq
            | stuck => rw [hst] at hq; simp at hq
            | call g =>
              rw [hst] at hq
              simp only at hq
              cases hc : fns[g]? with
              | none => rw [hc] at hq; simp at hq
              | some c =>
                rw [hc] at hq
                simp only at hq
                split at hq
                · simp at hq
                · split at hq
                  · simp at hq
                  · cases hcr : run fns false [] f c.body
                        { stack := [], locals := (List.take c.nparams (s.fire b).stack).reverse ++ List.replicate c.nlocals 0,
                          globals := (s.fire b).globals, mem := (s.fire b).mem, trace := (s.fire b).trace } with
                    | br k _ _ => rw [hcr] at hq; cases k <;> simp [callRet] at hq
                    | _ => rw [hcr] at hq; simp [callRet] at hq
          | _ => simp [Out.onNormal, Out.noPend]
      | probe id =>
        simp [runOne] at h; subst h
        exact ⟨by simpa [lower] using RunsL.cons_normal Runs1.probe RunsL.nil, trivial⟩
      | block b ann a tk body =>
        simp only [noSAI] at hns
        simp only [runOne, if_true] at h
        subst h
        have okb := leaveBlock_ok ok
        have hb := ihL body _ _ hns rfl okb
        have hw := RunsL.wrapped (fns := fns) ann.entry ann.exit (s := s.fire b) hb.1
        have hblk := Runs1.block (fns := fns) (a := a) (tk := tk) hw
        have hall := RunsL.blocklike (ps := ann.after) hblk
        have hl := leave_lowered (ann := ann) (base := (s.fire b).stack) (a := a) hb.2
        rw [hl.1] at hall
        simp only [lower, pendingL_noSA 0 body hns, flagChain, List.nil_append]
        exact ⟨RunsL.probes_pre b hall, hl.2⟩
      | loop b ann tk body =>
        simp only [noSAI] at hns
        simp only [runOne, if_true] at h
        simp only [lower]
        cases hrb : run fns true fx f body ((s.fire b).fire ann.entry) with
        | stuck w => rw [hrb] at h; subst h; simp at ok
        | normal s' =>
          rw [hrb] at h; simp only at h; subst h
          have hb := ihL body _ _ hns hrb rfl
          have hw := RunsL.wrapped (fns := fns) ann.entry ann.exit (s := s.fire b) hb.1
          have hl := Runs1.loop_normal (fns := fns) (tk := tk) hw
          refine ⟨RunsL.probes_pre b ?_, trivial⟩
          have := RunsL.blocklike (ps := ann.after) hl
          simpa [Out.onNormal] using this
        | ret s' =>
          rw [hrb] at h; simp only at h; subst h
          have hb := ihL body _ _ hns hrb rfl
          have hw := RunsL.wrapped (fns := fns) ann.entry ann.exit (s := s.fire b) hb.1
          have hl := Runs1.loop_abrupt (fns := fns) (tk := tk) (o := .ret s') hw (by simp [Out.onNormal])
          exact ⟨RunsL.probes_pre b (RunsL.cons_abrupt hl rfl), trivial⟩
        | trap s' =>
          rw [hrb] at h; simp only at h; subst h
          have hb := ihL body _ _ hns hrb rfl
          have hw := RunsL.wrapped (fns := fns) ann.entry ann.exit (s := s.fire b) hb.1
          have hl := Runs1.loop_abrupt (fns := fns) (tk := tk) (o := .trap s') hw (by simp [Out.onNormal])
          exact ⟨RunsL.probes_pre b (RunsL.cons_abrupt hl rfl), trivial⟩
        | br n pd s' =>
          rw [hrb] at h
          have hb := ihL body _ _ hns hrb rfl
          have hpd : pd = none := hb.2
          subst hpd
          have hw := RunsL.wrapped (fns := fns) ann.entry ann.exit (s := s.fire b) hb.1
          cases n with
          | succ n =>
            simp only at h; subst h
            have hl := Runs1.loop_abrupt (fns := fns) (tk := tk) (o := .br n none s') hw (by simp [Out.onNormal])
            exact ⟨RunsL.probes_pre b (RunsL.cons_abrupt hl rfl), rfl⟩
          | zero =>
            simp only at h
            -- the next iteration: the induction hypothesis for the loop itself (its `before` slot emptied)
            have hnext := ihO (.loop [] ann tk body) _ o (by simpa [noSAI] using hns) h ok
            simp only [lower] at hnext
            rw [show probes [] = [] from rfl, List.nil_append] at hnext
            refine ⟨RunsL.probes_pre b ?_, hnext.2⟩
            rcases RunsL.cons_inv hnext.1 with ⟨s2, h1, h2⟩ | ⟨h1, hx⟩
            · exact RunsL.cons_normal (Runs1.loop_again (fns := fns) hw h1) h2
            · exact RunsL.cons_abrupt (Runs1.loop_again (fns := fns) hw h1) hx
      | ite b annT annE a tk t e he =>
        simp only [noSAI, Bool.and_eq_true] at hns
        simp only [runOne, if_true] at h
        simp only [lower, pendingL_noSA 0 t hns.1, pendingL_noSA 0 e hns.2, flagChain, List.nil_append, List.append_nil]
        cases hst : (s.fire b).stack with
        | nil => rw [hst] at h; subst h; simp at ok
        | cons v st =>
          rw [hst] at h
          simp only at h
          by_cases hv : v ≠ 0
          · rw [if_pos hv] at h
            subst h
            have okb := leaveBlock_ok ok
            have hb := ihL t _ _ hns.1 rfl okb
            have hw := RunsL.wrapped (fns := fns) annT.entry annT.exit
              (s := { (s.fire b) with stack := st }) hb.1
            have hi := Runs1.ite (fns := fns) (a := a) (tk := tk) (he := he)
              (e := probes annE.entry ++ lowerL fx e ++ probes annE.exit) (s := s.fire b) hst (by rw [if_pos hv]; exact hw)
            have hall := RunsL.blocklike (ps := annT.after ++ annE.after) hi
            have hl := leave_lowered (ann := { annT with after := annT.after ++ annE.after }) (base := st) (a := a) hb.2
            rw [hl.1] at hall
            exact ⟨RunsL.probes_pre b hall, hl.2⟩
          · rw [if_neg hv] at h
            subst h
            have okb := leaveBlock_ok ok
            have hb := ihL e _ _ hns.2 rfl okb
            have hw := RunsL.wrapped (fns := fns) annE.entry annE.exit
              (s := { (s.fire b) with stack := st }) hb.1
            have hi := Runs1.ite (fns := fns) (a := a) (tk := tk) (he := he)
              (t := probes annT.entry ++ lowerL fx t ++ probes annT.exit) (s := s.fire b) hst (by rw [if_neg hv]; exact hw)
            have hall := RunsL.blocklike (ps := annT.after ++ annE.after) hi
            have hl := leave_lowered (ann := { annE with after := annT.after ++ annE.after }) (base := st) (a := a) hb.2
            rw [hl.1] at hall
            exact ⟨RunsL.probes_pre b hall, hl.2⟩
      | br b a sa n =>
        simp only [noSAI, Option.isNone_iff_eq_none] at hns; subst hns
        simp [runOne] at h; subst h
        simp only [lower]
        refine ⟨?_, rfl⟩
        rw [List.append_assoc]
        exact RunsL.probes_pre b (RunsL.cons_abrupt ⟨1, by simp [runOne], rfl⟩ rfl)
      | brIf b a sa n =>
        simp only [noSAI, Option.isNone_iff_eq_none] at hns; subst hns
        simp only [runOne, if_true] at h
        simp only [lower]
        rw [List.append_assoc]
        cases hst : (s.fire b).stack with
        | nil => rw [hst] at h; subst h; simp at ok
        | cons v st =>
          rw [hst] at h
          simp only at h
          by_cases hv : v ≠ 0
          · rw [if_pos hv] at h; subst h
            have h1 : Runs1 fns false [] (.brIf [] [] none n) (s.fire b) (.br n none { (s.fire b) with stack := st }) :=
              ⟨1, by simp only [runOne, Bool.false_eq_true, if_false, hst]; rw [if_pos hv], rfl⟩
            exact ⟨RunsL.probes_pre b (RunsL.cons_abrupt h1 rfl), rfl⟩
          · rw [if_neg hv] at h; subst h
            refine ⟨RunsL.probes_pre b ?_, trivial⟩
            have h1 : Runs1 fns false [] (.brIf [] [] none n) (s.fire b) (.normal { (s.fire b) with stack := st }) :=
              ⟨1, by simp only [runOne, Bool.false_eq_true, if_false, hst]; rw [if_neg hv], rfl⟩
            have := RunsL.blocklike (ps := a) h1
            simpa [Out.onNormal, saPs] using this
      | brTable b a sa ts d =>
        simp only [noSAI, Option.isNone_iff_eq_none] at hns; subst hns
        simp only [runOne, if_true] at h
        simp only [lower]
        rw [List.append_assoc]
        cases hst : (s.fire b).stack with
        | nil => rw [hst] at h; subst h; simp at ok
        | cons v st =>
          rw [hst] at h; simp only at h; subst h
          have h1 : Runs1 fns false [] (.brTable [] [] none ts d) (s.fire b)
              (.br ((ts[v]?).getD d) none { (s.fire b) with stack := st }) :=
            ⟨1, by simp only [runOne, Bool.false_eq_true, if_false, hst], rfl⟩
          exact ⟨RunsL.probes_pre b (RunsL.cons_abrupt h1 rfl), rfl⟩
      | ret b a =>
        simp [runOne] at h; subst h
        simp only [lower]
        refine ⟨?_, trivial⟩
        rw [List.append_assoc, List.append_assoc]
        apply RunsL.probes_pre b
        apply RunsL.probes_pre fx
        exact RunsL.cons_abrupt ⟨1, by simp [runOne], rfl⟩ rfl
      | unreachable b a =>
        simp [runOne] at h; subst h
        simp only [lower]
        refine ⟨?_, trivial⟩
        rw [List.append_assoc, List.append_assoc]
        apply RunsL.probes_pre b
        apply RunsL.probes_pre fx
        exact RunsL.cons_abrupt ⟨1, by simp [runOne], rfl⟩ rfl

end Orca.Sem

namespace Orca.Sem
variable {fns : List Callee}

def FOut.ok : FOut → Bool
  | .stuck _ => false
  | _ => true

theorem lower_sim {fx : List Nat} {f : Nat} {p : List Instr} {s : St} {o : Out}
    (hns : noSAL p = true) (h : run fns true fx f p s = o) (ok : o.ok = true) :
    RunsL fns false [] (lowerL fx p) s o ∧ o.noPend :=
  (lower_sim_aux (fns := fns) fx f).1 p s o hns h ok

theorem finish_ok {m F base o} (h : (finish m F base o).ok = true) : o.ok = true := by
  cases o <;> simp_all [finish, FOut.ok]

/-- **function level**: the lowered function (entry probes, wrapper block, exit probes), run with the monitor off on
    an activation that starts with an empty operand stack, gives exactly what the monitor semantics defines for the
    annotated function: results, trap, globals, memory, locals and the trace with every probe at its defining moment -/
theorem lowerF_sim (F : Func) (hns : noSAL F.body = true) (s : St) (hs : s.stack = []) (f : Nat)
    (ok : (runFunc fns true f F s).ok = true) :
    ∃ g, runFunc fns false g (lowerF F) s = runFunc fns true f F s := by
  unfold runFunc at ok ⊢
  simp only [if_true] at ok ⊢
  have oko := finish_ok ok
  generalize ho : run fns true F.exit f F.body (s.fire F.entry) = o at ok oko
  have hsim := lower_sim hns ho oko
  have hnp := hsim.2
  have hsimE := RunsL.probes_post F.endBefore hsim.1
  by_cases hex : F.exit = []
  · -- no exit probes: no wrapper
    have hbody : (lowerF F).body = probes F.entry ++ (lowerL [] F.body ++ probes F.endBefore) := by simp [lowerF, hex]
    have hr : RunsL fns false [] ((lowerF F).body) s (o.onNormal (·.fire F.endBefore)) := by
      rw [hbody]; apply RunsL.probes_pre; have h1 := hsimE; rw [hex] at h1; exact h1
    obtain ⟨g, eg, _⟩ := hr
    refine ⟨g, ?_⟩
    have : (lowerF F).exit = [] := rfl
    have this2 : (lowerF F).endBefore = [] := rfl
    simp only [Bool.false_eq_true, if_false, this, eg]
    cases o with
    | normal s1 => simp [finish, lowerF, hex, Out.onNormal]
    | br n pd s1 =>
      simp only [Out.noPend] at hnp; subst hnp
      cases n <;> simp [finish, lowerF, hex, saPs, Out.onNormal]
    | ret s1 => simp [finish, lowerF, Out.onNormal]
    | trap s1 => simp [finish, Out.onNormal]
    | stuck w => simp at oko
  · have hbody : (lowerF F).body
        = probes F.entry ++ ([Instr.block [] {} F.nres "block:functype" (lowerL F.exit F.body ++ probes F.endBefore)] ++ probes F.exit) := by
      simp [lowerF, hex]
    have hblk := Runs1.block (fns := fns) (a := F.nres) (tk := "block:functype") hsimE
    have hall := RunsL.blocklike (ps := F.exit) hblk
    have hr : RunsL fns false [] ((lowerF F).body) s
        (Out.onNormal (fun x => x.fire F.exit) (leaveBlock false {} (s.fire F.entry).stack F.nres (o.onNormal (·.fire F.endBefore)))) := by
      rw [hbody]; exact RunsL.probes_pre F.entry hall
    obtain ⟨g, eg, _⟩ := hr
    refine ⟨g, ?_⟩
    have : (lowerF F).exit = [] := rfl
    simp only [Bool.false_eq_true, if_false, this, eg]
    cases o with
    | normal s1 => simp [finish, lowerF, leaveBlock, Out.onNormal]
    | br n pd s1 =>
      simp only [Out.noPend] at hnp; subst hnp
      cases n with
      | zero => simp [finish, lowerF, leaveBlock, Out.onNormal, saPs, St.exitTo, hs, St.fire, List.take_take]
      | succ n => simp [finish, FOut.ok] at ok
    | ret s1 => simp [finish, lowerF, leaveBlock, Out.onNormal]
    | trap s1 => simp [finish, leaveBlock, Out.onNormal]
    | stuck w => simp at oko

end Orca.Sem
