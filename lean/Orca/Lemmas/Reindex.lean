import Orca.Model.Reindex

namespace Orca.Reindex

theorem getElem?_mid (A B : List Item) (v : Item) : (A ++ v :: B)[A.length]? = some v := by
  induction A with
  | nil => simp
  | cons a A ih => simpa using ih

theorem eraseIdx_mid (A B : List Item) (v : Item) : (A ++ v :: B).eraseIdx A.length = A ++ B := by
  induction A with
  | nil => simp
  | cons a A ih => simpa using ih

theorem insertIdx_mid (A B : List Item) (v : Item) : (A ++ B).insertIdx A.length v = A ++ v :: B := by
  induction A with
  | nil => simp
  | cons a A ih => simpa using ih

/-- phase 1: indices below `orig` -/
theorem phase1 (orig : Nat) (vs : List Item) :
    ∀ (K rest M : List Item) (idx ni nd : Nat), idx = K.length + nd → idx + vs.length ≤ orig →
    rloop orig { live := K ++ (vs ++ (rest ++ M)), numImported := ni, numDeleted := nd } idx vs =
      { live := K ++ (vs.filter keepImp ++ (rest ++ (M ++ vs.filter keepLoc))),
        numImported := ni - (vs.length - (vs.filter keepImp).length),
        numDeleted := nd + (vs.length - (vs.filter keepImp).length) } := by
  induction vs with
  | nil => intro K rest M idx ni nd _ _; simp [rloop]
  | cons v vs ih =>
    intro K rest M idx ni nd hidx hle
    have hlt : idx < orig := by simp at hle; omega
    have hp : idx - nd = K.length := by omega
    have hfl : (vs.filter keepImp).length ≤ vs.length := List.length_filter_le _ _
    simp only [rloop, rstep, hlt, if_true, hp]
    by_cases hdel : v.del
    · -- deleted: removed, whatever it is
      simp only [hdel, if_true]
      rw [show K ++ (v :: vs ++ (rest ++ M)) = K ++ v :: (vs ++ (rest ++ M)) by simp, eraseIdx_mid]
      rw [ih K rest M (idx + 1) (ni - 1) (nd + 1) (by omega) (by simp at hle; omega)]
      have h1 : keepImp v = false := by simp [keepImp, hdel]
      have h2 : keepLoc v = false := by simp [keepLoc, hdel]
      simp [h1, h2]
      try omega
    · by_cases himp : v.imp
      · -- kept import: stays, joins K
        simp only [himp, hdel, Bool.not_true, Bool.false_eq_true, if_false]
        have h := ih (K ++ [v]) rest M (idx + 1) ni nd (by simp; omega) (by simp at hle; omega)
        simp only [List.append_assoc, List.singleton_append] at h
        rw [show K ++ (v :: vs ++ (rest ++ M)) = K ++ v :: (vs ++ (rest ++ M)) by simp, h]
        have h1 : keepImp v = true := by simp [keepImp, himp, hdel]
        have h2 : keepLoc v = false := by simp [keepLoc, himp]
        simp [h1, h2]
        try omega
      · -- local below orig (a replaced import): moved to the end
        simp only [himp, hdel, Bool.not_false, Bool.false_eq_true, if_false, if_true]
        rw [show K ++ (v :: vs ++ (rest ++ M)) = K ++ v :: (vs ++ (rest ++ M)) by simp,
          getElem?_mid, eraseIdx_mid]
        simp only
        have h := ih K rest (M ++ [v]) (idx + 1) (ni - 1) (nd + 1) (by omega) (by simp at hle; omega)
        simp only [List.append_assoc] at h ⊢
        rw [h]
        have h1 : keepImp v = false := by simp [keepImp, himp]
        have h2 : keepLoc v = true := by simp [keepLoc, himp, hdel]
        simp [h1, h2]
        try omega

/-- phase 2: indices from `orig` on -/
theorem phase2 (orig : Nat) (vs : List Item) :
    ∀ (K U L M : List Item) (idx nd : Nat), idx = K.length + U.length + L.length + nd → orig ≤ idx →
    rloop orig { live := K ++ (U ++ (L ++ (vs ++ M))), numImported := K.length + U.length, numDeleted := nd } idx vs =
      { live := K ++ ((U ++ vs.filter keepImp) ++ ((L ++ vs.filter keepLoc) ++ M)),
        numImported := K.length + U.length + (vs.filter keepImp).length,
        numDeleted := nd + (vs.filter (fun x => x.del)).length } := by
  induction vs with
  | nil => intro K U L M idx nd _ _; simp [rloop]
  | cons v vs ih =>
    intro K U L M idx nd hidx hle
    have hlt : ¬ idx < orig := by omega
    have hp : idx - nd = (K ++ (U ++ L)).length := by simp; omega
    simp only [rloop, rstep, hlt, if_false, hp]
    by_cases hdel : v.del
    · simp only [hdel, if_true]
      rw [show K ++ (U ++ (L ++ (v :: vs ++ M))) = (K ++ (U ++ L)) ++ v :: (vs ++ M) by simp, eraseIdx_mid]
      have h := ih K U L M (idx + 1) (nd + 1) (by omega) (by omega)
      simp only [List.append_assoc] at h ⊢
      rw [h]
      have h1 : keepImp v = false := by simp [keepImp, hdel]
      have h2 : keepLoc v = false := by simp [keepLoc, hdel]
      simp [h1, h2, hdel]
      try omega
    · by_cases himp : v.imp
      · simp only [himp, hdel, Bool.false_eq_true, if_false, if_true]
        rw [show K ++ (U ++ (L ++ (v :: vs ++ M))) = (K ++ (U ++ L)) ++ v :: (vs ++ M) by simp,
          getElem?_mid, eraseIdx_mid]
        simp only
        rw [show (K ++ (U ++ L)) ++ (vs ++ M) = (K ++ U) ++ (L ++ (vs ++ M)) by simp,
          show K.length + U.length = (K ++ U).length by simp, insertIdx_mid]
        have h := ih K (U ++ [v]) L M (idx + 1) nd (by simp; omega) (by omega)
        simp only [List.append_assoc, List.length_append, List.length_singleton, List.singleton_append] at h ⊢
        rw [show K.length + U.length + 1 = K.length + (U.length + 1) by omega, h]
        have h1 : keepImp v = true := by simp [keepImp, himp, hdel]
        have h2 : keepLoc v = false := by simp [keepLoc, himp]
        simp [h1, h2, hdel]
        try omega
      · simp only [himp, hdel, Bool.false_eq_true, if_false]
        have h := ih K U (L ++ [v]) M (idx + 1) nd (by simp; omega) (by omega)
        simp only [List.append_assoc, List.singleton_append] at h
        rw [show K ++ (U ++ (L ++ (v :: vs ++ M))) = K ++ (U ++ (L ++ v :: (vs ++ M))) by simp, h]
        have h1 : keepImp v = false := by simp [keepImp, himp]
        have h2 : keepLoc v = true := by simp [keepLoc, himp, hdel]
        simp [h1, h2, hdel]

theorem rloop_append (orig : Nat) (as bs : List Item) : ∀ (st : RS) (idx : Nat),
    rloop orig st idx (as ++ bs) = rloop orig (rloop orig st idx as) (idx + as.length) bs := by
  induction as with
  | nil => intro st idx; simp [rloop]
  | cons a as ih => intro st idx; simp [rloop, ih]; congr 1; omega

theorem reorganise_eq (orig : Nat) (xs : List Item) (h : orig ≤ xs.length) :
    reorganise orig xs = closed orig xs := by
  unfold reorganise closed
  conv => lhs; rw [← List.take_append_drop orig xs]
  rw [rloop_append]
  have h1 := phase1 orig (xs.take orig) [] (xs.drop orig) [] 0 orig 0 (by simp) (by simp; omega)
  simp only [List.nil_append, List.append_nil] at h1
  rw [h1]
  have hlen : (xs.take orig).length = orig := by simp [h]
  have hk : ((xs.take orig).filter keepImp).length ≤ orig := by
    have := List.length_filter_le keepImp (xs.take orig); omega
  have h2 := phase2 orig (xs.drop orig) ((xs.take orig).filter keepImp) [] []
    ((xs.take orig).filter keepLoc) (0 + (xs.take orig).length)
    (0 + ((xs.take orig).length - ((xs.take orig).filter keepImp).length)) (by simp; omega) (by omega)
  simp only [List.nil_append, List.length_nil, Nat.add_zero] at h2
  rw [show orig - ((xs.take orig).length - ((xs.take orig).filter keepImp).length)
      = ((xs.take orig).filter keepImp).length by omega]
  rw [h2]
  simp


end Orca.Reindex
