import Orca.Lemmas.Idem
import Orca.Lemmas.Preserve
/-!
C05, the part that holds, for histories: after any history of operations that set no `recalculate_ids` flag (injections of
any kind, initialiser changes, `add_global`, exports added or deleted, data segments) on a parsed module, encoding leaves the
state as it is, so encoding again gives the same module.
-/
namespace Orca.Edit
open Orca.Reindex

/-- what `encode_twice_same` needs besides the vector invariant -/
structure IdemInv (s : St) : Prop where
  quiet : NoReindexPending s
  inRange : ∀ r ∈ allRefs s, InRange s r
  kg : KeysNodup s.ginit
  kc : KeysNodup s.code

/-- the operations that set no flag, with the side conditions under which the caller's references make sense -/
def QuietOp (s : St) : Op → Prop
  | .inject _ sites => ∀ r ∈ sites, InRange s r
  | .modGlobalInit _ sites => ∀ r ∈ sites, InRange s r
  | .addExport r => InRange s r
  | .deleteExport _ => True
  | .addData mem sites => InRange s mem ∧ ∀ r ∈ sites, InRange s r
  | .addGlobal uid sites => (∀ p ∈ s.ginit, p.1 ≠ uid) ∧ ∀ r ∈ sites, InRange s r
  | .iterAddGlobal uid sites => (∀ p ∈ s.ginit, p.1 ≠ uid) ∧ ∀ r ∈ sites, InRange s r
  | _ => False

theorem keysNodup_setAssoc (l : List (Nat × List Ref)) (k : Nat) (v : List Ref) (h : KeysNodup l) : KeysNodup (setAssoc l k v) := by
  unfold setAssoc
  split
  · have : (l.map (fun p => if p.1 == k then (k, v) else p)).map (fun (p : Nat × List Ref) => p.1) = l.map (fun p => p.1) := by
      rw [List.map_map]
      apply List.map_congr_left
      intro p _
      simp only [Function.comp]
      by_cases hp : p.1 = k
      · simp [hp]
      · simp [hp]
    unfold KeysNodup; rw [this]; exact h
  · rename_i hany
    unfold KeysNodup
    rw [List.map_append, List.nodup_append]
    refine ⟨h, by simp, ?_⟩
    intro a ha b hb
    simp only [List.map_cons, List.map_nil, List.mem_singleton] at hb
    subst hb
    intro hab
    apply hany
    rw [List.any_eq_true]
    obtain ⟨p, hp, hpa⟩ := List.mem_map.mp ha
    exact ⟨p, hp, by simp [hpa, hab]⟩

theorem mem_flatMap_setAssoc (l : List (Nat × List Ref)) (k : Nat) (v : List Ref) (r : Ref)
    (h : r ∈ (setAssoc l k v).flatMap (fun (p : Nat × List Ref) => p.2)) :
    r ∈ l.flatMap (fun (p : Nat × List Ref) => p.2) ∨ r ∈ v := by
  unfold setAssoc at h
  split at h
  · simp only [List.mem_flatMap, List.mem_map] at h
    obtain ⟨p, ⟨q, hq, rfl⟩, hr⟩ := h
    by_cases hqk : (q.1 == k) = true
    · simp [hqk] at hr; exact .inr hr
    · simp [hqk] at hr; exact .inl (List.mem_flatMap.mpr ⟨q, hq, hr⟩)
  · simp only [List.flatMap_append, List.mem_append, List.flatMap_cons, List.flatMap_nil, List.append_nil] at h
    exact h

theorem map_fst_set (l : List (Ref × Bool)) (i : Nat) (e : Ref × Bool) (h : l[i]? = some e) (b : Bool) :
    (l.set i (e.1, b)).map (fun (x : Ref × Bool) => x.1) = l.map (fun (x : Ref × Bool) => x.1) := by
  induction l generalizing i with
  | nil => simp at h
  | cons a l ih =>
    cases i with
    | zero => simp at h; subst h; simp
    | succ i => simp at h; simp [ih i h]

/-- references stay in range when vectors only grow -/
theorem InRange.mono {s s' : St} (hf : s'.f.items = s.f.items) (hm : s'.m.items = s.m.items)
    (hg : ∃ x, s'.g.items = s.g.items ++ x) {r : Ref} (h : InRange s r) : InRange s' r := by
  obtain ⟨item, hi⟩ := h
  obtain ⟨x, hx⟩ := hg
  cases hsp : r.sp with
  | F => refine ⟨item, ?_⟩; simp only [hsp, St.space] at hi ⊢; rw [hf]; exact hi
  | M => refine ⟨item, ?_⟩; simp only [hsp, St.space] at hi ⊢; rw [hm]; exact hi
  | G =>
    refine ⟨item, ?_⟩
    simp only [hsp, St.space] at hi ⊢
    rw [hx, List.getElem?_append_left (getElem?_lt hi)]; exact hi

theorem InRange.same {s s' : St} (hf : s'.f = s.f) (hg : s'.g = s.g) (hm : s'.m = s.m) {r : Ref} (h : InRange s r) : InRange s' r := by
  obtain ⟨item, hi⟩ := h
  refine ⟨item, ?_⟩
  cases hsp : r.sp <;> simp only [hsp, St.space] at hi ⊢
  · rw [hf]; exact hi
  · rw [hg]; exact hi
  · rw [hm]; exact hi

theorem mem_allRefs (s : St) (r : Ref) : r ∈ allRefs s ↔
    r ∈ s.ginit.flatMap (fun (p : Nat × List Ref) => p.2) ∨ r ∈ s.exports.map (fun (e : Ref × Bool) => e.1) ∨ r ∈ s.elems ∨ r ∈ s.raws
      ∨ r ∈ s.code.flatMap (fun (p : Nat × List Ref) => p.2) ∨ r ∈ s.datas.flatMap (fun (d : Ref × List Ref) => d.1 :: d.2)
      ∨ r ∈ s.start.toList := by
  simp only [allRefs, List.mem_append, or_assoc]

theorem idemInv_step (s : St) (op : Op) (hq : QuietOp s op) (h : IdemInv s) : IdemInv (step s op).1 := by
  obtain ⟨⟨qf, qg, qm⟩, hr, kg, kc⟩ := h
  have hr' := fun r => (mem_allRefs s r).mp
  cases op with
  | inject id sites =>
    simp only [QuietOp] at hq
    show IdemInv (inject s id sites).1
    unfold inject
    split
    · exact ⟨⟨qf, qg, qm⟩, hr, kg, kc⟩
    · split
      · exact ⟨⟨qf, qg, qm⟩, hr, kg, kc⟩
      · refine ⟨⟨qf, qg, qm⟩, ?_, kg, keysNodup_setAssoc _ _ _ kc⟩
        intro r hm
        apply InRange.same rfl rfl rfl
        rcases (mem_allRefs _ r).mp hm with h1 | h1 | h1 | h1 | h1 | h1 | h1
        · exact hr r ((mem_allRefs s r).mpr (.inl h1))
        · exact hr r ((mem_allRefs s r).mpr (.inr (.inl h1)))
        · exact hr r ((mem_allRefs s r).mpr (.inr (.inr (.inl h1))))
        · exact hr r ((mem_allRefs s r).mpr (.inr (.inr (.inr (.inl h1)))))
        · rcases mem_flatMap_setAssoc _ _ _ r h1 with h2 | h2
          · exact hr r ((mem_allRefs s r).mpr (.inr (.inr (.inr (.inr (.inl h2))))))
          · simp only [List.mem_append] at h2
            rcases h2 with h2 | h2
            · rename_i it _ _
              have : r ∈ s.code.flatMap (fun (p : Nat × List Ref) => p.2) := by
                have := lookup_subset s.code it.uid r h2
                exact this
              exact hr r ((mem_allRefs s r).mpr (.inr (.inr (.inr (.inr (.inl this))))))
            · exact hq r h2
        · exact hr r ((mem_allRefs s r).mpr (.inr (.inr (.inr (.inr (.inr (.inl h1)))))))
        · exact hr r ((mem_allRefs s r).mpr (.inr (.inr (.inr (.inr (.inr (.inr h1)))))))
  | modGlobalInit id sites =>
    simp only [QuietOp] at hq
    show IdemInv (modGlobalInit s id sites).1
    unfold modGlobalInit
    split
    · split
      · exact ⟨⟨qf, qg, qm⟩, hr, kg, kc⟩
      · refine ⟨⟨qf, qg, qm⟩, ?_, keysNodup_setAssoc _ _ _ kg, kc⟩
        intro r hm
        apply InRange.same rfl rfl rfl
        rcases (mem_allRefs _ r).mp hm with h1 | h1 | h1 | h1 | h1 | h1 | h1
        · rcases mem_flatMap_setAssoc _ _ _ r h1 with h2 | h2
          · exact hr r ((mem_allRefs s r).mpr (.inl h2))
          · exact hq r h2
        · exact hr r ((mem_allRefs s r).mpr (.inr (.inl h1)))
        · exact hr r ((mem_allRefs s r).mpr (.inr (.inr (.inl h1))))
        · exact hr r ((mem_allRefs s r).mpr (.inr (.inr (.inr (.inl h1)))))
        · exact hr r ((mem_allRefs s r).mpr (.inr (.inr (.inr (.inr (.inl h1))))))
        · exact hr r ((mem_allRefs s r).mpr (.inr (.inr (.inr (.inr (.inr (.inl h1)))))))
        · exact hr r ((mem_allRefs s r).mpr (.inr (.inr (.inr (.inr (.inr (.inr h1)))))))
    · exact ⟨⟨qf, qg, qm⟩, hr, kg, kc⟩
  | addExport x =>
    simp only [QuietOp] at hq
    refine ⟨⟨qf, qg, qm⟩, ?_, kg, kc⟩
    intro r hm
    apply InRange.same (s := s) rfl rfl rfl
    rcases (mem_allRefs _ r).mp hm with h1 | h1 | h1 | h1 | h1 | h1 | h1
    · exact hr r ((mem_allRefs s r).mpr (.inl h1))
    · simp only [step, List.map_append, List.mem_append, List.map_cons, List.map_nil, List.mem_singleton] at h1
      rcases h1 with h1 | rfl
      · exact hr r ((mem_allRefs s r).mpr (.inr (.inl h1)))
      · exact hq
    · exact hr r ((mem_allRefs s r).mpr (.inr (.inr (.inl h1))))
    · exact hr r ((mem_allRefs s r).mpr (.inr (.inr (.inr (.inl h1)))))
    · exact hr r ((mem_allRefs s r).mpr (.inr (.inr (.inr (.inr (.inl h1))))))
    · exact hr r ((mem_allRefs s r).mpr (.inr (.inr (.inr (.inr (.inr (.inl h1)))))))
    · exact hr r ((mem_allRefs s r).mpr (.inr (.inr (.inr (.inr (.inr (.inr h1)))))))
  | deleteExport i =>
    show IdemInv (deleteExport s i).1
    unfold deleteExport
    split
    · rename_i e he
      refine ⟨⟨qf, qg, qm⟩, ?_, kg, kc⟩
      intro r hm
      apply InRange.same (s := s) rfl rfl rfl
      apply hr r
      rw [mem_allRefs] at hm ⊢
      simpa [map_fst_set s.exports i e he true] using hm
    · exact ⟨⟨qf, qg, qm⟩, hr, kg, kc⟩
  | addData mem sites =>
    simp only [QuietOp] at hq
    refine ⟨⟨qf, qg, qm⟩, ?_, kg, kc⟩
    intro r hm
    apply InRange.same (s := s) rfl rfl rfl
    rcases (mem_allRefs _ r).mp hm with h1 | h1 | h1 | h1 | h1 | h1 | h1
    · exact hr r ((mem_allRefs s r).mpr (.inl h1))
    · exact hr r ((mem_allRefs s r).mpr (.inr (.inl h1)))
    · exact hr r ((mem_allRefs s r).mpr (.inr (.inr (.inl h1))))
    · exact hr r ((mem_allRefs s r).mpr (.inr (.inr (.inr (.inl h1)))))
    · exact hr r ((mem_allRefs s r).mpr (.inr (.inr (.inr (.inr (.inl h1))))))
    · simp only [step, List.flatMap_append, List.mem_append, List.flatMap_cons, List.flatMap_nil, List.append_nil,
        List.mem_cons] at h1
      rcases h1 with h1 | rfl | h1
      · exact hr r ((mem_allRefs s r).mpr (.inr (.inr (.inr (.inr (.inr (.inl h1)))))))
      · exact hq.1
      · exact hq.2 r h1
    · exact hr r ((mem_allRefs s r).mpr (.inr (.inr (.inr (.inr (.inr (.inr h1)))))))
  | addGlobal uid sites =>
    simp only [QuietOp] at hq
    have e : (step s (.addGlobal uid sites)).1
        = { s with g := s.g.push (mkItem s.g.items.length false uid 0), ginit := s.ginit ++ [(uid, sites)] } := rfl
    rw [e]
    refine ⟨⟨qf, qg, qm⟩, ?_, ?_, kc⟩
    · intro r hm
      refine InRange.mono (s := s) (s' := { s with g := s.g.push (mkItem s.g.items.length false uid 0), ginit := s.ginit ++ [(uid, sites)] })
        rfl rfl ⟨[mkItem s.g.items.length false uid 0], rfl⟩ ?_
      rcases (mem_allRefs _ r).mp hm with h1 | h1 | h1 | h1 | h1 | h1 | h1
      · simp only [List.flatMap_append, List.mem_append, List.flatMap_cons, List.flatMap_nil, List.append_nil] at h1
        rcases h1 with h1 | h1
        · exact hr r ((mem_allRefs s r).mpr (.inl h1))
        · exact hq.2 r h1
      · exact hr r ((mem_allRefs s r).mpr (.inr (.inl h1)))
      · exact hr r ((mem_allRefs s r).mpr (.inr (.inr (.inl h1))))
      · exact hr r ((mem_allRefs s r).mpr (.inr (.inr (.inr (.inl h1)))))
      · exact hr r ((mem_allRefs s r).mpr (.inr (.inr (.inr (.inr (.inl h1))))))
      · exact hr r ((mem_allRefs s r).mpr (.inr (.inr (.inr (.inr (.inr (.inl h1)))))))
      · exact hr r ((mem_allRefs s r).mpr (.inr (.inr (.inr (.inr (.inr (.inr h1)))))))
    · show KeysNodup (s.ginit ++ [(uid, sites)])
      unfold KeysNodup
      rw [List.map_append, List.nodup_append]
      refine ⟨kg, by simp, ?_⟩
      intro a ha b hb
      simp only [List.map_cons, List.map_nil, List.mem_singleton] at hb
      subst hb
      obtain ⟨p, hp, rfl⟩ := List.mem_map.mp ha
      exact hq.1 p hp
  | iterAddGlobal uid sites =>
    simp only [QuietOp] at hq
    have e : (step s (.iterAddGlobal uid sites)).1
        = { s with g := s.g.push (mkItem s.g.items.length false uid 0), ginit := s.ginit ++ [(uid, sites)] } := rfl
    rw [e]
    refine ⟨⟨qf, qg, qm⟩, ?_, ?_, kc⟩
    · intro r hm
      refine InRange.mono (s := s) (s' := { s with g := s.g.push (mkItem s.g.items.length false uid 0), ginit := s.ginit ++ [(uid, sites)] })
        rfl rfl ⟨[mkItem s.g.items.length false uid 0], rfl⟩ ?_
      rcases (mem_allRefs _ r).mp hm with h1 | h1 | h1 | h1 | h1 | h1 | h1
      · simp only [List.flatMap_append, List.mem_append, List.flatMap_cons, List.flatMap_nil, List.append_nil] at h1
        rcases h1 with h1 | h1
        · exact hr r ((mem_allRefs s r).mpr (.inl h1))
        · exact hq.2 r h1
      · exact hr r ((mem_allRefs s r).mpr (.inr (.inl h1)))
      · exact hr r ((mem_allRefs s r).mpr (.inr (.inr (.inl h1))))
      · exact hr r ((mem_allRefs s r).mpr (.inr (.inr (.inr (.inl h1)))))
      · exact hr r ((mem_allRefs s r).mpr (.inr (.inr (.inr (.inr (.inl h1))))))
      · exact hr r ((mem_allRefs s r).mpr (.inr (.inr (.inr (.inr (.inr (.inl h1)))))))
      · exact hr r ((mem_allRefs s r).mpr (.inr (.inr (.inr (.inr (.inr (.inr h1)))))))
    · show KeysNodup (s.ginit ++ [(uid, sites)])
      unfold KeysNodup
      rw [List.map_append, List.nodup_append]
      refine ⟨kg, by simp, ?_⟩
      intro a ha b hb
      simp only [List.map_cons, List.map_nil, List.mem_singleton] at hb
      subst hb
      obtain ⟨p, hp, rfl⟩ := List.mem_map.mp ha
      exact hq.1 p hp
  | _ => exact hq.elim

/-- a history of such operations (each judged in the state it is applied to) -/
def QuietHist : St → List Op → Prop
  | _, [] => True
  | s, op :: ops => QuietOp s op ∧ QuietHist (step s op).1 ops

theorem quietOp_noEncode {s : St} {op : Op} (h : QuietOp s op) : op ≠ .encode := by
  intro e; subst e; exact h

theorem idem_run (ops : List Op) : ∀ s, StInv s → IdemInv s → QuietHist s ops → StInv (run s ops).1 ∧ IdemInv (run s ops).1 := by
  induction ops with
  | nil => intro s h1 h2 _; exact ⟨h1, h2⟩
  | cons op ops ih =>
    intro s h1 h2 hq
    have a1 := stInv_step s op (quietOp_noEncode hq.1) h1
    have a2 := idemInv_step s op hq.1 h2
    simp only [run]
    split
    · exact ⟨a1, a2⟩
    · exact ih _ a1 a2 hq.2

/-- **C05 for histories.** After any history of operations that set no re-indexing flag, applied to a state that satisfies
    the invariants of a parsed module, `encode` returns the state it was given and a second `encode` gives the same module. -/
theorem encode_twice_after_quiet_history (s0 : St) (h0 : StInv s0) (hi : IdemInv s0) (ops : List Op) (hq : QuietHist s0 ops) :
    let s := (run s0 ops).1
    (encode s).1 = s ∧ encode (encode s).1 = encode s := by
  obtain ⟨a, b⟩ := idem_run ops s0 h0 hi hq
  exact ⟨encode_fixpoint _ b.quiet a.f.fresh a.g.fresh a.m.fresh b.inRange b.kg b.kc,
         encode_twice_same _ b.quiet a.f.fresh a.g.fresh a.m.fresh b.inRange b.kg b.kc⟩

end Orca.Edit
