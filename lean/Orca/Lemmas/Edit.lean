import Orca.Lemmas.Reindex2
import Orca.Model.Edit
import Orca.Model.EditInv

namespace Orca.Edit
open Orca.Reindex

/-! ### the import section and the imported prefix -/

/-- live import entries of one kind, in import-section order: (position in `imports`, uid) -/
def liveEntries (I : List ImpEntry) (sp : Sp) : List (Nat × Nat) :=
  (I.zipIdx.filter (fun (p : ImpEntry × Nat) => p.1.sp == some sp && !p.1.del)).map (fun (p : ImpEntry × Nat) => (p.2, p.1.uid))

theorem zipIdx_filter_map_fst (I : List ImpEntry) (f : ImpEntry → Bool) (g : ImpEntry → Nat) : ∀ k : Nat,
    ((I.zipIdx k).filter (fun (p : ImpEntry × Nat) => f p.1)).map (fun (p : ImpEntry × Nat) => g p.1) = (I.filter f).map g := by
  induction I with
  | nil => intro k; simp
  | cons e I ih =>
    intro k
    simp only [List.zipIdx_cons, List.filter_cons]
    by_cases h : f e
    · simp [h, ih (k + 1)]
    · simp [h, ih (k + 1)]

theorem impUids_eq (I : List ImpEntry) (sp : Sp) : impUids I sp = (liveEntries I sp).map (·.2) := by
  unfold impUids liveEntries
  rw [List.map_map]
  exact (zipIdx_filter_map_fst I (fun e => e.sp == some sp && !e.del) (fun e => e.uid) 0).symm

/-- what ties a vector to the import list: its live imported entries, put in the order of their import entries,
    are exactly the live import entries of that kind -/
def key (it : Item) : Nat × Nat := (it.impId, it.uid)

structure SpaceInv (x : Space) (I : List ImpEntry) (sp : Sp) : Prop where
  fresh : IdsFresh x.items
  orig_le : x.numImp - x.numImpAdded ≤ x.items.length
  agree : (sortImports (x.items.filter keepImp)).map key = liveEntries I sp
  /-- a vector that is not flagged for re-indexing is already laid out: imports first, in import-section order,
      nothing deleted -/
  settled : x.recalc = false → x.items = sortImports (x.items.filter keepImp) ++ x.items.filter keepLoc

/-- index space of the encoded module: the import section's entries of the kind, then the emitted locals -/
def outSpace (I : List ImpEntry) (sp : Sp) (ys : List Item) : List Nat := impUids I sp ++ emittedLocals ys

theorem filter_keepImp_sortImports (A : List Item) (hA : ∀ a ∈ A, a.imp = true) :
    (sortImports A).filter (fun i => !i.imp && !i.del) = [] := by
  apply List.filter_eq_nil_iff.mpr
  intro a ha
  have := (sortImports_perm A).subset ha
  simp [hA a this]

theorem closed_layout (orig : Nat) (xs : List Item) (h : orig ≤ xs.length) :
    orderImports (reorganise orig xs)
      = sortImports (xs.filter keepImp) ++ ((xs.drop orig).filter keepLoc ++ (xs.take orig).filter keepLoc) := by
  rw [reorganise_eq orig xs h]
  unfold closed
  have hA : ∀ a ∈ (xs.take orig).filter keepImp ++ (xs.drop orig).filter keepImp, a.imp = true := by
    intro a ha
    simp only [List.mem_append, List.mem_filter, keepImp, Bool.and_eq_true] at ha
    rcases ha with ha | ha <;> exact ha.2.1
  have hB : ∀ b ∈ (xs.drop orig).filter keepLoc ++ (xs.take orig).filter keepLoc, b.imp = false := by
    intro b hb
    simp only [List.mem_append, List.mem_filter, keepLoc, Bool.and_eq_true, Bool.not_eq_true'] at hb
    rcases hb with hb | hb <;> exact hb.2.1
  have := takeWhile_append_of (fun i => i.imp) _ _ hA hB
  have hK : (xs.take orig).filter keepImp ++ (xs.drop orig).filter keepImp = xs.filter keepImp := by
    rw [← List.filter_append, List.take_append_drop]
  simp only [orderImports, List.append_assoc] at this ⊢
  rw [show (xs.take orig).filter keepImp ++ ((xs.drop orig).filter keepImp ++ ((xs.drop orig).filter keepLoc ++ (xs.take orig).filter keepLoc))
      = ((xs.take orig).filter keepImp ++ (xs.drop orig).filter keepImp) ++ ((xs.drop orig).filter keepLoc ++ (xs.take orig).filter keepLoc) by simp]
  rw [show (xs.take orig).filter keepImp ++ ((xs.drop orig).filter keepImp ++ ((xs.drop orig).filter keepLoc ++ (xs.take orig).filter keepLoc))
      = ((xs.take orig).filter keepImp ++ (xs.drop orig).filter keepImp) ++ ((xs.drop orig).filter keepLoc ++ (xs.take orig).filter keepLoc) by simp] at this
  rw [this.1, this.2, hK]

/-- a laid-out vector: its positions are the indices of the encoded module -/
theorem outSpace_of_layout (I : List ImpEntry) (sp : Sp) (A B : List Item)
    (hA : ∀ a ∈ A, a.imp = true) (hB : ∀ b ∈ B, keepLoc b = true)
    (hag : (sortImports A).map key = liveEntries I sp) :
    outSpace I sp (sortImports A ++ B) = (sortImports A ++ B).map (·.uid)
    ∧ ((sortImports A ++ B).filter (fun i => !i.imp)).map (·.uid) = emittedLocals (sortImports A ++ B) := by
  have hloc : emittedLocals (sortImports A ++ B) = B.map (·.uid) := by
    unfold emittedLocals
    rw [List.filter_append, filter_keepImp_sortImports A hA]
    have : B.filter (fun i => !i.imp && !i.del) = B := by
      apply List.filter_eq_self.mpr
      intro b hb; simpa [keepLoc] using hB b hb
    simp [this]
  have himp : impUids I sp = (sortImports A).map (·.uid) := by
    rw [impUids_eq, ← hag, List.map_map]; rfl
  refine ⟨by simp [outSpace, hloc, himp], ?_⟩
  rw [hloc, List.filter_append]
  have h1 : (sortImports A).filter (fun i => !i.imp) = [] := by
    apply List.filter_eq_nil_iff.mpr
    intro a ha
    have := (sortImports_perm A).subset ha
    simp [hA a this]
  have h2 : B.filter (fun i => !i.imp) = B := by
    apply List.filter_eq_self.mpr
    intro b hb
    have := hB b hb
    simp only [keepLoc, Bool.and_eq_true, Bool.not_eq_true'] at this
    simp [this.1]
  simp [h1, h2]

/-- what the first step of `encode_internal` achieves for one index space -/
structure Remapped (x : Space) (I : List ImpEntry) (sp : Sp) (ys : List Item) : Prop where
  /-- positions in `ys` are indices of the encoded module -/
  out : outSpace I sp ys = ys.map (·.uid)
  outMem : (ys.filter (fun i => !i.imp)).map (·.uid) = emittedLocals ys
  noDeleted : ∀ y ∈ ys, y.del = false
  /-- a stored id that designated a live entry is mapped to that entry's new position -/
  live : ∀ i item, x.items[i]? = some item → item.del = false → ∃ p, mapping ys i = some p ∧ ys[p]? = some item
  /-- a stored id that designated a deleted entry, or nothing, is not in the map (the code panics on it) -/
  dead : ∀ i, (∀ item, x.items[i]? = some item → item.del = true) → mapping ys i = none

theorem mapping_id_of_fresh (xs : List Item) (hf : IdsFresh xs) (i : Nat) (item : Item) (h : xs[i]? = some item) :
    mapping xs i = some i :=
  mapping_some xs i i (idsFresh_nodup xs hf) (by simp [h, hf i item h])

theorem remap_spec (x : Space) (I : List ImpEntry) (sp : Sp) (inv : SpaceInv x I sp) :
    ∃ ys, remap x = some ys ∧ Remapped x I sp ys := by
  by_cases hr : x.recalc = true
  · obtain ⟨ys, hrec, hys, hperm, hlive, hdead, hoob⟩ :=
      recalculate_spec (x.numImp - x.numImpAdded) x.items inv.orig_le inv.fresh
    refine ⟨ys, by simp [remap, hr, hrec], ?_⟩
    have hlay := closed_layout (x.numImp - x.numImpAdded) x.items inv.orig_le
    have hA : ∀ a ∈ x.items.filter keepImp, a.imp = true := by
      intro a ha; have := (List.mem_filter.mp ha).2; simp only [keepImp, Bool.and_eq_true] at this; exact this.1
    have hB : ∀ b ∈ (x.items.drop (x.numImp - x.numImpAdded)).filter keepLoc ++ (x.items.take (x.numImp - x.numImpAdded)).filter keepLoc,
        keepLoc b = true := by
      intro b hb
      simp only [List.mem_append, List.mem_filter] at hb
      rcases hb with hb | hb <;> exact hb.2
    have ho := outSpace_of_layout I sp _ _ hA hB inv.agree
    rw [hys, hlay]
    refine ⟨ho.1, ho.2, ?_, ?_, ?_⟩
    · intro y hy
      rw [← hlay, ← hys] at hy
      have := List.mem_filter.mp (hperm.subset hy)
      simpa using this.2
    · intro i item h1 h2; rw [← hlay, ← hys]; exact hlive i item h1 h2
    · intro i h
      rw [← hlay, ← hys]
      cases hx : x.items[i]? with
      | none =>
        apply hoob
        rcases Nat.lt_or_ge i x.items.length with hlt | hge
        · simp [List.getElem?_eq_getElem hlt] at hx
        · exact hge
      | some item => exact hdead i item hx (h item hx)
  · have hr' : x.recalc = false := by simpa using hr
    have hset := inv.settled hr'
    refine ⟨x.items, by simp [remap, hr'], ?_⟩
    have hA : ∀ a ∈ x.items.filter keepImp, a.imp = true := by
      intro a ha; have := (List.mem_filter.mp ha).2; simp only [keepImp, Bool.and_eq_true] at this; exact this.1
    have hB : ∀ b ∈ x.items.filter keepLoc, keepLoc b = true := fun b hb => (List.mem_filter.mp hb).2
    have ho := outSpace_of_layout I sp _ _ hA hB inv.agree
    rw [← hset] at ho
    have hnd : ∀ y ∈ x.items, y.del = false := by
      intro y hy
      rw [hset] at hy
      rcases List.mem_append.mp hy with h | h
      · have := (sortImports_perm _).subset h
        have := (List.mem_filter.mp this).2
        simp only [keepImp, Bool.and_eq_true, Bool.not_eq_true'] at this; exact this.2
      · have := (List.mem_filter.mp h).2
        simp only [keepLoc, Bool.and_eq_true, Bool.not_eq_true'] at this; exact this.2
    refine ⟨ho.1, ho.2, hnd, ?_, ?_⟩
    · intro i item h1 _
      exact ⟨i, mapping_id_of_fresh _ inv.fresh i item h1, h1⟩
    · intro i h
      apply mapping_none
      intro y hy hyi
      obtain ⟨j, hj⟩ := List.getElem?_of_mem hy
      have : j = i := by rw [← inv.fresh j y hj]; exact hyi
      subst this
      have := h y hj
      rw [hnd y hy] at this; exact absurd this (by simp)

end Orca.Edit

namespace Orca.Edit
open Orca.Reindex

theorem idsFreshB_sound (xs : List Item) (h : idsFreshB xs = true) : IdsFresh xs := by
  intro i x hx
  unfold idsFreshB at h
  rw [List.all_eq_true] at h
  have hlt : i < xs.length := by
    rcases Nat.lt_or_ge i xs.length with h' | h'
    · exact h'
    · simp [List.getElem?_eq_none h'] at hx
  have hmem : (x, i) ∈ xs.zipIdx := by
    rw [List.mem_zipIdx_iff_getElem?]; simpa using hx
  simpa using h (x, i) hmem

/-- the decidable check the driver runs implies the invariant the theorems assume -/
theorem spaceInvB_sound (x : Space) (I : List ImpEntry) (sp : Sp) (h : spaceInvB x I sp = true) : SpaceInv x I sp := by
  simp only [spaceInvB, Bool.and_eq_true, Bool.or_eq_true, decide_eq_true_eq, beq_iff_eq] at h
  obtain ⟨⟨⟨h1, h2⟩, h3⟩, h4⟩ := h
  refine ⟨idsFreshB_sound _ h1, h2, h3, ?_⟩
  intro hr
  rcases h4 with h4 | h4
  · rw [hr] at h4; cases h4
  · exact h4

end Orca.Edit
