import Orca.Lemmas.SpecialFlat
/-!
`resolve_special_instrumentation` keeps what is waiting for an `end` / `else` in three tables keyed by *block id* (the nesting depth at
which the construct was opened). This file proves that, for **every** body and **every** combination of block-entry, block-exit,
semantic-after (on constructs), `before` and `after` probes — any number of them, on any constructs, nested in any way — the tables
behave like a **stack of frames**, one per open construct, and that the encoded function is what the stack machine `specRun` says:
entry probes behind the opener, exit probes in front of the matching `end` (of an `if`: in front of its `else`, or of its `end` when
it has none), semantic-after probes behind the matching `end`, in the order they were injected. The step lemmas are stated for the
*core* of one iteration (`rcore`: everything but the function-level part `rpre`) and for whatever instruction currently stands in the
body, so that Lemmas/StackAlt.lean (block alternates) and Lemmas/StackFull.lean (semantic-after on branches, function entry / exit)
extend the same machine.
-/
namespace Orca.Lower

/-! ### the tables -/

theorem find?_map_key (f : Nat × ToInject → Nat × ToInject) (hf : ∀ p, (f p).1 = p.1) (j : Nat) :
    ∀ l : List (Nat × ToInject), (l.map f).find? (fun p => p.1 == j) = (l.find? (fun p => p.1 == j)).map f
  | [] => rfl
  | a :: l => by
    have ih := find?_map_key f hf j l
    cases h : (a.1 == j) with
    | true =>
      have h' : ((f a).1 == j) = true := by rw [hf]; exact h
      simp only [List.map_cons, List.find?_cons, h, h', Option.map_some]
    | false =>
      have h' : ((f a).1 == j) = false := by rw [hf]; exact h
      simp only [List.map_cons, List.find?_cons, h, h']
      exact ih

theorem find?_key_some (l : List (Nat × ToInject)) (j : Nat) (p : Nat × ToInject) (h : l.find? (fun p => p.1 == j) = some p) : p.1 = j := by
  have := List.find?_some h
  simpa using this

theorem find?_none_of_any_false (l : List (Nat × ToInject)) (k : Nat) (h : l.any (fun p => p.1 == k) = false) :
    l.find? (fun p => p.1 == k) = none := by
  rw [List.find?_eq_none]; intro x hx hxk
  have : l.any (fun p => p.1 == k) = true := List.any_eq_true.mpr ⟨x, hx, hxk⟩
  rw [h] at this; cases this

theorem getInj_setInj_self (l : List (Nat × ToInject)) (k : Nat) (v : ToInject) : getInj (setInj l k v) k = v := by
  unfold setInj
  cases h : l.any (fun p => p.1 == k) with
  | true =>
    simp only [if_true]
    unfold getInj
    rw [find?_map_key _ (by intro p; by_cases hp : p.1 = k <;> simp [hp]) k l]
    obtain ⟨x, hx, hxk⟩ := List.any_eq_true.mp h
    cases hf : l.find? (fun p => p.1 == k) with
    | none =>
      rw [List.find?_eq_none] at hf
      exact absurd hxk (hf x hx)
    | some q =>
      have hq := find?_key_some l k q hf
      simp [hq]
  | false =>
    simp only [Bool.false_eq_true, if_false]
    unfold getInj
    rw [List.find?_append, find?_none_of_any_false l k h]
    simp

theorem getInj_setInj_other (l : List (Nat × ToInject)) (k j : Nat) (v : ToInject) (hj : j ≠ k) :
    getInj (setInj l k v) j = getInj l j := by
  unfold setInj
  cases h : l.any (fun p => p.1 == k) with
  | true =>
    simp only [if_true]
    unfold getInj
    rw [find?_map_key _ (by intro p; by_cases hp : p.1 = k <;> simp [hp]) j l]
    cases hf : l.find? (fun p => p.1 == j) with
    | none => rfl
    | some q =>
      have hq := find?_key_some l j q hf
      have : ¬ q.1 = k := by rw [hq]; exact hj
      simp [this]
  | false =>
    simp only [Bool.false_eq_true, if_false]
    unfold getInj
    have hkj : ¬ k = j := fun e => hj e.symm
    rw [List.find?_append]
    cases l.find? (fun p => p.1 == j) <;> simp [hkj]

theorem getInj_removeInj_self (l : List (Nat × ToInject)) (k : Nat) : getInj (removeInj l k) k = {} := by
  unfold getInj removeInj
  have : (l.filter (fun p => p.1 != k)).find? (fun p => p.1 == k) = none := by
    rw [List.find?_eq_none]
    intro x hx
    simp only [List.mem_filter, bne_iff_ne, ne_eq] at hx
    simp [hx.2]
  rw [this]

theorem getInj_removeInj_other (l : List (Nat × ToInject)) (k j : Nat) (hj : j ≠ k) : getInj (removeInj l k) j = getInj l j := by
  unfold getInj removeInj
  have : (l.filter (fun p => p.1 != k)).find? (fun p => p.1 == j) = l.find? (fun p => p.1 == j) := by
    induction l with
    | nil => rfl
    | cons a l ih =>
      by_cases ha : a.1 = k
      · have haj : (a.1 == j) = false := by rw [ha]; simpa using fun e => hj e.symm
        simp only [List.filter_cons, ha, bne_self_eq_false, Bool.false_eq_true, if_false, List.find?_cons, ih]
        rw [← ha, haj]
      · have hne : (a.1 != k) = true := by simpa using ha
        simp only [List.filter_cons, hne, if_true, List.find?_cons, ih]
  rw [this]

theorem getInj_absent (l : List (Nat × ToInject)) (k : Nat) (h : l.any (fun p => p.1 == k) = false) : getInj l k = {} := by
  unfold getInj
  rw [find?_none_of_any_false l k h]

/-- what a table entry contributes when it is resolved, for entries without flagged bodies -/
def flat (t : ToInject) : List Tok := t.notFlagged.flatten

theorem resolveBodies_noflag (t : ToInject) (h : t.flagged = []) : resolveBodies t = flat t := by
  simp [resolveBodies, resolveBodies.chain, h, flat]

/-- the flag-guarded chain that `resolve_bodies` builds from the flagged bodies of one table entry -/
def chainToks (fl : List (List Tok × Nat)) : List Tok :=
  resolveBodies.chain fl true ++ (if fl.isEmpty then [] else [tEnd])

theorem resolveBodies_eq (t : ToInject) : resolveBodies t = chainToks t.flagged ++ flat t := rfl

theorem chainToks_nil : chainToks [] = [] := rfl

/-! ### one iteration = function-level part, then the rest -/

/-- the function-level part of one iteration: entry code in front of instruction 0, exit code in front of every instruction that
    leaves the function and in front of the final `end` -/
def rpre (last : Nat) (s : RState) (idx : Nat) (ins : Instr) : RState :=
  let s := if !s.entry.isEmpty && idx == 0 then { s with body := addBefore s.body 0 s.entry, entry := [] } else s
  if s.exit.isEmpty then s
  else if ins.kind == .exitLike then { s with body := addBefore s.body idx s.exit }
  else if idx == last then { s with body := addBefore s.body idx ([tEnd] ++ s.exit), exit := [] }
  else s

/-- the rest of the iteration: block structure, alternates, special lists -/
def rcore (s : RState) (idx : Nat) (ins : Instr) : RState :=
  let handleAlt (s : RState) (isElse : Bool) : Option RState :=
    match ins.blockAlt with
    | some alt =>
      if s.deleteBlock.isNone then
        some { s with body := planBlockAlt s.body idx alt, retainEnd := isElse, deleteBlock := some (top s.stack) }
      else some { s with body := discardSpecial (setEmptyAlt s.body idx) idx }
    | none => if s.deleteBlock.isSome then some { s with body := discardSpecial (setEmptyAlt s.body idx) idx } else none
  let flushElseOrEnd (s : RState) (k : Nat) : RState :=
    if s.onElseOrEnd.any (·.1 == k) then
      { s with body := addBefore s.body idx (resolveBodies (getInj s.onElseOrEnd k)), onElseOrEnd := removeInj s.onElseOrEnd k }
    else s
  match ins.kind with
  | .block | .loop | .if_ =>
    let s := { s with stack := s.stack ++ [s.stack.length] }
    match handleAlt s false with
    | some s' => s'
    | none => planSpecial s idx ins
  | .else_ =>
    let s := flushElseOrEnd s (top s.stack)
    match handleAlt s true with
    | some s' => s'
    | none => planSpecial s idx ins
  | .end_ =>
    match s.stack.getLast? with
    | none => planSpecial s idx ins
    | some blockId =>
      let s := { s with stack := s.stack.dropLast }
      let cont : Option RState :=
        match s.deleteBlock with
        | some d =>
          if d == blockId then
            if !s.retainEnd then some { s with deleteBlock := none, retainEnd := true, body := discardSpecial (setEmptyAlt s.body idx) idx }
            else none
          else some { s with body := discardSpecial (setEmptyAlt s.body idx) idx }
        | none => none
      match cont with
      | some s' => s'
      | none =>
        let s := if s.deleteBlock == some blockId then { s with deleteBlock := none, retainEnd := true } else s
        let s := flushElseOrEnd s blockId
        let bInj := getInj s.onEndBefore blockId
        let aInj := getInj s.onEndAfter blockId
        let hasB := s.onEndBefore.any (·.1 == blockId)
        let hasA := s.onEndAfter.any (·.1 == blockId)
        let b := if hasB then addBefore s.body idx (resolveBodies bInj) else s.body
        let b := if hasA then addAfter b idx (resolveBodies aInj) else b
        let s := { s with body := b, onEndBefore := removeInj s.onEndBefore blockId, onEndAfter := removeInj s.onEndAfter blockId }
        planSpecial s idx ins
  | _ =>
    if s.deleteBlock.isSome then { s with body := discardSpecial (setEmptyAlt s.body idx) idx }
    else planSpecial s idx ins

theorem rstep_eq (last : Nat) (s : RState) (idx : Nat) (ins : Instr) : rstep last s idx ins = rcore (rpre last s idx ins) idx ins := rfl

theorem rpre_nil (last : Nat) (s : RState) (idx : Nat) (ins : Instr) (h1 : s.entry = []) (h2 : s.exit = []) : rpre last s idx ins = s := by
  simp [rpre, h1, h2]

end Orca.Lower

namespace Orca.Lower

/-! ### `planSpecial` in three stages (scope: no semantic-after on branches) -/

def stageEntry (s : RState) (idx : Nat) (ins : Instr) : RState :=
  if ins.blockEntry.isEmpty then s
  else
    let b := if ins.kind.isBlockStyle then addAfter s.body idx ins.blockEntry else s.body
    { s with body := modifyAt b idx (fun i => { i with blockEntry := [] }) }

def stageExit (s : RState) (idx : Nat) (ins : Instr) : RState :=
  if ins.blockExit.isEmpty then s
  else
    let s := match ins.kind with
      | .if_ =>
        let k := top s.stack
        let cur := getInj s.onElseOrEnd k
        { s with onElseOrEnd := setInj s.onElseOrEnd k { cur with notFlagged := cur.notFlagged ++ [ins.blockExit] } }
      | .block | .loop | .else_ =>
        let k := top s.stack
        let cur := getInj s.onEndBefore k
        { s with onEndBefore := setInj s.onEndBefore k { cur with notFlagged := cur.notFlagged ++ [ins.blockExit] } }
      | _ => s
    { s with body := modifyAt s.body idx (fun i => { i with blockExit := [] }) }

/-- the semantic-after stage for block-style instructions -/
def stageSem (s : RState) (idx : Nat) (ins : Instr) : RState :=
  if ins.semAfter.isEmpty then s
  else
    let k := top s.stack
    let cur := getInj s.onEndAfter k
    let s := { s with onEndAfter := setInj s.onEndAfter k { cur with notFlagged := cur.notFlagged ++ [ins.semAfter] } }
    { s with body := modifyAt s.body idx (fun i => { i with semAfter := [] }) }

theorem hasInstr_of_special (ins : Instr) (h : ins.blockEntry.isEmpty = false ∨ ins.blockExit.isEmpty = false ∨ ins.semAfter.isEmpty = false) :
    ins.hasInstr = true := by
  unfold Instr.hasInstr
  rcases h with h | h | h <;> simp [h]

theorem planSpecial_stages (s : RState) (idx : Nat) (ins : Instr) (hk : ins.kind.isBlockStyle = true) :
    planSpecial s idx ins = stageSem (stageExit (stageEntry s idx ins) idx ins) idx ins := by
  cases hE : ins.blockEntry.isEmpty <;> cases hX : ins.blockExit.isEmpty <;> cases hS : ins.semAfter.isEmpty
  case true.true.true =>
    cases hi : ins.hasInstr <;>
      simp only [planSpecial, stageSem, stageExit, stageEntry, hi, hE, hX, hS, Bool.not_true, Bool.not_false, Bool.false_eq_true, if_false, if_true]
  all_goals
    have hi : ins.hasInstr = true := hasInstr_of_special ins (by simp [hE, hX, hS])
    cases hkk : ins.kind <;> simp only [hkk, Kind.isBlockStyle, Bool.false_eq_true] at hk
    all_goals
      simp only [planSpecial, stageSem, stageExit, stageEntry, hi, hE, hX, hS, hkk, Kind.isBlockStyle, Bool.not_true, Bool.not_false,
        Bool.false_eq_true, if_false, if_true]

/-- append one body to the entry of key `k` -/
def addFlat (tbl : List (Nat × ToInject)) (k : Nat) (body : List Tok) : List (Nat × ToInject) :=
  setInj tbl k { getInj tbl k with notFlagged := (getInj tbl k).notFlagged ++ [body] }

theorem addFlat_flagged (tbl : List (Nat × ToInject)) (k j : Nat) (body : List Tok) :
    (getInj (addFlat tbl k body) j).flagged = (getInj tbl j).flagged := by
  unfold addFlat
  by_cases hj : j = k
  · subst hj; rw [getInj_setInj_self]
  · rw [getInj_setInj_other _ _ _ _ hj]

theorem addFlat_flat (tbl : List (Nat × ToInject)) (k j : Nat) (body : List Tok) :
    flat (getInj (addFlat tbl k body) j) = flat (getInj tbl j) ++ (if j = k then body else []) := by
  unfold addFlat
  by_cases hj : j = k
  · subst hj; rw [getInj_setInj_self]; simp [flat]
  · rw [getInj_setInj_other _ _ _ _ hj]; simp [hj]

/-- the instruction at the current index keeps token, alternate and `before`, and gets `ts` appended to `after` -/
def Grown (c c' : Instr) (ts : List Tok) : Prop :=
  c'.before = c.before ∧ c'.after = c.after ++ ts ∧ c'.alt = c.alt ∧ c'.tok = c.tok

theorem Grown.refl (c : Instr) : Grown c c [] := ⟨rfl, by simp, rfl, rfl⟩

theorem Grown.trans {a b c : Instr} {t u : List Tok} (h1 : Grown a b t) (h2 : Grown b c u) : Grown a c (t ++ u) :=
  ⟨h2.1.trans h1.1, by rw [h2.2.1, h1.2.1, List.append_assoc], h2.2.2.1.trans h1.2.2.1, h2.2.2.2.trans h1.2.2.2⟩

theorem stageEntry_spec (s : RState) (done rest : List Instr) (c ins : Instr) (hk : ins.kind.isBlockStyle = true)
    (hb : s.body = done ++ c :: rest) :
    let s' := stageEntry s done.length ins
    (∃ c', s'.body = done ++ c' :: rest ∧ Grown c c' ins.blockEntry)
    ∧ s'.stack = s.stack ∧ s'.deleteBlock = s.deleteBlock ∧ s'.retainEnd = s.retainEnd ∧ s'.entry = s.entry ∧ s'.exit = s.exit
    ∧ s'.nlocals = s.nlocals ∧ s'.added = s.added ∧ s'.onElseOrEnd = s.onElseOrEnd ∧ s'.onEndBefore = s.onEndBefore
    ∧ s'.onEndAfter = s.onEndAfter := by
  unfold stageEntry
  cases hE : ins.blockEntry.isEmpty with
  | true =>
    have : ins.blockEntry = [] := List.isEmpty_iff.mp hE
    simp only [if_true]
    exact ⟨⟨c, hb, by rw [this]; exact Grown.refl c⟩, by simp⟩
  | false =>
    simp only [Bool.false_eq_true, if_false, hk, if_true, hb, addAfter, modifyAt_mid]
    exact ⟨⟨_, rfl, rfl, rfl, rfl, rfl⟩, by simp⟩

theorem stageExit_spec (s : RState) (done rest : List Instr) (c ins : Instr) (hk : ins.kind.isBlockStyle = true)
    (hb : s.body = done ++ c :: rest) :
    let s' := stageExit s done.length ins
    (∃ c', s'.body = done ++ c' :: rest ∧ Grown c c' [])
    ∧ s'.stack = s.stack ∧ s'.deleteBlock = s.deleteBlock ∧ s'.retainEnd = s.retainEnd ∧ s'.entry = s.entry ∧ s'.exit = s.exit
    ∧ s'.nlocals = s.nlocals ∧ s'.added = s.added ∧ s'.onEndAfter = s.onEndAfter
    ∧ s'.onElseOrEnd = (if ins.kind = .if_ ∧ ins.blockExit ≠ [] then addFlat s.onElseOrEnd (top s.stack) ins.blockExit else s.onElseOrEnd)
    ∧ s'.onEndBefore = (if ins.kind ≠ .if_ ∧ ins.blockExit ≠ [] then addFlat s.onEndBefore (top s.stack) ins.blockExit else s.onEndBefore) := by
  unfold stageExit
  cases hX : ins.blockExit.isEmpty with
  | true =>
    have : ins.blockExit = [] := List.isEmpty_iff.mp hX
    simp only [if_true, this, ne_eq, not_true_eq_false, and_false, if_false]
    exact ⟨⟨c, hb, Grown.refl c⟩, by simp⟩
  | false =>
    have hne : ins.blockExit ≠ [] := by intro e; rw [e] at hX; simp at hX
    cases hkk : ins.kind <;> simp only [hkk, Kind.isBlockStyle, Bool.false_eq_true] at hk
    all_goals
      refine ⟨⟨{ c with blockExit := [] }, ?_, ⟨rfl, by simp, rfl, rfl⟩⟩, ?_⟩
      · simp only [Bool.false_eq_true, if_false, hb, modifyAt_mid]
      · simp only [Bool.false_eq_true, if_false, addFlat, hne, ne_eq, not_false_eq_true, and_self, and_true, if_true,
          reduceCtorEq, false_and, not_true_eq_false, true_and]

theorem stageSem_spec (s : RState) (done rest : List Instr) (c ins : Instr)
    (hb : s.body = done ++ c :: rest) :
    let s' := stageSem s done.length ins
    (∃ c', s'.body = done ++ c' :: rest ∧ Grown c c' [])
    ∧ s'.stack = s.stack ∧ s'.deleteBlock = s.deleteBlock ∧ s'.retainEnd = s.retainEnd ∧ s'.entry = s.entry ∧ s'.exit = s.exit
    ∧ s'.nlocals = s.nlocals ∧ s'.added = s.added ∧ s'.onElseOrEnd = s.onElseOrEnd ∧ s'.onEndBefore = s.onEndBefore
    ∧ s'.onEndAfter = (if ins.semAfter ≠ [] then addFlat s.onEndAfter (top s.stack) ins.semAfter else s.onEndAfter) := by
  unfold stageSem
  cases hS : ins.semAfter.isEmpty with
  | true =>
    have : ins.semAfter = [] := List.isEmpty_iff.mp hS
    simp only [if_true, this, ne_eq, not_true_eq_false, if_false]
    exact ⟨⟨c, hb, Grown.refl c⟩, by simp⟩
  | false =>
    have hne : ins.semAfter ≠ [] := by intro e; rw [e] at hS; simp at hS
    refine ⟨⟨{ c with semAfter := [] }, ?_, ⟨rfl, by simp, rfl, rfl⟩⟩, ?_⟩
    · simp only [Bool.false_eq_true, if_false, hb, modifyAt_mid]
    · simp only [Bool.false_eq_true, if_false, addFlat, hne, ne_eq, not_false_eq_true, if_true, and_self]

/-! ### the stack machine -/

/-- what is waiting for the `else` / `end` of one open construct -/
structure Fr where
  ifExit : List Tok := []     -- block-exit probes of an `if`, waiting for its `else` or `end`
  exitB : List Tok := []      -- block-exit probes waiting for the `end`
  afterA : List Tok := []     -- semantic-after probes (of constructs) waiting for the `end`
  afterFl : List (List Tok × Nat) := []   -- semantic-after probes of branches that target the construct: body and flag local
deriving Repr

/-- what goes behind the `end` that closes the frame: the flag-guarded bodies, then the unguarded ones -/
def endAfter (f : Fr) : List Tok := chainToks f.afterFl ++ f.afterA

/-- the frame of the construct with block id `k` (ids count from the outside: the function body is 0) -/
def frAt (fr : List Fr) (k : Nat) : Fr := (fr.reverse[k]?).getD {}

theorem frAt_cons_lt (f : Fr) (fr : List Fr) (k : Nat) (h : k < fr.length) : frAt (f :: fr) k = frAt fr k := by
  unfold frAt
  rw [List.reverse_cons, List.getElem?_append_left (by simpa using h)]

theorem frAt_cons_top (f : Fr) (fr : List Fr) : frAt (f :: fr) fr.length = f := by
  unfold frAt
  rw [List.reverse_cons, List.getElem?_append_right (by simp)]
  simp

theorem frAt_ge (fr : List Fr) (k : Nat) (h : fr.length ≤ k) : frAt fr k = {} := by
  unfold frAt
  rw [List.getElem?_eq_none (by simpa using h)]
  rfl

/-- the scope: no block alternates, special lists only on `block` / `loop` / `if` / `else` (instruction-level alternates are allowed:
    the resolver leaves them alone and the encoder writes them in place of the instruction) -/
structure Plain (i : Instr) : Prop where
  blockAlt : i.blockAlt = none
  only : i.kind.isBlockStyle = false → i.semAfter = [] ∧ i.blockEntry = [] ∧ i.blockExit = []

/-- one instruction: the frames afterwards, and the code that ends up in front of its token (behind its own `before` list) and behind
    it (behind its own `after` list) -/
def specStep (fr : List Fr) (i : Instr) : Option (List Fr × List Tok × List Tok) :=
  match i.kind with
  | .block | .loop => some ({ exitB := i.blockExit, afterA := i.semAfter } :: fr, [], i.blockEntry)
  | .if_ => some ({ ifExit := i.blockExit, afterA := i.semAfter } :: fr, [], i.blockEntry)
  | .else_ =>
    -- an `else` belongs to an `if`: there is a frame below the one it continues (at least the function body's)
    match fr with
    | top :: below :: rest =>
      some ({ top with ifExit := [], exitB := top.exitB ++ i.blockExit, afterA := top.afterA ++ i.semAfter } :: below :: rest, top.ifExit,
        i.blockEntry)
    | _ => none
  | .end_ =>
    match fr with
    | top :: rest => some (rest, top.ifExit ++ top.exitB, endAfter top)
    | [] => none
  | _ => some (fr, [], [])

/-- the encoded function according to the stack machine (`none`: the body is not well nested) -/
def specRun (last : Nat) : Nat → List Fr → List Instr → Option (List Tok)
  | _, fr, [] => if fr.isEmpty then some [] else none      -- every construct (and the function body) has been closed
  | idx, fr, i :: is =>
    match specStep fr i with
    | none => none
    | some (fr', b, a) =>
      -- the function body's own frame is closed by the last instruction only
      if fr'.isEmpty && !is.isEmpty then none
      else
        match specRun last (idx + 1) fr' is with
        | none => none
        | some rest =>
          some (i.before ++ b ++ (if idx ≥ last then [i.tok] else i.alt.getD [i.tok]) ++ (if idx ≥ last then [] else i.after ++ a) ++ rest)

/-- the resolver's state agrees with a stack of frames -/
structure Tied (s : RState) (fr : List Fr) : Prop where
  del : s.deleteBlock = none
  stack : s.stack = List.range fr.length
  f1 : ∀ k, (getInj s.onElseOrEnd k).flagged = []
  f2 : ∀ k, (getInj s.onEndBefore k).flagged = []
  t1 : ∀ k, flat (getInj s.onElseOrEnd k) = (frAt fr k).ifExit
  t2 : ∀ k, flat (getInj s.onEndBefore k) = (frAt fr k).exitB
  t3 : ∀ k, flat (getInj s.onEndAfter k) = (frAt fr k).afterA
  t3f : ∀ k, (getInj s.onEndAfter k).flagged = (frAt fr k).afterFl

/-- what a step of the core leaves alone -/
def Keep (s s' : RState) : Prop := s'.nlocals = s.nlocals ∧ s'.added = s.added ∧ s'.entry = s.entry ∧ s'.exit = s.exit

theorem Keep.refl (s : RState) : Keep s s := ⟨rfl, rfl, rfl, rfl⟩

/-- the current instruction after the step: token and alternate kept, `before` and `after` extended -/
def Chg (c c' : Instr) (B A : List Tok) : Prop :=
  c'.before = c.before ++ B ∧ c'.after = c.after ++ A ∧ c'.alt = c.alt ∧ c'.tok = c.tok

theorem Chg.refl (c : Instr) : Chg c c [] [] := ⟨by simp, by simp, rfl, rfl⟩

theorem Grown.chg {c c' : Instr} {ts : List Tok} (h : Grown c c' ts) : Chg c c' [] ts := ⟨by simp [h.1], h.2.1, h.2.2.1, h.2.2.2⟩

theorem Chg.trans {a b c : Instr} {B A B' A' : List Tok} (h1 : Chg a b B A) (h2 : Chg b c B' A') : Chg a c (B ++ B') (A ++ A') :=
  ⟨by rw [h2.1, h1.1, List.append_assoc], by rw [h2.2.1, h1.2.1, List.append_assoc], h2.2.2.1.trans h1.2.2.1, h2.2.2.2.trans h1.2.2.2⟩

theorem planSpecial_nospecial (s : RState) (idx : Nat) (ins : Instr) (h1 : ins.semAfter = []) (h2 : ins.blockEntry = []) (h3 : ins.blockExit = []) :
    planSpecial s idx ins = s := by
  cases hi : ins.hasInstr <;> simp [planSpecial, hi, h1, h2, h3]

/-- everything `planSpecial` does for a block-style instruction, in terms of the tables -/
theorem planSpecial_spec (s : RState) (done rest : List Instr) (c ins : Instr) (hk : ins.kind.isBlockStyle = true)
    (hb : s.body = done ++ c :: rest) :
    let s' := planSpecial s done.length ins
    (∃ c', s'.body = done ++ c' :: rest ∧ Chg c c' [] ins.blockEntry)
    ∧ s'.stack = s.stack ∧ s'.deleteBlock = s.deleteBlock ∧ s'.entry = s.entry ∧ s'.exit = s.exit
    ∧ s'.nlocals = s.nlocals ∧ s'.added = s.added
    ∧ s'.onElseOrEnd = (if ins.kind = .if_ ∧ ins.blockExit ≠ [] then addFlat s.onElseOrEnd (top s.stack) ins.blockExit else s.onElseOrEnd)
    ∧ s'.onEndBefore = (if ins.kind ≠ .if_ ∧ ins.blockExit ≠ [] then addFlat s.onEndBefore (top s.stack) ins.blockExit else s.onEndBefore)
    ∧ s'.onEndAfter = (if ins.semAfter ≠ [] then addFlat s.onEndAfter (top s.stack) ins.semAfter else s.onEndAfter) := by
  rw [planSpecial_stages s done.length ins hk]
  obtain ⟨⟨c1, b1, g1⟩, a1, a2, _, a4, a5, a6, a7, a8, a9, a10⟩ := stageEntry_spec s done rest c ins hk hb
  obtain ⟨⟨c2, b2, g2⟩, e1, e2, _, e4, e5, e6, e7, e8, e9, e10⟩ := stageExit_spec (stageEntry s done.length ins) done rest c1 ins hk b1
  obtain ⟨⟨c3, b3, g3⟩, m1, m2, _, m4, m5, m6, m7, m8, m9, m10⟩ :=
    stageSem_spec (stageExit (stageEntry s done.length ins) done.length ins) done rest c2 ins b2
  refine ⟨⟨c3, b3, ?_⟩, by rw [m1, e1, a1], by rw [m2, e2, a2], by rw [m4, e4, a4], by rw [m5, e5, a5], by rw [m6, e6, a6],
    by rw [m7, e7, a7], by rw [m8, e9, a8, a1], by rw [m9, e10, a9, a1], by rw [m10, e8, a10, e1, a1]⟩
  have := (g1.chg.trans g2.chg).trans g3.chg
  simpa using this

theorem frAt_push (f : Fr) (fr : List Fr) (k : Nat) : frAt (f :: fr) k = if k = fr.length then f else frAt fr k := by
  by_cases h : k = fr.length
  · subst h; simp [frAt_cons_top]
  · simp only [h, if_false]
    rcases Nat.lt_or_ge k fr.length with hl | hg
    · exact frAt_cons_lt f fr k hl
    · rw [frAt_ge fr k hg, frAt_ge (f :: fr) k (by simp; omega)]

theorem range_push (n : Nat) : List.range n ++ [(List.range n).length] = List.range (n + 1) := by
  simp [List.range_succ]

/-- the tables after an opener / an `else`: one key gets bodies appended -/
theorem tied_tables_add (tbl : List (Nat × ToInject)) (sel : Fr → List Tok) (fr : List Fr) (n : Nat) (c : Prop) [Decidable c] (body : List Tok)
    (ht : ∀ k, flat (getInj tbl k) = sel (frAt fr k)) :
    (∀ k, (getInj (if c ∧ body ≠ [] then addFlat tbl n body else tbl) k).flagged = (getInj tbl k).flagged)
    ∧ (∀ k, flat (getInj (if c ∧ body ≠ [] then addFlat tbl n body else tbl) k) = sel (frAt fr k) ++ (if k = n ∧ c then body else [])) := by
  by_cases hc : c ∧ body ≠ []
  · rw [if_pos hc]
    refine ⟨fun k => by rw [addFlat_flagged], fun k => ?_⟩
    rw [addFlat_flat, ht k]
    by_cases hk : k = n <;> simp [hk, hc.1]
  · rw [if_neg hc]
    refine ⟨fun _ => rfl, fun k => ?_⟩
    rw [ht k]
    by_cases hcc : c
    · have : body = [] := by
        by_cases hb : body = []
        · exact hb
        · exact absurd ⟨hcc, hb⟩ hc
      simp [this]
    · simp [hcc]

/-- **openers.** `block` / `loop` / `if` push a frame -/
theorem rcore_open (s : RState) (fr : List Fr) (done rest : List Instr) (c ins : Instr) (hp : Plain ins)
    (ht : Tied s fr) (hb : s.body = done ++ c :: rest) (hk : ins.kind = .block ∨ ins.kind = .loop ∨ ins.kind = .if_) :
    let s' := rcore s done.length ins
    let f : Fr := if ins.kind = .if_ then { ifExit := ins.blockExit, afterA := ins.semAfter }
                  else { exitB := ins.blockExit, afterA := ins.semAfter }
    Tied s' (f :: fr) ∧ Keep s s' ∧ ∃ c', s'.body = done ++ c' :: rest ∧ Chg c c' [] ins.blockEntry := by
  have hbs : ins.kind.isBlockStyle = true := by rcases hk with h | h | h <;> simp [h, Kind.isBlockStyle]
  have hred : rcore s done.length ins = planSpecial { s with stack := s.stack ++ [s.stack.length] } done.length ins := by
    rcases hk with h | h | h <;>
      simp only [rcore, h, hp.blockAlt, ht.del, Bool.false_eq_true, if_false, Option.isNone_none, Option.isSome_none]
  simp only [hred]
  obtain ⟨⟨c', hb', hc'⟩, p1, p2, p3, p4, p5, p6, p7, p8, p9⟩ :=
    planSpecial_spec { s with stack := s.stack ++ [s.stack.length] } done rest c ins hbs hb
  have hst : (s.stack ++ [s.stack.length]) = List.range (fr.length + 1) := by rw [ht.stack]; exact range_push _
  have htop : top (s.stack ++ [s.stack.length]) = fr.length := by rw [hst, top_range_succ]
  simp only [htop] at p7 p8 p9
  have hnew : frAt fr fr.length = {} := frAt_ge fr _ (Nat.le_refl _)
  refine ⟨⟨p2.trans ht.del, by rw [p1, hst]; simp, ?_, ?_, ?_, ?_, ?_, ?_⟩, ⟨p5, p6, p3, p4⟩, c', hb', hc'⟩
  · intro k; rw [p7, (tied_tables_add s.onElseOrEnd (·.ifExit) fr fr.length (ins.kind = .if_) ins.blockExit ht.t1).1]; exact ht.f1 k
  · intro k; rw [p8, (tied_tables_add s.onEndBefore (·.exitB) fr fr.length (ins.kind ≠ .if_) ins.blockExit ht.t2).1]; exact ht.f2 k
  · intro k
    rw [p7, (tied_tables_add s.onElseOrEnd (·.ifExit) fr fr.length (ins.kind = .if_) ins.blockExit ht.t1).2 k, frAt_push]
    by_cases hk' : k = fr.length
    · subst hk'; rw [hnew]
      by_cases hi : ins.kind = .if_ <;> simp [hi]
    · simp [hk']
  · intro k
    rw [p8, (tied_tables_add s.onEndBefore (·.exitB) fr fr.length (ins.kind ≠ .if_) ins.blockExit ht.t2).2 k, frAt_push]
    by_cases hk' : k = fr.length
    · subst hk'; rw [hnew]
      by_cases hi : ins.kind = .if_ <;> simp [hi]
    · simp [hk']
  · intro k
    rw [p9]
    have := (tied_tables_add s.onEndAfter (·.afterA) fr fr.length True ins.semAfter ht.t3).2 k
    simp only [true_and, and_true] at this
    rw [this, frAt_push]
    by_cases hk' : k = fr.length
    · subst hk'; rw [hnew]
      by_cases hi : ins.kind = .if_ <;> simp [hi]
    · simp [hk']
  · intro k
    rw [p9]
    have := (tied_tables_add s.onEndAfter (·.afterA) fr fr.length True ins.semAfter ht.t3).1 k
    simp only [true_and] at this
    rw [this, ht.t3f k, frAt_push]
    by_cases hk' : k = fr.length
    · subst hk'; rw [hnew]
      by_cases hi : ins.kind = .if_ <;> simp [hi]
    · simp [hk']

/-- **instructions that neither open nor close** leave the frames alone -/
theorem rcore_other (s : RState) (fr : List Fr) (ins : Instr) (hp : Plain ins) (ht : Tied s fr)
    (hk : ins.kind ≠ .block ∧ ins.kind ≠ .loop ∧ ins.kind ≠ .if_ ∧ ins.kind ≠ .else_ ∧ ins.kind ≠ .end_) (idx : Nat) :
    rcore s idx ins = s := by
  have hnb : ins.kind.isBlockStyle = false := by
    cases hkk : ins.kind <;> simp_all [Kind.isBlockStyle]
  obtain ⟨h1, h2, h3⟩ := hp.only hnb
  have hps := planSpecial_nospecial s idx ins h1 h2 h3
  cases hkk : ins.kind <;> simp_all [rcore, ht.del]

/-- the pending block-exit bodies of an `if` are put in front of its `else` / `end` -/
def flushE (s : RState) (idx k : Nat) : RState :=
  if s.onElseOrEnd.any (·.1 == k) then
    { s with body := addBefore s.body idx (resolveBodies (getInj s.onElseOrEnd k)), onElseOrEnd := removeInj s.onElseOrEnd k }
  else s

theorem flushE_spec (s : RState) (done rest : List Instr) (c : Instr) (k : Nat) (hb : s.body = done ++ c :: rest)
    (hfl : ∀ j, (getInj s.onElseOrEnd j).flagged = []) :
    let s' := flushE s done.length k
    (∃ c', s'.body = done ++ c' :: rest ∧ Chg c c' (flat (getInj s.onElseOrEnd k)) [])
    ∧ getInj s'.onElseOrEnd k = {} ∧ (∀ j, j ≠ k → getInj s'.onElseOrEnd j = getInj s.onElseOrEnd j)
    ∧ s'.stack = s.stack ∧ s'.deleteBlock = s.deleteBlock ∧ s'.entry = s.entry ∧ s'.exit = s.exit ∧ s'.nlocals = s.nlocals
    ∧ s'.added = s.added ∧ s'.onEndBefore = s.onEndBefore ∧ s'.onEndAfter = s.onEndAfter ∧ s'.retainEnd = s.retainEnd := by
  unfold flushE
  cases ha : s.onElseOrEnd.any (·.1 == k) with
  | true =>
    rw [if_pos rfl]
    refine ⟨⟨{ c with mode := some .before, before := c.before ++ flat (getInj s.onElseOrEnd k) }, ?_, ⟨rfl, by simp, rfl, rfl⟩⟩,
      getInj_removeInj_self _ _, fun j hj => getInj_removeInj_other _ _ _ hj, rfl, rfl, rfl, rfl, rfl, rfl, rfl, rfl, rfl⟩
    simp only [hb, addBefore, modifyAt_mid, resolveBodies_noflag _ (hfl k)]
  | false =>
    rw [if_neg (by simp)]
    have he := getInj_absent _ _ ha
    refine ⟨⟨c, hb, ?_⟩, he, fun _ _ => rfl, rfl, rfl, rfl, rfl, rfl, rfl, rfl, rfl, rfl⟩
    rw [he]; exact ⟨by simp [flat], by simp, rfl, rfl⟩

theorem frAt_top (top : Fr) (rest : List Fr) : frAt (top :: rest) rest.length = top := frAt_cons_top top rest

/-- **`else`.** the pending exit bodies of the `if` go in front of it; the arm's own probes join the frame -/
theorem rcore_else (s : RState) (top : Fr) (rfr : List Fr) (done rest : List Instr) (c ins : Instr) (hp : Plain ins)
    (ht : Tied s (top :: rfr)) (hb : s.body = done ++ c :: rest) (hk : ins.kind = .else_) :
    let s' := rcore s done.length ins
    let f : Fr := { top with ifExit := [], exitB := top.exitB ++ ins.blockExit, afterA := top.afterA ++ ins.semAfter }
    Tied s' (f :: rfr) ∧ Keep s s' ∧ ∃ c', s'.body = done ++ c' :: rest ∧ Chg c c' top.ifExit ins.blockEntry := by
  have hbs : ins.kind.isBlockStyle = true := by simp [hk, Kind.isBlockStyle]
  have htop : Lower.top s.stack = rfr.length := by rw [ht.stack]; simp only [List.length_cons]; exact top_range_succ _
  have hred : rcore s done.length ins = planSpecial (flushE s done.length rfr.length) done.length ins := by
    cases ha : s.onElseOrEnd.any (fun x => x.fst == rfr.length) <;>
      simp only [rcore, flushE, ha, hk, hp.blockAlt, ht.del, htop, Bool.false_eq_true, if_false, if_true, Option.isSome_none]
  simp only [hred]
  obtain ⟨⟨c1, hb1, hc1⟩, q0, q1, q2, q3, q4, q5, q6, q7, q8, q9, _⟩ := flushE_spec s done rest c rfr.length hb ht.f1
  obtain ⟨⟨c', hb', hc'⟩, p1, p2, p3, p4, p5, p6, p7, p8, p9⟩ :=
    planSpecial_spec (flushE s done.length rfr.length) done rest c1 ins hbs hb1
  have hne : ¬ (ins.kind = Kind.if_) := by rw [hk]; simp
  have hne' : ins.kind ≠ Kind.if_ := hne
  simp only [hne, false_and, if_false] at p7
  rw [q2, htop, q8] at p8
  rw [q2, htop, q9] at p9
  have hchg : Chg c c' top.ifExit ins.blockEntry := by
    have := hc1.trans hc'
    have e1 : flat (getInj s.onElseOrEnd rfr.length) = top.ifExit := by rw [ht.t1, frAt_top]
    simpa [e1] using this
  refine ⟨⟨p2.trans (q3.trans ht.del), ?_, ?_, ?_, ?_, ?_, ?_, ?_⟩, ⟨p5.trans q6, p6.trans q7, p3.trans q4, p4.trans q5⟩, c', hb', hchg⟩
  · rw [p1, q2, ht.stack]; simp
  · intro k; rw [p7]
    by_cases hkk : k = rfr.length
    · subst hkk; rw [q0]
    · rw [q1 k hkk]; exact ht.f1 k
  · intro k; rw [p8, (tied_tables_add s.onEndBefore (·.exitB) (top :: rfr) rfr.length (ins.kind ≠ .if_) ins.blockExit ht.t2).1]; exact ht.f2 k
  · intro k; rw [p7, frAt_push]
    by_cases hkk : k = rfr.length
    · subst hkk; rw [q0]; simp [flat]
    · rw [q1 k hkk, ht.t1, frAt_push]; simp [hkk]
  · intro k
    rw [p8, (tied_tables_add s.onEndBefore (·.exitB) (top :: rfr) rfr.length (ins.kind ≠ .if_) ins.blockExit ht.t2).2 k, frAt_push, frAt_push]
    by_cases hkk : k = rfr.length <;> simp [hkk, hne']
  · intro k
    rw [p9]
    have := (tied_tables_add s.onEndAfter (·.afterA) (top :: rfr) rfr.length True ins.semAfter ht.t3).2 k
    simp only [true_and, and_true] at this
    rw [this, frAt_push, frAt_push]
    by_cases hkk : k = rfr.length <;> simp [hkk]
  · intro k
    rw [p9]
    have := (tied_tables_add s.onEndAfter (·.afterA) (top :: rfr) rfr.length True ins.semAfter ht.t3).1 k
    simp only [true_and] at this
    rw [this, ht.t3f k, frAt_push, frAt_push]
    by_cases hkk : k = rfr.length <;> simp [hkk]

/-- what an `end` does once its block id `n` has been popped: flush the three tables at `n` around it -/
def endE (s : RState) (idx n : Nat) : RState :=
  let s := flushE s idx n
  let b := if s.onEndBefore.any (·.1 == n) then addBefore s.body idx (resolveBodies (getInj s.onEndBefore n)) else s.body
  let b := if s.onEndAfter.any (·.1 == n) then addAfter b idx (resolveBodies (getInj s.onEndAfter n)) else b
  { s with body := b, onEndBefore := removeInj s.onEndBefore n, onEndAfter := removeInj s.onEndAfter n }

theorem resolveBodies_empty : resolveBodies {} = [] := rfl

theorem endE_spec (s : RState) (done rest : List Instr) (c : Instr) (n : Nat) (hb : s.body = done ++ c :: rest)
    (h1 : ∀ j, (getInj s.onElseOrEnd j).flagged = []) (h2 : ∀ j, (getInj s.onEndBefore j).flagged = []) :
    let s' := endE s done.length n
    (∃ c', s'.body = done ++ c' :: rest
        ∧ Chg c c' (flat (getInj s.onElseOrEnd n) ++ flat (getInj s.onEndBefore n)) (resolveBodies (getInj s.onEndAfter n)))
    ∧ getInj s'.onElseOrEnd n = {} ∧ getInj s'.onEndBefore n = {} ∧ getInj s'.onEndAfter n = {}
    ∧ (∀ j, j ≠ n → getInj s'.onElseOrEnd j = getInj s.onElseOrEnd j ∧ getInj s'.onEndBefore j = getInj s.onEndBefore j
        ∧ getInj s'.onEndAfter j = getInj s.onEndAfter j)
    ∧ s'.stack = s.stack ∧ s'.deleteBlock = s.deleteBlock ∧ s'.entry = s.entry ∧ s'.exit = s.exit ∧ s'.nlocals = s.nlocals
    ∧ s'.added = s.added := by
  obtain ⟨⟨c1, hb1, hc1⟩, q0, q1, q2, q3, q4, q5, q6, q7, q8, q9, _⟩ := flushE_spec s done rest c n hb h1
  unfold endE
  simp only []
  rw [q8, q9]
  have rB := resolveBodies_noflag _ (h2 n)
  refine ⟨?_, q0, getInj_removeInj_self _ _, getInj_removeInj_self _ _,
    fun j hj => ⟨q1 j hj, getInj_removeInj_other _ _ _ hj, getInj_removeInj_other _ _ _ hj⟩, q2, q3, q4, q5, q6, q7⟩
  cases hB : s.onEndBefore.any (·.1 == n) <;> cases hA : s.onEndAfter.any (·.1 == n)
  · -- nothing pending at this `end`
    have eB := getInj_absent _ _ hB
    have eA := getInj_absent _ _ hA
    refine ⟨c1, by simpa using hb1, ?_⟩
    rw [eB, eA, resolveBodies_empty]
    have := hc1
    simpa [flat, Chg] using this
  · have eB := getInj_absent _ _ hB
    refine ⟨{ c1 with mode := some .after, after := c1.after ++ resolveBodies (getInj s.onEndAfter n) }, ?_, ?_⟩
    · simp only [Bool.false_eq_true, if_false, if_true, hb1, addAfter, modifyAt_mid]
    · rw [eB]
      exact ⟨by simp [hc1.1, flat], by simp [hc1.2.1], hc1.2.2.1, hc1.2.2.2⟩
  · have eA := getInj_absent _ _ hA
    refine ⟨{ c1 with mode := some .before, before := c1.before ++ flat (getInj s.onEndBefore n) }, ?_, ?_⟩
    · simp only [Bool.false_eq_true, if_false, if_true, hb1, addBefore, modifyAt_mid, rB]
    · rw [eA, resolveBodies_empty]
      exact ⟨by simp [hc1.1, List.append_assoc], by simp [hc1.2.1], hc1.2.2.1, hc1.2.2.2⟩
  · refine ⟨{ c1 with mode := some .after, before := c1.before ++ flat (getInj s.onEndBefore n),
                       after := c1.after ++ resolveBodies (getInj s.onEndAfter n) }, ?_, ?_⟩
    · simp only [if_true, hb1, addBefore, addAfter, modifyAt_mid, rB]
    · exact ⟨by simp [hc1.1, List.append_assoc], by simp [hc1.2.1], hc1.2.2.1, hc1.2.2.2⟩

/-- **`end`.** the frame is popped; its bodies go around the `end` -/
theorem rcore_end (s : RState) (top : Fr) (rfr : List Fr) (done rest : List Instr) (c ins : Instr) (hp : Plain ins)
    (ht : Tied s (top :: rfr)) (hb : s.body = done ++ c :: rest) (hk : ins.kind = .end_) :
    let s' := rcore s done.length ins
    Tied s' rfr ∧ Keep s s' ∧ ∃ c', s'.body = done ++ c' :: rest ∧ Chg c c' (top.ifExit ++ top.exitB) (endAfter top) := by
  have hnb : ins.kind.isBlockStyle = false := by simp [hk, Kind.isBlockStyle]
  obtain ⟨z1, z2, z3⟩ := hp.only hnb
  have hst : s.stack = List.range (rfr.length + 1) := by rw [ht.stack]; rfl
  have hred : rcore s done.length ins = endE { s with stack := List.range rfr.length } done.length rfr.length := by
    have hnone : ((none : Option Nat) == some rfr.length) = false := rfl
    cases ha : s.onElseOrEnd.any (fun x => x.fst == rfr.length) <;> cases hB : s.onEndBefore.any (fun x => x.fst == rfr.length) <;>
      cases hA : s.onEndAfter.any (fun x => x.fst == rfr.length) <;>
      simp only [rcore, endE, flushE, ha, hB, hA, hk, ht.del, hst, range_succ_getLast, range_succ_dropLast, hnone,
        Bool.false_eq_true, if_false, if_true, planSpecial_nospecial _ _ _ z1 z2 z3]
  simp only [hred]
  obtain ⟨⟨c', hb', hc'⟩, e1, e2, e3, e4, e5, e6, e7, e8, e9, e10⟩ :=
    endE_spec { s with stack := List.range rfr.length } done rest c rfr.length hb ht.f1 ht.f2
  have hpop : ∀ k, k ≠ rfr.length → frAt (top :: rfr) k = frAt rfr k := by
    intro k hk'; rw [frAt_push]; simp [hk']
  have hge : frAt rfr rfr.length = {} := frAt_ge rfr _ (Nat.le_refl _)
  refine ⟨⟨e6.trans ht.del, e5, ?_, ?_, ?_, ?_, ?_, ?_⟩, ⟨e9, e10, e7, e8⟩, c', hb', ?_⟩
  · intro k
    by_cases hk' : k = rfr.length
    · subst hk'; rw [e1]
    · rw [(e4 k hk').1]; exact ht.f1 k
  · intro k
    by_cases hk' : k = rfr.length
    · subst hk'; rw [e2]
    · rw [(e4 k hk').2.1]; exact ht.f2 k
  · intro k
    by_cases hk' : k = rfr.length
    · subst hk'; rw [e1, hge]; rfl
    · rw [(e4 k hk').1]; show flat (getInj s.onElseOrEnd k) = _; rw [ht.t1, hpop k hk']
  · intro k
    by_cases hk' : k = rfr.length
    · subst hk'; rw [e2, hge]; rfl
    · rw [(e4 k hk').2.1]; show flat (getInj s.onEndBefore k) = _; rw [ht.t2, hpop k hk']
  · intro k
    by_cases hk' : k = rfr.length
    · subst hk'; rw [e3, hge]; rfl
    · rw [(e4 k hk').2.2]; show flat (getInj s.onEndAfter k) = _; rw [ht.t3, hpop k hk']
  · intro k
    by_cases hk' : k = rfr.length
    · subst hk'; rw [e3, hge]
    · rw [(e4 k hk').2.2]; show (getInj s.onEndAfter k).flagged = _; rw [ht.t3f, hpop k hk']
  · have a1 : flat (getInj s.onElseOrEnd rfr.length) = top.ifExit := by rw [ht.t1, frAt_top]
    have a2 : flat (getInj s.onEndBefore rfr.length) = top.exitB := by rw [ht.t2, frAt_top]
    have a3 : resolveBodies (getInj s.onEndAfter rfr.length) = endAfter top := by
      rw [resolveBodies_eq, ht.t3, ht.t3f, frAt_top]; rfl
    have := hc'
    simp only [a1, a2, a3] at this
    exact this

/-- **one step of the resolver is one step of the stack machine** -/
theorem rcore_tied (s : RState) (fr : List Fr) (done rest : List Instr) (c ins : Instr) (hp : Plain ins)
    (ht : Tied s fr) (hb : s.body = done ++ c :: rest) (fr' : List Fr) (B A : List Tok) (hs : specStep fr ins = some (fr', B, A)) :
    let s' := rcore s done.length ins
    Tied s' fr' ∧ Keep s s' ∧ ∃ c', s'.body = done ++ c' :: rest ∧ Chg c c' B A := by
  cases hk : ins.kind with
  | block =>
    simp only [specStep, hk, Option.some.injEq, Prod.mk.injEq] at hs
    obtain ⟨rfl, rfl, rfl⟩ := hs
    obtain ⟨t, n1, c', hb', hc'⟩ := rcore_open s fr done rest c ins hp ht hb (.inl hk)
    simp only [hk, reduceCtorEq, if_false] at t
    exact ⟨t, n1, c', hb', hc'⟩
  | loop =>
    simp only [specStep, hk, Option.some.injEq, Prod.mk.injEq] at hs
    obtain ⟨rfl, rfl, rfl⟩ := hs
    obtain ⟨t, n1, c', hb', hc'⟩ := rcore_open s fr done rest c ins hp ht hb (.inr (.inl hk))
    simp only [hk, reduceCtorEq, if_false] at t
    exact ⟨t, n1, c', hb', hc'⟩
  | if_ =>
    simp only [specStep, hk, Option.some.injEq, Prod.mk.injEq] at hs
    obtain ⟨rfl, rfl, rfl⟩ := hs
    obtain ⟨t, n1, c', hb', hc'⟩ := rcore_open s fr done rest c ins hp ht hb (.inr (.inr hk))
    simp only [hk, if_true] at t
    exact ⟨t, n1, c', hb', hc'⟩
  | else_ =>
    cases fr with
    | nil => simp [specStep, hk] at hs
    | cons top rfr =>
      cases rfr with
      | nil => simp [specStep, hk] at hs
      | cons below rfr =>
        simp only [specStep, hk, Option.some.injEq, Prod.mk.injEq] at hs
        obtain ⟨rfl, rfl, rfl⟩ := hs
        exact rcore_else s top (below :: rfr) done rest c ins hp ht hb hk
  | end_ =>
    cases fr with
    | nil => simp [specStep, hk] at hs
    | cons top rfr =>
      simp only [specStep, hk, Option.some.injEq, Prod.mk.injEq] at hs
      obtain ⟨rfl, rfl, rfl⟩ := hs
      exact rcore_end s top rfr done rest c ins hp ht hb hk
  | br _ | brIf _ | brTable _ _ | exitLike | other =>
    all_goals
      simp only [specStep, hk, Option.some.injEq, Prod.mk.injEq] at hs
      obtain ⟨rfl, rfl, rfl⟩ := hs
      have := rcore_other s fr ins hp ht (by simp [hk]) done.length
      rw [this]
      exact ⟨ht, Keep.refl s, c, hb, Chg.refl c⟩

/-- **the whole loop.** -/
theorem rloop_tied (last : Nat) : ∀ (xs : List Instr) (s : RState) (fr : List Fr) (done : List Instr) (out : List Tok),
    (∀ x ∈ xs, Plain x) → Tied s fr → s.entry = [] → s.exit = [] → s.body = done ++ xs → specRun last done.length fr xs = some out →
    let s' := rloop last s done.length xs
    ∃ done', s'.body = done ++ done' ∧ done'.length = xs.length ∧ emitFrom last done.length done' = out ∧ s'.added = s.added
      ∧ s'.nlocals = s.nlocals := by
  intro xs
  induction xs with
  | nil =>
    intro s fr done out _ _ _ _ hb hs
    simp only [specRun] at hs
    split at hs
    · simp only [Option.some.injEq] at hs; subst hs
      exact ⟨[], by simpa [rloop] using hb, rfl, rfl, rfl, rfl⟩
    · cases hs
  | cons x xs ih =>
    intro s fr done out hp ht hen hex hb hs
    simp only [specRun] at hs
    cases h1 : specStep fr x with
    | none => simp [h1] at hs
    | some r =>
      obtain ⟨fr', B, A⟩ := r
      simp only [h1] at hs
      split at hs
      · cases hs
      cases h2 : specRun last (done.length + 1) fr' xs with
      | none => simp [h2] at hs
      | some outr =>
        simp only [h2, Option.some.injEq] at hs
        have hpx := hp x (List.mem_cons_self ..)
        have hstep : rstep last s done.length x = rcore s done.length x := by rw [rstep_eq, rpre_nil _ _ _ _ hen hex]
        obtain ⟨t, ⟨n1, n2, n3, n4⟩, c', hb', cb, ca, cal, ctok⟩ := rcore_tied s fr done xs x x hpx ht hb fr' B A h1
        rw [← hstep] at t n1 n2 n3 n4 hb'
        have hb2 : (rstep last s done.length x).body = (done ++ [c']) ++ xs := by rw [hb']; simp
        have hlen : (done ++ [c']).length = done.length + 1 := by simp
        obtain ⟨d', e1, e0, e2, e3, e4⟩ := ih (rstep last s done.length x) fr' (done ++ [c']) outr
          (fun y hy => hp y (List.mem_cons_of_mem _ hy)) t (n3.trans hen) (n4.trans hex) hb2 (by rw [hlen]; exact h2)
        refine ⟨c' :: d', ?_, by simp [e0], ?_, ?_, ?_⟩
        · simp only [rloop]; rw [← hlen, e1]; simp
        · simp only [emitFrom, cb, ca, cal, ctok]
          rw [← hlen, e2, ← hs]
          cases x.alt <;> by_cases hl : done.length ≥ last <;> simp [hl]
        · simp only [rloop]; rw [← hlen, e3, n2]
        · simp only [rloop]; rw [← hlen, e4, n1]

/-! ### from the loop to the encoded function -/

def stripMode (i : Instr) : Instr := { i with mode := none }

theorem specStep_stripMode (fr : List Fr) (i : Instr) : specStep fr (stripMode i) = specStep fr i := rfl

theorem specRun_stripMode (last : Nat) : ∀ (xs : List Instr) (idx : Nat) (fr : List Fr),
    specRun last idx fr (xs.map stripMode) = specRun last idx fr xs := by
  intro xs
  induction xs with
  | nil => intro idx fr; rfl
  | cons x xs ih =>
    intro idx fr
    simp only [List.map_cons, specRun, specStep_stripMode]
    cases specStep fr x with
    | none => rfl
    | some r =>
      have : (xs.map stripMode).isEmpty = xs.isEmpty := by cases xs <;> rfl
      simp only [ih, this]; rfl

theorem map_stripMode_modifyAt (xs : List Instr) (j : Nat) (m : Option Mode) :
    (modifyAt xs j (fun i => { i with mode := m })).map stripMode = xs.map stripMode := by
  unfold modifyAt
  cases h : xs[j]? with
  | none => rfl
  | some x =>
    apply List.ext_getElem?
    intro k
    simp only [List.getElem?_map, List.getElem?_set]
    by_cases hk : j = k
    · subst hk
      have hl : j < xs.length := by
        rcases Nat.lt_or_ge j xs.length with h' | h'
        · exact h'
        · rw [List.getElem?_eq_none h'] at h; cases h
      simp only [hl, if_true, h, Option.map_some]
      rfl
    · simp [hk]

theorem plain_modifyAt_mode (xs : List Instr) (j : Nat) (m : Option Mode) (hp : ∀ x ∈ xs, Plain x) :
    ∀ y ∈ modifyAt xs j (fun i => { i with mode := m }), Plain y := by
  intro y hy
  unfold modifyAt at hy
  cases h : xs[j]? with
  | none => simp only [h] at hy; exact hp y hy
  | some x =>
    simp only [h] at hy
    rcases List.mem_or_eq_of_mem_set hy with h1 | h1
    · exact hp y h1
    · have hx : x ∈ xs := List.mem_of_getElem? h
      have px := hp x hx
      subst h1
      exact ⟨px.blockAlt, px.only⟩

theorem tied_init (body : List Instr) (entry exit : List Tok) (nlocals : Nat) :
    Tied ({ body := body, entry := entry, exit := exit, nlocals := nlocals } : RState) [{}] := by
  refine ⟨rfl, rfl, ?_, ?_, ?_, ?_, ?_, ?_⟩ <;> intro k <;>
    first
      | rfl
      | (show ([] : List Tok) = _
         unfold frAt
         cases k <;> rfl)
      | (show ([] : List (List Tok × Nat)) = _
         unfold frAt
         cases k <;> rfl)

/-- **The resolver refines the stack machine.** For every function whose instrumentation consists of `before` / `after` probes
    anywhere and block-entry / block-exit / semantic-after probes on any constructs — any number, nested in any way —, the encoded
    body is the one `specRun` gives, and no local is added. -/
theorem lower_eq_spec (f : Func) (hsp : f.hasSpecial = true) (hentry : f.entry = []) (hexit : f.exit = [])
    (hp : ∀ x ∈ f.body, Plain x) (out : List Tok) (hs : specRun (f.body.length - 1) 0 [{}] f.body = some out) :
    lower f = (out, f.added) := by
  let body0 := modifyAt f.body (f.body.length - 1) (fun i => { i with mode := some .before })
  have hp0 : ∀ x ∈ body0, Plain x := plain_modifyAt_mode f.body _ _ hp
  have hs0 : specRun (f.body.length - 1) 0 [{}] body0 = some out := by
    rw [← specRun_stripMode, map_stripMode_modifyAt, specRun_stripMode]; exact hs
  have hlen0 : body0.length = f.body.length := by
    show (modifyAt f.body _ _).length = _
    unfold modifyAt; split <;> simp
  obtain ⟨d', e1, e0, e2, e3, _⟩ := rloop_tied (f.body.length - 1) body0
    { body := body0, entry := [], exit := [], nlocals := f.nlocals } [{}] [] out hp0 (tied_init body0 [] [] f.nlocals) rfl rfl (by simp) hs0
  simp only [List.length_nil, List.nil_append] at e1 e2 e3
  have hd' : d'.length = f.body.length := by rw [e0, hlen0]
  unfold lower resolveSpecial
  simp only [hsp, Bool.not_true, Bool.false_eq_true, if_false, hexit, hentry, List.isEmpty_nil, if_true]
  refine Prod.ext ?_ ?_
  · show emitFrom _ 0 (rloop (f.body.length - 1) { body := body0, entry := [], exit := [], nlocals := f.nlocals } 0 body0).body = out
    rw [e1, hd']; exact e2
  · show f.added + (rloop (f.body.length - 1) { body := body0, entry := [], exit := [], nlocals := f.nlocals } 0 body0).added = f.added
    rw [e3]; rfl

/-! ### nothing is lost -/

theorem dropLast_cons_of_ne {α : Type} (a : α) (l : List α) (h : l ≠ []) : (a :: l).dropLast = a :: l.dropLast := by
  cases l with
  | nil => exact absurd rfl h
  | cons b l => rfl

/-- **every probe the stack machine is given comes out**: what waits in the frames, and — of the instructions still to come — all
    `before` code, all block-entry and block-exit code, all semantic-after code (frames other than the function body's own, which has
    none), and all `after` code except that of the last instruction (the encoder drops `after` at the function's final `end`). -/
theorem specRun_keeps (last : Nat) : ∀ (xs : List Instr) (idx : Nat) (fr : List Fr) (out : List Tok),
    specRun last idx fr xs = some out → idx + xs.length ≤ last + 1 → fr ≠ [] ∨ xs = [] →
    (∀ f ∈ fr, ∀ t, t ∈ f.ifExit ∨ t ∈ f.exitB → t ∈ out)
    ∧ (∀ f ∈ fr.dropLast, ∀ t ∈ f.afterA, t ∈ out)
    ∧ (∀ x ∈ xs, (∀ t ∈ x.before, t ∈ out)
        ∧ (x.kind.isBlockStyle = true → ∀ t, t ∈ x.blockEntry ∨ t ∈ x.blockExit ∨ t ∈ x.semAfter → t ∈ out)) := by
  intro xs
  induction xs with
  | nil =>
    intro idx fr out hs _ _
    simp only [specRun] at hs
    split at hs
    · rename_i he
      have : fr = [] := List.isEmpty_iff.mp he
      subst this
      simp
    · cases hs
  | cons x xs ih =>
    intro idx fr out hs hl hfr
    have hfr' : fr ≠ [] := by rcases hfr with h | h; exact h; cases h
    simp only [specRun] at hs
    cases h1 : specStep fr x with
    | none => simp [h1] at hs
    | some r =>
      obtain ⟨fr', B, A⟩ := r
      simp only [h1] at hs
      split at hs
      · cases hs
      rename_i hguard
      cases h2 : specRun last (idx + 1) fr' xs with
      | none => simp [h2] at hs
      | some outr =>
        simp only [h2, Option.some.injEq] at hs
        have hguard' : fr' ≠ [] ∨ xs = [] := by
          by_cases hx : xs = []
          · exact .inr hx
          · left; intro e; subst e
            have : xs.isEmpty = false := by cases xs with | nil => exact absurd rfl hx | cons _ _ => rfl
            simp [this] at hguard
        obtain ⟨k1, k2, k3⟩ := ih (idx + 1) fr' outr h2 (by simp only [List.length_cons] at hl; omega) hguard'
        have inX : ∀ t ∈ x.before, t ∈ out := by intro t ht; rw [← hs]; simp [ht]
        have inB : ∀ t ∈ B, t ∈ out := by intro t ht; rw [← hs]; simp [ht]
        have inR : ∀ t ∈ outr, t ∈ out := by intro t ht; rw [← hs]; simp [ht]
        -- `A` is emitted unless this is the last instruction
        have inA : xs ≠ [] → ∀ t ∈ A, t ∈ out := by
          intro hx t ht
          have hlt : ¬ idx ≥ last := by
            have : xs.length ≥ 1 := List.length_pos_iff.mpr hx
            simp only [List.length_cons] at hl; omega
          rw [← hs]; simp [hlt, ht]
        have rest : ∀ y ∈ xs, (∀ t ∈ y.before, t ∈ out)
            ∧ (y.kind.isBlockStyle = true → ∀ t, t ∈ y.blockEntry ∨ t ∈ y.blockExit ∨ t ∈ y.semAfter → t ∈ out) :=
          fun y hy => ⟨fun t ht => inR t ((k3 y hy).1 t ht), fun hb t ht => inR t ((k3 y hy).2 hb t ht)⟩
        cases hk : x.kind with
        | block | loop | if_ =>
          all_goals
            simp only [specStep, hk, Option.some.injEq, Prod.mk.injEq] at h1
            obtain ⟨rfl, rfl, rfl⟩ := h1
            have hxs : xs ≠ [] := by
              intro e; subst e
              simp [specRun] at h2
            have hnew := k1 _ (List.mem_cons_self ..)
            have hnewA := k2 _ (by rw [dropLast_cons_of_ne _ _ hfr']; exact List.mem_cons_self ..)
            refine ⟨fun f hf t ht => inR t (k1 f (List.mem_cons_of_mem _ hf) t ht),
              fun f hf t ht => inR t (k2 f (by rw [dropLast_cons_of_ne _ _ hfr']; exact List.mem_cons_of_mem _ hf) t ht), ?_⟩
            intro y hy
            rcases List.mem_cons.mp hy with rfl | hy
            · refine ⟨inX, fun _ t ht => ?_⟩
              rcases ht with ht | ht | ht
              · exact inA hxs t ht
              · exact inR t (hnew t (by simp [ht]))
              · exact inR t (hnewA t (by simpa using ht))
            · exact rest y hy
        | else_ =>
          cases fr with
          | nil => exact absurd rfl hfr'
          | cons top rfr =>
            cases rfr with
            | nil => simp [specStep, hk] at h1
            | cons below rfr =>
              simp only [specStep, hk, Option.some.injEq, Prod.mk.injEq] at h1
              obtain ⟨rfl, rfl, rfl⟩ := h1
              have hxs : xs ≠ [] := by
                intro e; subst e
                simp [specRun] at h2
              have hnew := k1 _ (List.mem_cons_self ..)
              have hr : below :: rfr ≠ [] := by simp
              have hnewA := k2 _ (by rw [dropLast_cons_of_ne _ _ hr]; exact List.mem_cons_self ..)
              refine ⟨?_, ?_, ?_⟩
              · intro f hf t ht
                rcases List.mem_cons.mp hf with rfl | hf
                · rcases ht with ht | ht
                  · exact inB t ht
                  · exact inR t (hnew t (by simp [ht]))
                · exact inR t (k1 f (List.mem_cons_of_mem _ hf) t ht)
              · intro f hf t ht
                rw [dropLast_cons_of_ne _ _ hr] at hf
                rcases List.mem_cons.mp hf with rfl | hf
                · exact inR t (hnewA t (by simp [ht]))
                · exact inR t (k2 f (by rw [dropLast_cons_of_ne _ _ hr]; exact List.mem_cons_of_mem _ hf) t ht)
              · intro y hy
                rcases List.mem_cons.mp hy with rfl | hy
                · refine ⟨inX, fun _ t ht => ?_⟩
                  rcases ht with ht | ht | ht
                  · exact inA hxs t ht
                  · exact inR t (hnew t (by simp [ht]))
                  · exact inR t (hnewA t (by simp [ht]))
                · exact rest y hy
        | end_ =>
          cases fr with
          | nil => exact absurd rfl hfr'
          | cons top rfr =>
            simp only [specStep, hk, Option.some.injEq, Prod.mk.injEq] at h1
            obtain ⟨rfl, rfl, rfl⟩ := h1
            refine ⟨?_, ?_, ?_⟩
            · intro f hf t ht
              rcases List.mem_cons.mp hf with rfl | hf
              · exact inB t (by rcases ht with ht | ht <;> simp [ht])
              · exact inR t (k1 f hf t ht)
            · intro f hf t ht
              by_cases hr : rfr = []
              · subst hr; simp at hf
              · rw [dropLast_cons_of_ne _ _ hr] at hf
                have hxs : xs ≠ [] := by
                  intro e; subst e
                  simp only [specRun] at h2
                  split at h2
                  · rename_i he; exact hr (List.isEmpty_iff.mp he)
                  · cases h2
                rcases List.mem_cons.mp hf with rfl | hf
                · exact inA hxs t (by simp [endAfter, ht])
                · exact inR t (k2 f hf t ht)
            · intro y hy
              rcases List.mem_cons.mp hy with rfl | hy
              · exact ⟨inX, fun hb => by simp [hk, Kind.isBlockStyle] at hb⟩
              · exact rest y hy
        | br _ | brIf _ | brTable _ _ | exitLike | other =>
          all_goals
            simp only [specStep, hk, Option.some.injEq, Prod.mk.injEq] at h1
            obtain ⟨rfl, rfl, rfl⟩ := h1
            refine ⟨fun f hf t ht => inR t (k1 f hf t ht), fun f hf t ht => inR t (k2 f hf t ht), ?_⟩
            intro y hy
            rcases List.mem_cons.mp hy with rfl | hy
            · exact ⟨inX, fun hb => by simp [hk, Kind.isBlockStyle] at hb⟩
            · exact rest y hy

/-- **no block-level probe is lost, for any plan in scope**: every `before` token, every block-entry, block-exit and semantic-after
    token on a construct is in the encoded function -/
theorem lower_keeps_all (f : Func) (hsp : f.hasSpecial = true) (hentry : f.entry = []) (hexit : f.exit = [])
    (hp : ∀ x ∈ f.body, Plain x) (out : List Tok) (hs : specRun (f.body.length - 1) 0 [{}] f.body = some out) :
    ∀ x ∈ f.body, (∀ t ∈ x.before, t ∈ (lower f).1)
      ∧ (x.kind.isBlockStyle = true → ∀ t, t ∈ x.blockEntry ∨ t ∈ x.blockExit ∨ t ∈ x.semAfter → t ∈ (lower f).1) := by
  rw [lower_eq_spec f hsp hentry hexit hp out hs]
  exact (specRun_keeps (f.body.length - 1) f.body 0 [{}] out hs (by omega) (.inl (by simp))).2.2

end Orca.Lower
