import Orca.Lemmas.StackFull
/-!
**The lowering resolves in place, completely.** Whatever the body and the plan — no well-nestedness assumed —, one iteration of the
resolver touches the body at the current index only, and leaves that instruction without special lists; hence after
`resolve_special_instrumentation` no special list is left anywhere in the function, a second resolution changes nothing, and encoding
again gives the same code and adds no further local (the lowering half of C05).
-/
namespace Orca.Lower

theorem getElem?_modifyAt (b : List Instr) (idx j : Nat) (g : Instr → Instr) :
    (modifyAt b idx g)[j]? = if j = idx then (b[j]?).map g else b[j]? := by
  unfold modifyAt
  cases h : b[idx]? with
  | none =>
    by_cases hj : j = idx
    · subst hj; simp [h]
    · simp [hj]
  | some x =>
    simp only [List.getElem?_set]
    by_cases hj : j = idx
    · subst hj
      have hl : j < b.length := by
        rcases Nat.lt_or_ge j b.length with h' | h'
        · exact h'
        · rw [List.getElem?_eq_none h'] at h; cases h
      have hx : b[j] = x := by
        have := List.getElem?_eq_getElem hl
        rw [h] at this; exact (Option.some.inj this).symm
      simp [hl, h, hx]
    · have : ¬ idx = j := fun e => hj e.symm
      simp [this, hj]

theorem modifyAt_modifyAt (b : List Instr) (idx : Nat) (g1 g2 : Instr → Instr) :
    modifyAt (modifyAt b idx g1) idx g2 = modifyAt b idx (g2 ∘ g1) := by
  apply List.ext_getElem?
  intro j
  rw [getElem?_modifyAt, getElem?_modifyAt, getElem?_modifyAt]
  by_cases hj : j = idx
  · simp [hj]
  · simp [hj]

theorem modifyAt_id (b : List Instr) (idx : Nat) : modifyAt b idx id = b := by
  apply List.ext_getElem?
  intro j
  rw [getElem?_modifyAt]
  by_cases hj : j = idx <;> simp [hj]

/-- `b'` is `b` with the instruction at `idx` changed, and `R` relates the old and the new instruction -/
def BodyOp (b b' : List Instr) (idx : Nat) (R : Instr → Instr → Prop) : Prop :=
  ∃ G : Instr → Instr, b' = modifyAt b idx G ∧ ∀ x, R x (G x)

theorem BodyOp.refl (b : List Instr) (idx : Nat) (R : Instr → Instr → Prop) (hR : ∀ x, R x x) : BodyOp b b idx R :=
  ⟨id, (modifyAt_id b idx).symm, hR⟩

theorem BodyOp.trans {b1 b2 b3 : List Instr} {idx : Nat} {R1 R2 R3 : Instr → Instr → Prop}
    (h1 : BodyOp b1 b2 idx R1) (h2 : BodyOp b2 b3 idx R2) (hR : ∀ x y z, R1 x y → R2 y z → R3 x z) : BodyOp b1 b3 idx R3 := by
  obtain ⟨G1, e1, r1⟩ := h1
  obtain ⟨G2, e2, r2⟩ := h2
  exact ⟨G2 ∘ G1, by rw [e2, e1, modifyAt_modifyAt], fun x => hR x (G1 x) (G2 (G1 x)) (r1 x) (r2 (G1 x))⟩

theorem BodyOp.mono {b b' : List Instr} {idx : Nat} {R R' : Instr → Instr → Prop} (h : BodyOp b b' idx R) (hR : ∀ x y, R x y → R' x y) :
    BodyOp b b' idx R' := by
  obtain ⟨G, e, r⟩ := h
  exact ⟨G, e, fun x => hR x (G x) (r x)⟩

theorem BodyOp.modify (b : List Instr) (idx : Nat) (g : Instr → Instr) (R : Instr → Instr → Prop) (hR : ∀ x, R x (g x)) :
    BodyOp b (modifyAt b idx g) idx R := ⟨g, rfl, hR⟩

/-- the special lists (and the block alternate) are those of the other instruction -/
def KeepSp (x y : Instr) : Prop :=
  y.semAfter = x.semAfter ∧ y.blockEntry = x.blockEntry ∧ y.blockExit = x.blockExit ∧ y.blockAlt = x.blockAlt

theorem KeepSp.refl (x : Instr) : KeepSp x x := ⟨rfl, rfl, rfl, rfl⟩
theorem KeepSp.trans {x y z : Instr} (h1 : KeepSp x y) (h2 : KeepSp y z) : KeepSp x z :=
  ⟨h2.1.trans h1.1, h2.2.1.trans h1.2.1, h2.2.2.1.trans h1.2.2.1, h2.2.2.2.trans h1.2.2.2⟩

/-- no special list is left on the instruction -/
def Cleared (x : Instr) : Prop := x.semAfter = [] ∧ x.blockEntry = [] ∧ x.blockExit = [] ∧ x.blockAlt = none

theorem addBefore_op (b : List Instr) (idx : Nat) (ts : List Tok) : BodyOp b (addBefore b idx ts) idx KeepSp :=
  BodyOp.modify b idx _ KeepSp (fun _ => ⟨rfl, rfl, rfl, rfl⟩)

theorem addAfter_op (b : List Instr) (idx : Nat) (ts : List Tok) : BodyOp b (addAfter b idx ts) idx KeepSp :=
  BodyOp.modify b idx _ KeepSp (fun _ => ⟨rfl, rfl, rfl, rfl⟩)

theorem mark_op (b : List Instr) (idx : Nat) : BodyOp b (discardSpecial (setEmptyAlt b idx) idx) idx (fun _ y => Cleared y) := by
  unfold discardSpecial setEmptyAlt
  rw [modifyAt_modifyAt]
  exact BodyOp.modify b idx _ _ (fun _ => ⟨rfl, rfl, rfl, rfl⟩)

theorem planBlockAlt_op (b : List Instr) (idx : Nat) (alt : List Tok) : BodyOp b (planBlockAlt b idx alt) idx (fun _ y => Cleared y) := by
  unfold planBlockAlt
  split
  · exact mark_op b idx
  · unfold discardSpecial
    rw [modifyAt_modifyAt]
    exact BodyOp.modify b idx _ _ (fun _ => ⟨rfl, rfl, rfl, rfl⟩)

/-- the semantic-after stage of `planSpecial`, for every kind of instruction -/
def stageSemG (s : RState) (idx : Nat) (ins : Instr) : RState :=
  if ins.semAfter.isEmpty then s
  else
    let park (s : RState) (fl : Nat) (depth : Nat) : RState :=
      let k := top s.stack - depth
      let cur := getInj s.onEndAfter k
      { s with onEndAfter := setInj s.onEndAfter k { cur with flagged := cur.flagged ++ [(ins.semAfter, fl)] } }
    let flag (s : RState) (inline : Bool) : RState × Nat :=
      let fl := s.nlocals
      let b := addBefore s.body idx [tConst 1, tLocalSet fl]
      let b := addAfter b idx ([tConst 0, tLocalSet fl] ++ (if inline then ins.semAfter else []))
      ({ s with body := b, nlocals := s.nlocals + 1, added := s.added + 1 }, fl)
    let s := match ins.kind with
      | .block | .loop | .if_ | .else_ =>
        let k := top s.stack
        let cur := getInj s.onEndAfter k
        { s with onEndAfter := setInj s.onEndAfter k { cur with notFlagged := cur.notFlagged ++ [ins.semAfter] } }
      | .brTable targets d =>
        let (s, fl) := flag s false
        park (targets.foldl (fun s t => park s fl t) s) fl d
      | .br d => let (s, fl) := flag s false; park s fl d
      | .brIf d => let (s, fl) := flag s true; park s fl d
      | _ => s
    { s with body := modifyAt s.body idx (fun i => { i with semAfter := [] }) }

theorem planSpecial_eq (s : RState) (idx : Nat) (ins : Instr) :
    planSpecial s idx ins = if !ins.hasInstr then s else stageSemG (stageExit (stageEntry s idx ins) idx ins) idx ins := rfl

/-- what a stage leaves of the special lists: the one it is responsible for is emptied (when it held what the loop's copy of the
    instruction holds), the others and the block alternate are kept -/
def R0 (ins x y : Instr) : Prop :=
  y.blockAlt = x.blockAlt ∧ (x.blockEntry = ins.blockEntry → y.blockEntry = []) ∧ y.blockExit = x.blockExit ∧ y.semAfter = x.semAfter
def R1 (ins x y : Instr) : Prop :=
  y.blockAlt = x.blockAlt ∧ y.blockEntry = x.blockEntry ∧ (x.blockExit = ins.blockExit → y.blockExit = []) ∧ y.semAfter = x.semAfter
def R2 (ins x y : Instr) : Prop :=
  y.blockAlt = x.blockAlt ∧ y.blockEntry = x.blockEntry ∧ y.blockExit = x.blockExit ∧ (x.semAfter = ins.semAfter → y.semAfter = [])

theorem stageEntry_op (s : RState) (idx : Nat) (ins : Instr) : BodyOp s.body (stageEntry s idx ins).body idx (R0 ins) := by
  unfold stageEntry
  cases hE : ins.blockEntry.isEmpty with
  | true =>
    have : ins.blockEntry = [] := List.isEmpty_iff.mp hE
    simp only [if_true]
    exact BodyOp.refl _ _ _ (fun x => ⟨rfl, fun h => h.trans this, rfl, rfl⟩)
  | false =>
    simp only [Bool.false_eq_true, if_false]
    split
    · unfold addAfter
      rw [modifyAt_modifyAt]
      exact BodyOp.modify _ _ _ _ (fun x => ⟨rfl, fun _ => rfl, rfl, rfl⟩)
    · exact BodyOp.modify _ _ _ _ (fun x => ⟨rfl, fun _ => rfl, rfl, rfl⟩)

theorem stageExit_op (s : RState) (idx : Nat) (ins : Instr) : BodyOp s.body (stageExit s idx ins).body idx (R1 ins) := by
  unfold stageExit
  cases hX : ins.blockExit.isEmpty with
  | true =>
    have : ins.blockExit = [] := List.isEmpty_iff.mp hX
    simp only [if_true]
    exact BodyOp.refl _ _ _ (fun x => ⟨rfl, rfl, fun h => h.trans this, rfl⟩)
  | false =>
    simp only [Bool.false_eq_true, if_false]
    have key : ∀ s' : RState, s'.body = s.body →
        BodyOp s.body (modifyAt s'.body idx (fun i => { i with blockExit := [] })) idx (R1 ins) := by
      intro s' hb
      rw [hb]
      exact BodyOp.modify _ _ _ _ (fun x => ⟨rfl, rfl, fun _ => rfl, rfl⟩)
    cases ins.kind <;> exact key _ rfl

theorem foldl_park_body (e : List Tok × Nat) (ts : List Nat) (s : RState) : (ts.foldl (parkS e) s).body = s.body := by
  rw [foldl_park]

theorem stageSemG_op (s : RState) (idx : Nat) (ins : Instr) : BodyOp s.body (stageSemG s idx ins).body idx (R2 ins) := by
  unfold stageSemG
  cases hS : ins.semAfter.isEmpty with
  | true =>
    have : ins.semAfter = [] := List.isEmpty_iff.mp hS
    simp only [if_true]
    exact BodyOp.refl _ _ _ (fun x => ⟨rfl, rfl, rfl, fun h => h.trans this⟩)
  | false =>
    simp only [Bool.false_eq_true, if_false]
    -- whatever the kind, the body is the old one, possibly with flag code around the instruction, then the list is emptied
    have key : ∀ s' : RState, BodyOp s.body s'.body idx KeepSp →
        BodyOp s.body (modifyAt s'.body idx (fun i => { i with semAfter := [] })) idx (R2 ins) := by
      intro s' h
      refine BodyOp.trans h (BodyOp.modify _ _ _ (fun x y => y.semAfter = [] ∧ y.blockEntry = x.blockEntry ∧ y.blockExit = x.blockExit
        ∧ y.blockAlt = x.blockAlt) (fun x => ⟨rfl, rfl, rfl, rfl⟩)) ?_
      intro x y z h1 h2
      exact ⟨h2.2.2.2.trans h1.2.2.2, h2.2.1.trans h1.2.1, h2.2.2.1.trans h1.2.2.1, fun _ => h2.1⟩
    have hflag : ∀ (inl : List Tok), BodyOp s.body
        (addAfter (addBefore s.body idx [tConst 1, tLocalSet s.nlocals]) idx ([tConst 0, tLocalSet s.nlocals] ++ inl)) idx KeepSp :=
      fun inl => BodyOp.trans (addBefore_op _ _ _) (addAfter_op _ _ _) (fun _ _ _ h1 h2 => h1.trans h2)
    cases hk : ins.kind with
    | block | loop | if_ | else_ | end_ | exitLike | other => exact key _ (BodyOp.refl _ _ _ KeepSp.refl)
    | br d => exact key _ (hflag _)
    | brIf d => exact key _ (hflag _)
    | brTable ts d =>
      refine key _ ?_
      show BodyOp s.body (parkS (ins.semAfter, s.nlocals) (ts.foldl (parkS (ins.semAfter, s.nlocals))
        { s with body := addAfter (addBefore s.body idx [tConst 1, tLocalSet s.nlocals]) idx ([tConst 0, tLocalSet s.nlocals] ++ []),
                 nlocals := s.nlocals + 1, added := s.added + 1 }) d).body idx KeepSp
      show BodyOp s.body (ts.foldl (parkS (ins.semAfter, s.nlocals))
        { s with body := addAfter (addBefore s.body idx [tConst 1, tLocalSet s.nlocals]) idx ([tConst 0, tLocalSet s.nlocals] ++ []),
                 nlocals := s.nlocals + 1, added := s.added + 1 }).body idx KeepSp
      rw [foldl_park_body]
      exact hflag _

/-- **`planSpecial` empties the three special lists of the current instruction** (when the body still holds what the loop's copy holds)
    and touches nothing else of the body -/
theorem planSpecial_op (s : RState) (idx : Nat) (ins : Instr) :
    BodyOp s.body (planSpecial s idx ins).body idx
      (fun x y => x.semAfter = ins.semAfter → x.blockEntry = ins.blockEntry → x.blockExit = ins.blockExit →
        y.semAfter = [] ∧ y.blockEntry = [] ∧ y.blockExit = [] ∧ y.blockAlt = x.blockAlt) := by
  rw [planSpecial_eq]
  cases hi : ins.hasInstr with
  | false =>
    simp only [Bool.not_false, if_true]
    refine BodyOp.refl _ _ _ (fun x h1 h2 h3 => ?_)
    have : ins.semAfter = [] ∧ ins.blockEntry = [] ∧ ins.blockExit = [] := by
      unfold Instr.hasInstr at hi
      simp only [Bool.or_eq_false_iff, Bool.not_eq_false', List.isEmpty_iff] at hi
      exact ⟨hi.1.1.1.2, hi.1.1.2, hi.1.2⟩
    exact ⟨h1.trans this.1, h2.trans this.2.1, h3.trans this.2.2, rfl⟩
  | true =>
    simp only [Bool.not_true, Bool.false_eq_true, if_false]
    have h1 := stageEntry_op s idx ins
    have h2 := stageExit_op (stageEntry s idx ins) idx ins
    have h3 := stageSemG_op (stageExit (stageEntry s idx ins) idx ins) idx ins
    refine BodyOp.trans (BodyOp.trans h1 h2 (R3 := fun x z => z.blockAlt = x.blockAlt ∧ (x.blockEntry = ins.blockEntry → z.blockEntry = [])
      ∧ (x.blockExit = ins.blockExit → z.blockExit = []) ∧ z.semAfter = x.semAfter) ?_) h3 ?_
    · intro x y z a b
      exact ⟨b.1.trans a.1, fun h => b.2.1.trans (a.2.1 h), fun h => b.2.2.1 (a.2.2.1.trans h), b.2.2.2.trans a.2.2.2⟩
    · intro x y z a b h1 h2 h3
      exact ⟨b.2.2.2 (a.2.2.2.trans h1), b.2.1.trans (a.2.1 h2), b.2.2.1.trans (a.2.2.1 h3), b.1.trans a.1⟩


/-- the four special fields of the instruction in the body are those of the loop's copy -/
def SameSp (ins x : Instr) : Prop :=
  x.semAfter = ins.semAfter ∧ x.blockEntry = ins.blockEntry ∧ x.blockExit = ins.blockExit ∧ x.blockAlt = ins.blockAlt

/-- the goal relation of one iteration -/
def Resolves (ins x y : Instr) : Prop := SameSp ins x → Cleared y

theorem fin_plan (b : List Instr) (s' : RState) (idx : Nat) (ins : Instr) (h : BodyOp b s'.body idx KeepSp) (hba : ins.blockAlt = none) :
    BodyOp b (planSpecial s' idx ins).body idx (Resolves ins) := by
  refine BodyOp.trans h (planSpecial_op s' idx ins) ?_
  intro x y z k p hs
  obtain ⟨z1, z2, z3, z4⟩ := p (k.1.trans hs.1) (k.2.1.trans hs.2.1) (k.2.2.1.trans hs.2.2.1)
  exact ⟨z1, z2, z3, z4.trans (k.2.2.2.trans (hs.2.2.2.trans hba))⟩

theorem fin_mark (b b' : List Instr) (idx : Nat) (ins : Instr) (h : BodyOp b b' idx KeepSp) :
    BodyOp b (discardSpecial (setEmptyAlt b' idx) idx) idx (Resolves ins) :=
  BodyOp.trans h (mark_op b' idx) (fun _ _ _ _ c _ => c)

theorem fin_alt (b b' : List Instr) (idx : Nat) (ins : Instr) (alt : List Tok) (h : BodyOp b b' idx KeepSp) :
    BodyOp b (planBlockAlt b' idx alt) idx (Resolves ins) :=
  BodyOp.trans h (planBlockAlt_op b' idx alt) (fun _ _ _ _ c _ => c)

theorem keep_refl (b : List Instr) (idx : Nat) : BodyOp b b idx KeepSp := BodyOp.refl _ _ _ KeepSp.refl

theorem keep_before {b b' : List Instr} {idx : Nat} (h : BodyOp b b' idx KeepSp) (ts : List Tok) : BodyOp b (addBefore b' idx ts) idx KeepSp :=
  BodyOp.trans h (addBefore_op _ _ _) (fun _ _ _ a c => a.trans c)

theorem keep_after {b b' : List Instr} {idx : Nat} (h : BodyOp b b' idx KeepSp) (ts : List Tok) : BodyOp b (addAfter b' idx ts) idx KeepSp :=
  BodyOp.trans h (addAfter_op _ _ _) (fun _ _ _ a c => a.trans c)

theorem flushE_keep (s : RState) (idx k : Nat) : BodyOp s.body (flushE s idx k).body idx KeepSp := by
  unfold flushE
  split
  · exact keep_before (keep_refl _ _) _
  · exact keep_refl _ _

theorem endE_keep (s : RState) (idx n : Nat) : BodyOp s.body (endE s idx n).body idx KeepSp := by
  unfold endE
  simp only []
  have h0 := flushE_keep s idx n
  split <;> split
  · exact keep_after (keep_before h0 _) _
  · exact keep_after h0 _
  · exact keep_before h0 _
  · exact h0

theorem endE_keep' (b : List Instr) (s' : RState) (idx n : Nat) (h : s'.body = b) : BodyOp b (endE s' idx n).body idx KeepSp := by
  rw [← h]; exact endE_keep s' idx n

/-- the core of an iteration, written with the helpers of Lemmas/StackSpec.lean (no assumption on the state) -/
theorem rcore_unfold (s : RState) (idx : Nat) (ins : Instr) :
    rcore s idx ins =
      (let handleAlt (s : RState) (isElse : Bool) : Option RState :=
        match ins.blockAlt with
        | some alt =>
          if s.deleteBlock.isNone then
            some { s with body := planBlockAlt s.body idx alt, retainEnd := isElse, deleteBlock := some (top s.stack) }
          else some { s with body := discardSpecial (setEmptyAlt s.body idx) idx }
        | none => if s.deleteBlock.isSome then some { s with body := discardSpecial (setEmptyAlt s.body idx) idx } else none
      match ins.kind with
      | .block | .loop | .if_ =>
        let s := { s with stack := s.stack ++ [s.stack.length] }
        match handleAlt s false with
        | some s' => s'
        | none => planSpecial s idx ins
      | .else_ =>
        let s := flushE s idx (top s.stack)
        match handleAlt s true with
        | some s' => s'
        | none => planSpecial s idx ins
      | .end_ =>
        match s.stack.getLast? with
        | none => planSpecial s idx ins
        | some blockId =>
          let s := { s with stack := s.stack.dropLast }
          let cont : Option RState :=
            match s.deleteBlock with
            | some d =>
              if d == blockId then
                if !s.retainEnd then some { s with deleteBlock := none, retainEnd := true, body := discardSpecial (setEmptyAlt s.body idx) idx }
                else none
              else some { s with body := discardSpecial (setEmptyAlt s.body idx) idx }
            | none => none
          match cont with
          | some s' => s'
          | none =>
            let s := if s.deleteBlock == some blockId then { s with deleteBlock := none, retainEnd := true } else s
            planSpecial (endE s idx blockId) idx ins
      | _ =>
        if s.deleteBlock.isSome then { s with body := discardSpecial (setEmptyAlt s.body idx) idx }
        else planSpecial s idx ins) := rfl


/-- **the core of an iteration resolves the current instruction in place**: the body changes at the current index only, and whatever
    path is taken — removal, block alternate, or the three stages of `planSpecial` — the instruction is left without special lists -/
theorem rcore_op (s : RState) (idx : Nat) (ins : Instr) (hsc : ins.blockAlt.isSome = true → ins.kind.isBlockStyle = true) :
    BodyOp s.body (rcore s idx ins).body idx (Resolves ins) := by
  rw [rcore_unfold]
  have hnb : ins.kind.isBlockStyle = false → ins.blockAlt = none := by
    intro h
    cases hba : ins.blockAlt with
    | none => rfl
    | some a => have := hsc (by simp [hba]); rw [h] at this; cases this
  cases hk : ins.kind with
  | block | loop | if_ =>
    all_goals
      simp only []
      cases hba : ins.blockAlt with
      | some alt =>
        cases hd : s.deleteBlock with
        | none => simp only [hd, Option.isNone_none, if_true]; exact fin_alt _ _ _ _ _ (keep_refl _ _)
        | some d => simp only [hd, Option.isNone_some, Bool.false_eq_true, if_false]; exact fin_mark _ _ _ _ (keep_refl _ _)
      | none =>
        cases hd : s.deleteBlock with
        | none => simp only [hd, Option.isSome_none, Bool.false_eq_true, if_false]; exact fin_plan _ _ _ _ (keep_refl _ _) hba
        | some d => simp only [hd, Option.isSome_some, if_true]; exact fin_mark _ _ _ _ (keep_refl _ _)
  | else_ =>
    simp only []
    have hf := flushE_keep s idx (top s.stack)
    cases hba : ins.blockAlt with
    | some alt =>
      cases hd : (flushE s idx (top s.stack)).deleteBlock with
      | none => simp only [hd, Option.isNone_none, if_true]; exact fin_alt _ _ _ _ _ hf
      | some d => simp only [hd, Option.isNone_some, Bool.false_eq_true, if_false]; exact fin_mark _ _ _ _ hf
    | none =>
      cases hd : (flushE s idx (top s.stack)).deleteBlock with
      | none => simp only [hd, Option.isSome_none, Bool.false_eq_true, if_false]; exact fin_plan _ _ _ _ hf hba
      | some d => simp only [hd, Option.isSome_some, if_true]; exact fin_mark _ _ _ _ hf
  | end_ =>
    have hba : ins.blockAlt = none := hnb (by simp [hk, Kind.isBlockStyle])
    simp only []
    cases hl : s.stack.getLast? with
    | none => simp only []; exact fin_plan _ _ _ _ (keep_refl _ _) hba
    | some blockId =>
      simp only []
      cases hd : s.deleteBlock with
      | none =>
        simp only []
        exact fin_plan _ _ _ _ (endE_keep' _ _ _ _ (by first | rfl | (split <;> rfl))) hba
      | some d =>
        simp only []
        by_cases hdb : (d == blockId) = true
        · simp only [hdb, if_true]
          cases hr : s.retainEnd with
          | false => simp only [Bool.not_false, if_true]; exact fin_mark _ _ _ _ (keep_refl _ _)
          | true =>
            simp only [Bool.not_true, Bool.false_eq_true, if_false]
            exact fin_plan _ _ _ _ (endE_keep' _ _ _ _ (by first | rfl | (split <;> rfl))) hba
        · simp only [hdb, Bool.false_eq_true, if_false]
          exact fin_mark _ _ _ _ (keep_refl _ _)
  | br _ | brIf _ | brTable _ _ | exitLike | other =>
    all_goals
      have hba : ins.blockAlt = none := hnb (by simp [hk, Kind.isBlockStyle])
      simp only []
      split
      · exact fin_mark _ _ _ _ (keep_refl _ _)
      · exact fin_plan _ _ _ _ (keep_refl _ _) hba


def rpre1 (s : RState) (idx : Nat) : RState :=
  if !s.entry.isEmpty && idx == 0 then { s with body := addBefore s.body 0 s.entry, entry := [] } else s

def rpre2 (last : Nat) (s : RState) (idx : Nat) (ins : Instr) : RState :=
  if s.exit.isEmpty then s
  else if ins.kind == .exitLike then { s with body := addBefore s.body idx s.exit }
  else if idx == last then { s with body := addBefore s.body idx ([tEnd] ++ s.exit), exit := [] }
  else s

theorem rpre_eq (last : Nat) (s : RState) (idx : Nat) (ins : Instr) : rpre last s idx ins = rpre2 last (rpre1 s idx) idx ins := rfl

theorem rpre_op (last : Nat) (s : RState) (idx : Nat) (ins : Instr) : BodyOp s.body (rpre last s idx ins).body idx KeepSp := by
  have h1 : BodyOp s.body (rpre1 s idx).body idx KeepSp := by
    unfold rpre1
    split
    · rename_i h
      simp only [Bool.and_eq_true, beq_iff_eq] at h
      obtain ⟨_, h0⟩ := h
      subst h0
      exact keep_before (keep_refl _ _) _
    · exact keep_refl _ _
  rw [rpre_eq]
  unfold rpre2
  split
  · exact h1
  · split
    · exact keep_before h1 _
    · split
      · exact keep_before h1 _
      · exact h1

/-- **one iteration of the resolver's loop**: the body changes at the current index only, and the instruction there is left without
    special lists -/
theorem rstep_op (last : Nat) (s : RState) (idx : Nat) (ins : Instr) (hsc : ins.blockAlt.isSome = true → ins.kind.isBlockStyle = true) :
    BodyOp s.body (rstep last s idx ins).body idx (Resolves ins) := by
  rw [rstep_eq]
  refine BodyOp.trans (rpre_op last s idx ins) (rcore_op (rpre last s idx ins) idx ins hsc) ?_
  intro x y z k r hs
  exact r ⟨k.1.trans hs.1, k.2.1.trans hs.2.1, k.2.2.1.trans hs.2.2.1, k.2.2.2.trans hs.2.2.2⟩

theorem BodyOp.get {b b' : List Instr} {idx : Nat} {R : Instr → Instr → Prop} (h : BodyOp b b' idx R) (j : Nat) :
    (j ≠ idx → b'[j]? = b[j]?) ∧ (∀ x, b[idx]? = some x → ∃ y, b'[idx]? = some y ∧ R x y) ∧ b'.length = b.length := by
  obtain ⟨G, e, r⟩ := h
  refine ⟨fun hj => by rw [e, getElem?_modifyAt]; simp [hj], fun x hx => ⟨G x, by rw [e, getElem?_modifyAt]; simp [hx], r x⟩, ?_⟩
  rw [e]; unfold modifyAt; split <;> simp

/-- the kinds the API accepts block alternates on -/
def AltScope (i : Instr) : Prop := i.blockAlt.isSome = true → i.kind.isBlockStyle = true

/-- **the whole loop**: when it has run over `xs` (the copy of the body from `idx` on), every instruction it passed is without special
    lists, and nothing else of the body was touched -/
theorem rloop_clears (last : Nat) : ∀ (xs : List Instr) (s : RState) (idx : Nat),
    (∀ x ∈ xs, AltScope x) → (∀ k x, xs[k]? = some x → ∃ y, s.body[idx + k]? = some y ∧ SameSp x y) →
    let s' := rloop last s idx xs
    s'.body.length = s.body.length
    ∧ (∀ j, j < idx → s'.body[j]? = s.body[j]?)
    ∧ (∀ j, idx + xs.length ≤ j → s'.body[j]? = s.body[j]?)
    ∧ (∀ k, k < xs.length → ∀ y, s'.body[idx + k]? = some y → Cleared y) := by
  intro xs
  induction xs with
  | nil => intro s idx _ _; exact ⟨rfl, fun _ _ => rfl, fun _ _ => rfl, fun k hk => by simp at hk⟩
  | cons x xs ih =>
    intro s idx hsc hsame
    simp only [rloop]
    obtain ⟨g1, g2, g3⟩ := (rstep_op last s idx x (hsc x (List.mem_cons_self ..))).get 0
    have gother : ∀ j, j ≠ idx → (rstep last s idx x).body[j]? = s.body[j]? :=
      fun j hj => ((rstep_op last s idx x (hsc x (List.mem_cons_self ..))).get j).1 hj
    obtain ⟨y0, hy0, hs0⟩ := hsame 0 x (by simp)
    simp only [Nat.add_zero] at hy0
    obtain ⟨z0, hz0, hr0⟩ := g2 y0 hy0
    have hcl : Cleared z0 := hr0 hs0
    have hsame' : ∀ k y, xs[k]? = some y → ∃ z, (rstep last s idx x).body[idx + 1 + k]? = some z ∧ SameSp y z := by
      intro k y hk
      obtain ⟨z, hz, hsz⟩ := hsame (k + 1) y (by simpa using hk)
      refine ⟨z, ?_, hsz⟩
      rw [gother (idx + 1 + k) (by omega)]
      have : idx + (k + 1) = idx + 1 + k := by omega
      rw [← this]; exact hz
    obtain ⟨i1, i2, i3, i4⟩ := ih (rstep last s idx x) (idx + 1) (fun y hy => hsc y (List.mem_cons_of_mem _ hy)) hsame'
    refine ⟨i1.trans g3, fun j hj => ?_, fun j hj => ?_, fun k hk y hy => ?_⟩
    · rw [i2 j (by omega), gother j (by omega)]
    · simp only [List.length_cons] at hj
      rw [i3 j (by omega), gother j (by omega)]
    · cases k with
      | zero =>
        simp only [Nat.add_zero] at hy
        rw [i2 idx (by omega), hz0] at hy
        cases hy; exact hcl
      | succ k =>
        simp only [List.length_cons] at hk
        have : idx + (k + 1) = idx + 1 + k := by omega
        rw [this] at hy
        exact i4 k (by omega) y hy


theorem modifyAt_length (b : List Instr) (idx : Nat) (g : Instr → Instr) : (modifyAt b idx g).length = b.length := by
  unfold modifyAt; split <;> simp

/-- **After `resolve_special_instrumentation` nothing special is left**: every instruction of the function is without semantic-after,
    block-entry, block-exit and block-alternate lists, and the function-level lists are empty — for every body and every plan (block
    alternates on block-structured instructions only, which is all the API accepts); no nesting assumption. -/
theorem resolveSpecial_clears (f : Func) (hsp : f.hasSpecial = true) (hsc : ∀ x ∈ f.body, AltScope x) :
    (∀ y ∈ (resolveSpecial f).body, Cleared y) ∧ (resolveSpecial f).entry = [] ∧ (resolveSpecial f).exit = []
    ∧ (resolveSpecial f).body.length = f.body.length := by
  unfold resolveSpecial
  simp only [hsp, Bool.not_true, Bool.false_eq_true, if_false]
  refine ⟨?_, trivial, trivial, ?_⟩
  all_goals
    have hsc0 : ∀ x ∈ modifyAt f.body (f.body.length - 1) (fun i => { i with mode := some .before }), AltScope x := by
      intro y hy
      unfold modifyAt at hy
      cases h : f.body[f.body.length - 1]? with
      | none => simp only [h] at hy; exact hsc y hy
      | some x =>
        simp only [h] at hy
        rcases List.mem_or_eq_of_mem_set hy with h1 | h1
        · exact hsc y h1
        · subst h1; exact hsc x (List.mem_of_getElem? h)
    obtain ⟨l1, _, _, l4⟩ := rloop_clears (f.body.length - 1) (modifyAt f.body (f.body.length - 1) (fun i => { i with mode := some .before }))
      { body := modifyAt f.body (f.body.length - 1) (fun i => { i with mode := some .before }),
        entry := if f.exit.isEmpty then f.entry else f.entry ++ [tWrapper], exit := f.exit, nlocals := f.nlocals } 0 hsc0
      (fun k x hk => ⟨x, by simpa using hk, ⟨rfl, rfl, rfl, rfl⟩⟩)
  · intro y hy
    obtain ⟨k, hk, rfl⟩ := List.getElem_of_mem hy
    have hk' : k < (modifyAt f.body (f.body.length - 1) (fun i => { i with mode := some .before })).length := by
      rw [← l1]; exact hk
    exact l4 k hk' _ (by simp only [Nat.zero_add]; exact List.getElem?_eq_getElem hk)
  · rw [l1]; exact modifyAt_length _ _ _

/-- what the second resolution meets: nothing parked, nothing being removed, no function-level code -/
structure Quiet (s : RState) : Prop where
  entry : s.entry = []
  exit : s.exit = []
  del : s.deleteBlock = none
  t1 : s.onElseOrEnd = []
  t2 : s.onEndBefore = []
  t3 : s.onEndAfter = []

theorem flushE_quiet (s : RState) (idx k : Nat) (h : s.onElseOrEnd = []) : flushE s idx k = s := by
  unfold flushE; simp [h]

theorem endE_quiet (s : RState) (idx n : Nat) (hq : Quiet s) : endE s idx n = s := by
  obtain ⟨_, _, _, h1, h2, h3⟩ := hq
  cases s
  simp only at h1 h2 h3
  subst h1 h2 h3
  rfl

/-- **an instruction without special lists is passed over**: only the block stack moves -/
theorem rstep_passes_cleared (last : Nat) (s : RState) (idx : Nat) (ins : Instr) (hq : Quiet s) (hc : Cleared ins) :
    ∃ st, rstep last s idx ins = { s with stack := st } := by
  obtain ⟨c1, c2, c3, c4⟩ := hc
  rw [rstep_eq, rpre_nil _ _ _ _ hq.entry hq.exit, rcore_unfold]
  have hps : ∀ s' : RState, planSpecial s' idx ins = s' := fun s' => planSpecial_nospecial s' idx ins c1 c2 c3
  cases hk : ins.kind with
  | block | loop | if_ =>
    all_goals
      refine ⟨s.stack ++ [s.stack.length], ?_⟩
      simp only [c4, hq.del, Option.isSome_none, Bool.false_eq_true, if_false, hps]
  | else_ =>
    refine ⟨s.stack, ?_⟩
    simp only [flushE_quiet s idx _ hq.t1, c4, hq.del, Option.isSome_none, Bool.false_eq_true, if_false, hps]
    first | done | (cases s; cases hq; simp_all)
  | end_ =>
    cases hl : s.stack.getLast? with
    | none =>
      refine ⟨s.stack, ?_⟩
      simp only [hps]
      first | done | (cases s; cases hq; simp_all)
    | some b =>
      refine ⟨s.stack.dropLast, ?_⟩
      have hne : ((none : Option Nat) == some b) = false := rfl
      simp only [hq.del, hne, Bool.false_eq_true, if_false, hps]
      exact endE_quiet _ idx b ⟨hq.entry, hq.exit, by first | exact hq.del | rfl, hq.t1, hq.t2, hq.t3⟩
  | br _ | brIf _ | brTable _ _ | exitLike | other =>
    all_goals
      refine ⟨s.stack, ?_⟩
      simp only [hq.del, Option.isSome_none, Bool.false_eq_true, if_false, hps]
      first | done | (cases s; cases hq; simp_all)

theorem rloop_passes_cleared (last : Nat) : ∀ (xs : List Instr) (s : RState) (idx : Nat), Quiet s → (∀ x ∈ xs, Cleared x) →
    ∃ st, rloop last s idx xs = { s with stack := st } := by
  intro xs
  induction xs with
  | nil => intro s idx _ _; exact ⟨s.stack, rfl⟩
  | cons x xs ih =>
    intro s idx hq hc
    obtain ⟨st, hst⟩ := rstep_passes_cleared last s idx x hq (hc x (List.mem_cons_self ..))
    simp only [rloop, hst]
    have hq' : Quiet { s with stack := st } := ⟨hq.entry, hq.exit, hq.del, hq.t1, hq.t2, hq.t3⟩
    obtain ⟨st', h'⟩ := ih { s with stack := st } (idx + 1) hq' (fun y hy => hc y (List.mem_cons_of_mem _ hy))
    exact ⟨st', h'⟩

theorem emitFrom_stripMode (last : Nat) : ∀ (xs : List Instr) (idx : Nat), emitFrom last idx (xs.map stripMode) = emitFrom last idx xs := by
  intro xs
  induction xs with
  | nil => intro _; rfl
  | cons x xs ih => intro idx; simp only [List.map_cons, emitFrom, ih]; rfl

theorem emitFrom_modifyMode (last idx j : Nat) (xs : List Instr) (m : Option Mode) :
    emitFrom last idx (modifyAt xs j (fun i => { i with mode := m })) = emitFrom last idx xs := by
  rw [← emitFrom_stripMode, map_stripMode_modifyAt, emitFrom_stripMode]

/-- **Resolving again changes nothing**: the function that the first encode leaves behind is encoded to the same code, and no further
    local is added — the lowering half of "encoding again gives the same bytes", for every body and every plan. -/
theorem lower_resolved_again (f : Func) (hsp : f.hasSpecial = true) (hsc : ∀ x ∈ f.body, AltScope x) :
    lower (resolveSpecial f) = lower f := by
  obtain ⟨hcl, hen, hex, hlen⟩ := resolveSpecial_clears f hsp hsc
  have hsp' : (resolveSpecial f).hasSpecial = true := by
    unfold resolveSpecial; simp only [hsp, Bool.not_true, Bool.false_eq_true, if_false]
  generalize hg : resolveSpecial f = g at hcl hen hex hlen hsp'
  have hl : lower f = (emit g, g.added) := by unfold lower; rw [hg]
  rw [hl]
  -- the second resolution
  have hcl0 : ∀ y ∈ modifyAt g.body (g.body.length - 1) (fun i => { i with mode := some .before }), Cleared y := by
    intro y hy
    unfold modifyAt at hy
    cases h : g.body[g.body.length - 1]? with
    | none => simp only [h] at hy; exact hcl y hy
    | some x =>
      simp only [h] at hy
      rcases List.mem_or_eq_of_mem_set hy with h1 | h1
      · exact hcl y h1
      · subst h1; exact hcl x (List.mem_of_getElem? h)
  obtain ⟨st, hst⟩ := rloop_passes_cleared (g.body.length - 1) (modifyAt g.body (g.body.length - 1) (fun i => { i with mode := some .before }))
    { body := modifyAt g.body (g.body.length - 1) (fun i => { i with mode := some .before }), entry := [], exit := [], nlocals := g.nlocals } 0
    ⟨rfl, rfl, rfl, rfl, rfl, rfl⟩ hcl0
  unfold lower resolveSpecial
  simp only [hsp', Bool.not_true, Bool.false_eq_true, if_false, hen, hex, List.isEmpty_nil, if_true, hst]
  refine Prod.ext ?_ ?_
  · show emitFrom ((modifyAt g.body (g.body.length - 1) (fun i => { i with mode := some .before })).length - 1) 0
      (modifyAt g.body (g.body.length - 1) (fun i => { i with mode := some .before })) = emitFrom (g.body.length - 1) 0 g.body
    rw [modifyAt_length, emitFrom_modifyMode]
  · show g.added + 0 = g.added
    rfl

end Orca.Lower
