import Orca.Lemmas.Preserve
/-!
The state the parser builds satisfies the state invariant — for **every** import list and every number of local entities, not
only for the modules a run happens to generate. `Module::parse` fills each index-space vector with the imported entities of the
kind in import-section order, then the local ones; stored id = position; nothing is deleted; no re-indexing is pending.
-/
namespace Orca.Edit
open Orca.Reindex

def impPart (I : List ImpEntry) (sp : Sp) : List (Bool × Nat × Nat) := (liveEntries I sp).map (fun p => (true, p.2, p.1))
def locPart (locals : List Nat) : List (Bool × Nat × Nat) := locals.map (fun u => (false, u, 0))

/-- one index space as `Module::parse` leaves it -/
def parsedSpace (I : List ImpEntry) (sp : Sp) (locals : List Nat) : Space :=
  { items := mkItems 0 (impPart I sp ++ locPart locals), recalc := false, numImp := (liveEntries I sp).length, numImpAdded := 0 }

theorem mkItems_append : ∀ (A B : List (Bool × Nat × Nat)) (k : Nat), mkItems k (A ++ B) = mkItems k A ++ mkItems (k + A.length) B := by
  intro A
  induction A with
  | nil => intro B k; simp [mkItems]
  | cons a A ih =>
    intro B k
    simp only [List.cons_append, mkItems, ih B (k + 1), List.length_cons]
    have : k + 1 + A.length = k + (A.length + 1) := by omega
    rw [this]

theorem mkItems_length : ∀ (A : List (Bool × Nat × Nat)) (k : Nat), (mkItems k A).length = A.length := by
  intro A
  induction A with
  | nil => intro k; rfl
  | cons a A ih => intro k; simp [mkItems, ih]

theorem mkItems_get : ∀ (A : List (Bool × Nat × Nat)) (k i : Nat) (x : Item), (mkItems k A)[i]? = some x → x.id = k + i ∧ x.del = false := by
  intro A
  induction A with
  | nil => intro k i x h; simp [mkItems] at h
  | cons a A ih =>
    intro k i x h
    cases i with
    | zero => simp [mkItems] at h; subst h; exact ⟨rfl, rfl⟩
    | succ i =>
      simp only [mkItems, List.getElem?_cons_succ] at h
      have := ih (k + 1) i x h
      exact ⟨by omega, this.2⟩

theorem mkItems_mem {A : List (Bool × Nat × Nat)} {k : Nat} {x : Item} (h : x ∈ mkItems k A) :
    x.del = false ∧ (x.imp, x.uid, x.impId) ∈ A := by
  induction A generalizing k with
  | nil => simp [mkItems] at h
  | cons a A ih =>
    simp only [mkItems, List.mem_cons] at h
    rcases h with rfl | h
    · exact ⟨rfl, by simp⟩
    · have := ih h
      exact ⟨this.1, List.mem_cons_of_mem _ this.2⟩

theorem mkItems_imp_key : ∀ (L : List (Nat × Nat)) (k : Nat), (mkItems k (L.map (fun p => (true, p.2, p.1)))).map key = L := by
  intro L
  induction L with
  | nil => intro k; rfl
  | cons p L ih => intro k; simp [mkItems, key, ih]

theorem filter_all {α : Type} (p : α → Bool) (l : List α) (h : ∀ a ∈ l, p a = true) : l.filter p = l :=
  List.filter_eq_self.mpr h

theorem filter_none {α : Type} (p : α → Bool) (l : List α) (h : ∀ a ∈ l, p a = false) : l.filter p = [] :=
  List.filter_eq_nil_iff.mpr (fun a ha => by simp [h a ha])

theorem keepImp_impPart (I : List ImpEntry) (sp : Sp) (k : Nat) : ∀ x ∈ mkItems k (impPart I sp), keepImp x = true ∧ keepLoc x = false := by
  intro x hx
  obtain ⟨hd, hm⟩ := mkItems_mem hx
  simp only [impPart, List.mem_map, Prod.mk.injEq] at hm
  obtain ⟨p, _, hp, _⟩ := hm
  simp [keepImp, keepLoc, hd, ← hp]

theorem keepLoc_locPart (locals : List Nat) (k : Nat) : ∀ x ∈ mkItems k (locPart locals), keepImp x = false ∧ keepLoc x = true := by
  intro x hx
  obtain ⟨hd, hm⟩ := mkItems_mem hx
  simp only [locPart, List.mem_map, Prod.mk.injEq] at hm
  obtain ⟨u, _, hp, _⟩ := hm
  simp [keepImp, keepLoc, hd, ← hp]

theorem parsed_filters (I : List ImpEntry) (sp : Sp) (locals : List Nat) :
    (parsedSpace I sp locals).items.filter keepImp = mkItems 0 (impPart I sp)
    ∧ (parsedSpace I sp locals).items.filter keepLoc = mkItems (0 + (impPart I sp).length) (locPart locals) := by
  simp only [parsedSpace, mkItems_append, List.filter_append]
  constructor
  · rw [filter_all _ _ (fun x hx => (keepImp_impPart I sp 0 x hx).1), filter_none _ _ (fun x hx => (keepLoc_locPart locals _ x hx).1)]
    simp
  · rw [filter_none _ _ (fun x hx => (keepImp_impPart I sp 0 x hx).2), filter_all _ _ (fun x hx => (keepLoc_locPart locals _ x hx).2)]
    simp

/-- an imported prefix that is already in import-section order is left alone by `order_imports_generic` -/
theorem sortImports_sorted_id (A : List Item) (hs : (A.map key).Pairwise (fun a b => a.1 < b.1)) : sortImports A = A := by
  have hs' : A.Pairwise (fun a b => a.impId ≤ b.impId) := by
    rw [List.pairwise_map] at hs
    exact hs.imp (fun h => Nat.le_of_lt h)
  refine List.Perm.eq_of_pairwise (le := fun a b => a.impId ≤ b.impId) ?_ (sortImports_sorted A) hs' (sortImports_perm A)
  intro a b ha hb hab hba
  have ha' : a ∈ A := (sortImports_perm A).subset ha
  -- equal import positions: the same entry of a strictly sorted list
  have heq : a.impId = b.impId := Nat.le_antisymm hab hba
  rw [List.pairwise_map] at hs
  clear hs'
  induction A with
  | nil => cases ha'
  | cons x xs ih =>
    have hx := List.pairwise_cons.mp hs
    rcases List.mem_cons.mp ha' with rfl | ha'' <;> rcases List.mem_cons.mp hb with rfl | hb''
    · rfl
    · have := hx.1 b hb''; simp only [key] at this; omega
    · have := hx.1 a ha''; simp only [key] at this; omega
    · -- both in the tail: the statement about `sortImports` membership is not needed any more
      have : ∀ (l : List Item), l.Pairwise (fun a b => (key a).1 < (key b).1) → a ∈ l → b ∈ l → a = b := by
        intro l hl
        induction l with
        | nil => intro h; cases h
        | cons y ys ihy =>
          intro h1 h2
          have hy := List.pairwise_cons.mp hl
          rcases List.mem_cons.mp h1 with rfl | h1' <;> rcases List.mem_cons.mp h2 with rfl | h2'
          · rfl
          · have := hy.1 b h2'; simp only [key] at this; omega
          · have := hy.1 a h1'; simp only [key] at this; omega
          · exact ihy hy.2 h1' h2'
      exact this xs hx.2 ha'' hb''

/-- **what the parser builds satisfies the inductive invariant**, for every import list in which nothing is deleted and any local
    entities -/
theorem sInv_parsedSpace (I : List ImpEntry) (sp : Sp) (locals : List Nat) : SInv (parsedSpace I sp locals) I sp := by
  obtain ⟨hfi, hfl⟩ := parsed_filters I sp locals
  have hkey : (mkItems 0 (impPart I sp)).map key = liveEntries I sp := mkItems_imp_key (liveEntries I sp) 0
  refine ⟨?_, ?_, ?_, ?_, ?_⟩
  · intro i x hx
    have := (mkItems_get _ 0 i x hx).1
    omega
  · simp only [parsedSpace, mkItems_length, List.length_append, impPart, locPart, List.length_map]
    omega
  · rw [hfi, hkey]
  · intro _
    rw [hfi, hfl, sortImports_sorted_id]
    · simp [parsedSpace, mkItems_append]
    · rw [hkey, liveEntries_eq_from]; exact liveFrom_sorted sp I 0
  · intro it hit _ hdel
    have := (mkItems_mem hit).1
    rw [this] at hdel; cases hdel

/-- the whole state after `Module::parse`: the three vectors over one import list; reference sites, exports, data are arbitrary -/
def parsedState (I : List ImpEntry) (lf lg lm : List Nat) (rest : St) : St :=
  { rest with f := parsedSpace I .F lf, g := parsedSpace I .G lg, m := parsedSpace I .M lm, imports := I }

theorem stInv_parsedState (I : List ImpEntry) (lf lg lm : List Nat) (rest : St) : StInv (parsedState I lf lg lm rest) :=
  ⟨sInv_parsedSpace I .F lf, sInv_parsedSpace I .G lg, sInv_parsedSpace I .M lm⟩

theorem liveEntriesB_eq (I : List ImpEntry) (sp : Sp) : liveEntriesB I sp = liveEntries I sp := rfl

/-- the driver's shape check is sound: a state that passes it *is* a parsed state, hence satisfies the invariant -/
theorem stInv_of_parsedStateB (s : St) (h : parsedStateB s = true) : StInv s := by
  simp only [parsedStateB, parsedShapeB, Bool.and_eq_true, beq_iff_eq, Bool.not_eq_true', List.all_eq_true] at h
  obtain ⟨⟨⟨⟨⟨⟨hf1, hf2⟩, hf3⟩, hf4⟩, ⟨⟨⟨hg1, hg2⟩, hg3⟩, hg4⟩⟩, ⟨⟨⟨hm1, hm2⟩, hm3⟩, hm4⟩⟩, _⟩ := h
  have mk : ∀ (x : Space) (sp : Sp) (locals : List Nat), x.items = parsedItems s.imports sp locals → x.recalc = false →
      x.numImp = (liveEntriesB s.imports sp).length → x.numImpAdded = 0 → x = parsedSpace s.imports sp locals := by
    intro x sp locals h1 h2 h3 h4
    cases x
    simp only [parsedSpace, Space.mk.injEq]
    exact ⟨h1, h2, h3, h4⟩
  refine ⟨?_, ?_, ?_⟩
  · rw [mk s.f .F _ hf1 hf2 hf3 hf4]; exact sInv_parsedSpace _ _ _
  · rw [mk s.g .G _ hg1 hg2 hg3 hg4]; exact sInv_parsedSpace _ _ _
  · rw [mk s.m .M _ hm1 hm2 hm3 hm4]; exact sInv_parsedSpace _ _ _

end Orca.Edit
