import Orca.Model.Parse
import Orca.Lemmas.Comp
import Orca.Gen.DefTypes
/-!
# C03 — parsing never panics

Model M11 (`Orca.Parse`): wirm's own control flow in `Module::parse_internal` over the facts it reads (events extracted
with wasmparser alone by harness/src/parse_facts.rs), with a `panic` leaf at every place where the Rust code indexes,
looks up or subtracts. The statement below is for **every** event list — well-formed or not, in any order, of any length.

PARTIAL by nature: panics inside wasmparser / wasm-encoder and allocation failure are outside any model of wirm's code; the
`parse` family (byte-level mutants of modules and components, hostile hand-built sections, random bytes, three parsers each,
the risky ones in child processes) samples them. Stack exhaustion by recursion is wirm's own doing and is modelled since F36:
`c03_component_nesting_bounded` (M10, the recursion of `parse_comp` over nested components is bounded by a constant).
-/
namespace Orca.Parse

theorem step_never_panics (s : PS) (e : Ev) (site : String) : step s e ≠ .inl (.panic site) := by
  cases e <;> simp only [step] <;> (try split) <;> (try split) <;> simp

/-- the function-building loop indexes `functions[index]` only below `functions.len()` -/
theorem buildFuncs_never_panics (s : PS) : ∀ k, k ≤ s.funcs.length → ∀ site, buildFuncs s k ≠ .panic site
  | 0, _, _ => by simp [buildFuncs]
  | k + 1, hk, site => by
    have ih := buildFuncs_never_panics s k (by omega)
    simp only [buildFuncs]
    cases hb : buildFuncs s k with
    | ok =>
      simp only
      have hlt : k < s.funcs.length := by omega
      rw [List.getElem?_eq_getElem hlt]
      simp only
      split <;> simp
    | err w => simp
    | panic w => exact absurd hb (ih w)

/-- the checks on the section counts are what makes the indexing safe -/
theorem finish_never_panics (s : PS) (site : String) : finish s ≠ .panic site := by
  unfold finish
  split
  · simp
  · rename_i h
    have hb : s.bodies ≤ s.funcs.length := by
      simp only [bne_iff_ne, ne_eq, Bool.or_eq_true, not_or, Decidable.not_not] at h
      omega
    cases hd : s.dataDeclared with
    | none => simp only; exact buildFuncs_never_panics s _ hb site
    | some n =>
      simp only
      split
      · simp
      · exact buildFuncs_never_panics s _ hb site

/-- **C03 (model).** Whatever the input made of events, `parse_internal` returns a module or an error -/
theorem c03_parse_never_panics (evs : List Ev) (site : String) : parseM evs ≠ .panic site := by
  unfold parseM
  generalize ({} : PS) = s
  induction evs generalizing s with
  | nil => exact finish_never_panics s site
  | cons e es ih =>
    simp only [run]
    cases hs : step s e with
    | inl o =>
      simp only
      intro h; subst h
      exact step_never_panics s e site hs
    | inr s' => exact ih s'

/-- constant expressions: exactly the operators `eval` has an arm for are accepted (table regenerated from the source);
    the extended-const arithmetic, garbage and trailing data are errors, not panics -/
example : evalOk ["I32Const", "End"] false false = true ∧ evalOk ["I32Const", "I32Const", "I32Add", "End"] false false = false
    ∧ evalOk ["Nop", "End"] false false = false ∧ evalOk ["I32Const", "End"] false true = false := by decide

/-- non-vacuity: a well-formed module is accepted; hostile inputs that used to panic are errors or are ignored -/
example : parseM [.version 1, .types [true], .imports 1, .funcs [0], .codeStart 1, .body false false, .names [0, 1, 7]] = .ok := by decide
example : parseM [.version 1, .types [false], .funcs [0], .codeStart 1, .body false false] = .err "function type" := by decide
example : parseM [.version 1, .funcs [5], .codeStart 1, .body false false] = .err "function type" := by decide
example : parseM [.version 1, .names [3], .funcs [0]] = .err "IncorrectCodeCounts" := by decide

end Orca.Parse

namespace Orca.Comp

/-- **the recursion of `Component::parse` is bounded by a constant, not by the input**: parsing a component whose nested components go
    `n` levels deep runs `parse_comp` at depths `0 … n` when `n ≤ MAX_NESTING_DEPTH` and returns an error otherwise — never deeper
    than `MAX_NESTING_DEPTH` (the constant is read from the source on every run). Before the repair F36 the depth was the input's:
    about 140 levels overflowed a 2 MB stack. -/
theorem c03_component_nesting_bounded (items : List Item) :
    (nestL items ≤ Orca.Gen.maxNestingDepth → parseDepthL Orca.Gen.maxNestingDepth 0 items = some (nestL items))
    ∧ (Orca.Gen.maxNestingDepth < nestL items → parseDepthL Orca.Gen.maxNestingDepth 0 items = none)
    ∧ (∀ d, parseDepthL Orca.Gen.maxNestingDepth 0 items = some d → d ≤ Orca.Gen.maxNestingDepth) := by
  have h := parseDepthL_spec Orca.Gen.maxNestingDepth items 0 (Nat.zero_le _)
  refine ⟨fun hle => by simpa using h.1 (by simpa using hle), fun hlt => h.2 (by simpa using hlt), ?_⟩
  intro d hd
  by_cases hle : nestL items ≤ Orca.Gen.maxNestingDepth
  · have := h.1 (by simpa using hle)
    rw [this] at hd
    simp only [Option.some.injEq, Nat.zero_add] at hd
    omega
  · have := h.2 (by omega)
    rw [this] at hd; cases hd

example : parseDepthL 2 0 [.component 1 [.component 2 [.section_ 3]], .module 4 []] = some 2
    ∧ parseDepthL 2 0 [.component 1 [.component 2 [.component 3 []]]] = none := by decide

end Orca.Comp
