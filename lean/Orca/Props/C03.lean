import Orca.Model.Parse
/-!
# C03 — parsing never panics

Model M11 (`Orca.Parse`): wirm's own control flow in `Module::parse_internal` over the facts it reads (events extracted
with wasmparser alone by harness/src/parse_facts.rs), with a `panic` leaf at every place where the Rust code indexes,
looks up or subtracts. The statement below is for **every** event list — well-formed or not, in any order, of any length.

PARTIAL by nature: panics inside wasmparser / wasm-encoder, allocation failure and stack exhaustion (deeply nested
components recurse) are outside any model of wirm's code; the `parse` family (byte-level mutants of modules and
components, hostile hand-built sections, random bytes, three parsers each) samples them.
-/
namespace Orca.Parse

theorem step_never_panics (s : PS) (e : Ev) (site : String) : step s e ≠ .inl (.panic site) := by
  cases e <;> simp only [step] <;> (try split) <;> (try split) <;> simp

/-- the function-building loop indexes `functions[index]` only below `functions.len()` -/
theorem buildFuncs_never_panics (s : PS) : ∀ k, k ≤ s.funcs.length → ∀ site, buildFuncs s k ≠ .panic site
  | 0, _, _ => by simp [buildFuncs]
  | k + 1, hk, site => by
    have ih := buildFuncs_never_panics s k (by omega)
    simp only [buildFuncs]
    cases hb : buildFuncs s k with
    | ok =>
      simp only
      have hlt : k < s.funcs.length := by omega
      rw [List.getElem?_eq_getElem hlt]
      simp only
      split <;> simp
    | err w => simp
    | panic w => exact absurd hb (ih w)

/-- the checks on the section counts are what makes the indexing safe -/
theorem finish_never_panics (s : PS) (site : String) : finish s ≠ .panic site := by
  unfold finish
  split
  · simp
  · rename_i h
    have hb : s.bodies ≤ s.funcs.length := by
      simp only [bne_iff_ne, ne_eq, Bool.or_eq_true, not_or, Decidable.not_not] at h
      omega
    cases hd : s.dataDeclared with
    | none => simp only; exact buildFuncs_never_panics s _ hb site
    | some n =>
      simp only
      split
      · simp
      · exact buildFuncs_never_panics s _ hb site

/-- **C03 (model).** Whatever the input made of events, `parse_internal` returns a module or an error -/
theorem c03_parse_never_panics (evs : List Ev) (site : String) : parseM evs ≠ .panic site := by
  unfold parseM
  generalize ({} : PS) = s
  induction evs generalizing s with
  | nil => exact finish_never_panics s site
  | cons e es ih =>
    simp only [run]
    cases hs : step s e with
    | inl o =>
      simp only
      intro h; subst h
      exact step_never_panics s e site hs
    | inr s' => exact ih s'

/-- constant expressions: exactly the operators `eval` has an arm for are accepted (table regenerated from the source);
    the extended-const arithmetic, garbage and trailing data are errors, not panics -/
example : evalOk ["I32Const", "End"] false false = true ∧ evalOk ["I32Const", "I32Const", "I32Add", "End"] false false = false
    ∧ evalOk ["Nop", "End"] false false = false ∧ evalOk ["I32Const", "End"] false true = false := by decide

/-- non-vacuity: a well-formed module is accepted; hostile inputs that used to panic are errors or are ignored -/
example : parseM [.version 1, .types [true], .imports 1, .funcs [0], .codeStart 1, .body false false, .names [0, 1, 7]] = .ok := by decide
example : parseM [.version 1, .types [false], .funcs [0], .codeStart 1, .body false false] = .err "function type" := by decide
example : parseM [.version 1, .funcs [5], .codeStart 1, .body false false] = .err "function type" := by decide
example : parseM [.version 1, .names [3], .funcs [0]] = .err "IncorrectCodeCounts" := by decide

end Orca.Parse
