import Orca.Lemmas.IdemHist
import Orca.Lemmas.LowerIdem
import Orca.Lemmas.ApiPlan
import Orca.Gen.EncodeWrites
import Orca.Model.EncodeWritesSpec
/-!
# C05 — encoding again without edits gives the same bytes

The full statement is **false** of the current code and of the model (known finding F4): after an operation that
sets a `recalculate_ids` flag, the first encode reorganises the vectors and rewrites stored indices in place while
the stored ids and the flags stay as they were, so the second encode maps already-mapped indices again.
`c05_second_encode_counterexample` decides a concrete instance in the model; the same history is replayed on the
crate from `corpus/`. What is proved is the part of the statement that holds: histories that leave no re-indexing
pending (injections of any kind, initialiser changes, global additions through `add_global`, exports, data) — for states
(`c05_encode_idem_partial`) and for **every history** of such operations on a parsed module
(`c05_encode_idem_after_quiet_history`; the invariants it needs are proved inductive in Lemmas/Preserve.lean and
Lemmas/IdemHist.lean). The other half of an encode that works in place — the lowering of special instrumentation — is proved
idempotent without restriction (`c05_lowering_leaves_nothing_special`, `c05_second_lowering_changes_nothing`, Lemmas/LowerIdem.lean).
-/
namespace Orca.Edit
open Orca.Reindex

/-- **partial** (`NoReindexPending`): the first encode rewrites nothing — it returns the state it was given — so the
    second encode computes exactly the same module -/
theorem c05_encode_idem_partial (s : St) (hn : NoReindexPending s)
    (hf : IdsFresh s.f.items) (hg : IdsFresh s.g.items) (hm : IdsFresh s.m.items)
    (hr : ∀ r ∈ allRefs s, InRange s r) (hk1 : KeysNodup s.ginit) (hk2 : KeysNodup s.code) :
    (encode s).1 = s ∧ encode (encode s).1 = encode s :=
  ⟨encode_fixpoint s hn hf hg hm hr hk1 hk2, encode_twice_same s hn hf hg hm hr hk1 hk2⟩

/-- **partial, for histories.** `s0` is what the parser builds (`StInv`, `IdemInv`: no flag set, every stored reference in
    range, one initialiser per global and one code entry per function); `ops` is any sequence of injections, initialiser
    changes, `add_global`s, export additions / deletions and data additions whose references make sense when they are
    issued (`QuietHist`). Then the first encode changes nothing and the second encode gives the same module. -/
theorem c05_encode_idem_after_quiet_history (s0 : St) (h0 : StInv s0) (hi : IdemInv s0) (ops : List Op) (hq : QuietHist s0 ops) :
    let s := (run s0 ops).1
    (encode s).1 = s ∧ encode (encode s).1 = encode s :=
  encode_twice_after_quiet_history s0 h0 hi ops hq

/-- the full statement fails: one local function that calls itself, one `add_import_func`; the first encode emits the
    call with index 1 (the function itself, uid 10), the second with index 0 (the import, uid 11) -/
theorem c05_second_encode_counterexample :
    let s0 : St := { f := { items := [⟨0, false, false, 10, 0⟩] }, code := [(10, [⟨100, Sp.F, 0⟩])] }
    let s1 := (addImportFunc s0 11).1
    let e1 := encode s1
    let e2 := encode e1.1
    (match e1.2, e2.2 with
     | Ret.encoded F1 _ _ r1 _, Ret.encoded F2 _ _ r2 _ => (r1.map (fun r => F1[r.idx]?), r2.map (fun r => F2[r.idx]?))
     | _, _ => ([], [])) = ([some 10], [some 11]) := by decide

/-- non-vacuity of the partial theorem's premises: a module with an import, two locals and references -/
example : let s : St := { f := { items := [⟨0, true, false, 1, 0⟩, ⟨1, false, false, 2, 0⟩], numImp := 1 },
                          imports := [⟨some Sp.F, false, 1⟩], code := [(2, [⟨100, Sp.F, 0⟩, ⟨101, Sp.F, 1⟩])] }
    (encode s).1.code = s.code ∧ (encode (encode s).1).2 matches Ret.encoded .. := by decide

end Orca.Edit

namespace Orca.Lower

/-- **The lowering resolves in place, completely.** After `resolve_special_instrumentation` no instruction of the function carries a
    semantic-after, block-entry, block-exit or block-alternate list and the function-level lists are empty — for every body (no nesting
    assumption) and every plan; block alternates on block-structured instructions only, which is all the API accepts. Proved by showing
    that one iteration of the resolver's loop changes the body at the current index only and, on whichever path (removal, block
    alternate, the three stages of `planSpecial`), leaves that instruction without special lists. -/
theorem c05_lowering_leaves_nothing_special (f : Func) (hsp : f.hasSpecial = true) (hsc : ∀ x ∈ f.body, AltScope x) :
    (∀ y ∈ (resolveSpecial f).body, Cleared y) ∧ (resolveSpecial f).entry = [] ∧ (resolveSpecial f).exit = []
    ∧ (resolveSpecial f).body.length = f.body.length :=
  resolveSpecial_clears f hsp hsc

/-- **…hence encoding again lowers nothing again**: the function the first encode leaves behind is encoded to the same code, with no
    further local — every body, every plan. -/
theorem c05_second_lowering_changes_nothing (f : Func) (hsp : f.hasSpecial = true) (hsc : ∀ x ∈ f.body, AltScope x) :
    lower (resolveSpecial f) = lower f :=
  lower_resolved_again f hsp hsc

/-- …in particular for every function the injection API can build -/
theorem c05_second_lowering_changes_nothing_api (f0 f : Func) (ops : List ApiOp) (h0 : ∀ x ∈ f0.body, Pristine x)
    (ha : applyAll f0 ops = some f) (hsp : f.hasSpecial = true) :
    lower (resolveSpecial f) = lower f :=
  lower_resolved_again f hsp (fun x hx => (applyAll_inScope ops f0 f (fun y hy => (h0 y hy).inScope) ha x hx).altOnly)

/-! non-vacuity (decided): function exit code, a block with an exit probe, a flagged `br_if`; the second lowering of the resolved
    function gives the same 17 tokens and the same count of added locals, and the resolved function carries no special list -/
private def mkI05 (t : Tok) (k : Kind) : Instr := { tok := t, kind := k }
set_option maxRecDepth 20000 in
example :
    let f : Func := { body := [{ mkI05 "block" .block with blockExit := ["X"] }, { mkI05 "br_if 0" (.brIf 0) with semAfter := ["S"] },
                              mkI05 "end" .end_, mkI05 "end" .end_], hasSpecial := true, exit := ["EX"], nlocals := 2 }
    lower (resolveSpecial f) = lower f ∧ (lower f).2 = 1 ∧ (lower f).1.length = 17
    ∧ (resolveSpecial f).body.all (fun i => i.semAfter.isEmpty && i.blockExit.isEmpty) = true := by
  decide

end Orca.Lower

/-- **The tie to the source (regenerated on every run).** Every place in `encode_internal` that can change the module it encodes
    (assignments through a field path, mutable borrows, mutating calls), in source order. What the first encoding leaves behind is what
    these writes do; a new write (for instance a list purged or a flag reset during encoding), a removed one or a reordering breaks
    this obligation. -/
theorem c05_encoder_writes_reviewed :
    Orca.Gen.EncodeWrites.encode_internal = Orca.EncodeWritesSpec.encode_internal := rfl

/-- decided on the regenerated list: the only field of the module the encoder assigns directly is `start`; every other change goes through
    one of the reviewed mutable borrows / in-place rewrites, each of which is in the list of writes that reach the module -/
theorem c05_encoder_assigns_only_start :
    (Orca.Gen.EncodeWrites.encode_internal.filter (fun w => w.1 == "assign")) = [("assign", "self.start =")]
    ∧ ∀ w ∈ Orca.EncodeWritesSpec.reachModule, w ∈ Orca.Gen.EncodeWrites.encode_internal := by
  decide
