import Orca.Lemmas.IdemHist
/-!
# C05 — encoding again without edits gives the same bytes

The full statement is **false** of the current code and of the model (known finding F4): after an operation that
sets a `recalculate_ids` flag, the first encode reorganises the vectors and rewrites stored indices in place while
the stored ids and the flags stay as they were, so the second encode maps already-mapped indices again.
`c05_second_encode_counterexample` decides a concrete instance in the model; the same history is replayed on the
crate from `corpus/`. What is proved is the part of the statement that holds: histories that leave no re-indexing
pending (injections of any kind, initialiser changes, global additions through `add_global`, exports, data) — for states
(`c05_encode_idem_partial`) and for **every history** of such operations on a parsed module
(`c05_encode_idem_after_quiet_history`; the invariants it needs are proved inductive in Lemmas/Preserve.lean and
Lemmas/IdemHist.lean).
-/
namespace Orca.Edit
open Orca.Reindex

/-- **partial** (`NoReindexPending`): the first encode rewrites nothing — it returns the state it was given — so the
    second encode computes exactly the same module -/
theorem c05_encode_idem_partial (s : St) (hn : NoReindexPending s)
    (hf : IdsFresh s.f.items) (hg : IdsFresh s.g.items) (hm : IdsFresh s.m.items)
    (hr : ∀ r ∈ allRefs s, InRange s r) (hk1 : KeysNodup s.ginit) (hk2 : KeysNodup s.code) :
    (encode s).1 = s ∧ encode (encode s).1 = encode s :=
  ⟨encode_fixpoint s hn hf hg hm hr hk1 hk2, encode_twice_same s hn hf hg hm hr hk1 hk2⟩

/-- **partial, for histories.** `s0` is what the parser builds (`StInv`, `IdemInv`: no flag set, every stored reference in
    range, one initialiser per global and one code entry per function); `ops` is any sequence of injections, initialiser
    changes, `add_global`s, export additions / deletions and data additions whose references make sense when they are
    issued (`QuietHist`). Then the first encode changes nothing and the second encode gives the same module. -/
theorem c05_encode_idem_after_quiet_history (s0 : St) (h0 : StInv s0) (hi : IdemInv s0) (ops : List Op) (hq : QuietHist s0 ops) :
    let s := (run s0 ops).1
    (encode s).1 = s ∧ encode (encode s).1 = encode s :=
  encode_twice_after_quiet_history s0 h0 hi ops hq

/-- the full statement fails: one local function that calls itself, one `add_import_func`; the first encode emits the
    call with index 1 (the function itself, uid 10), the second with index 0 (the import, uid 11) -/
theorem c05_second_encode_counterexample :
    let s0 : St := { f := { items := [⟨0, false, false, 10, 0⟩] }, code := [(10, [⟨100, Sp.F, 0⟩])] }
    let s1 := (addImportFunc s0 11).1
    let e1 := encode s1
    let e2 := encode e1.1
    (match e1.2, e2.2 with
     | Ret.encoded F1 _ _ r1 _, Ret.encoded F2 _ _ r2 _ => (r1.map (fun r => F1[r.idx]?), r2.map (fun r => F2[r.idx]?))
     | _, _ => ([], [])) = ([some 10], [some 11]) := by decide

/-- non-vacuity of the partial theorem's premises: a module with an import, two locals and references -/
example : let s : St := { f := { items := [⟨0, true, false, 1, 0⟩, ⟨1, false, false, 2, 0⟩], numImp := 1 },
                          imports := [⟨some Sp.F, false, 1⟩], code := [(2, [⟨100, Sp.F, 0⟩, ⟨101, Sp.F, 1⟩])] }
    (encode s).1.code = s.code ∧ (encode (encode s).1).2 matches Ret.encoded .. := by decide

end Orca.Edit
