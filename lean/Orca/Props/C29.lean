import Orca.Lemmas.Names
import Orca.Gen.ApiOutline
import Orca.Model.ApiOutlineSpec
import Orca.Lemmas.Ops
/-!
# C29 — names stay attached to their entities

Model M13 (`Orca.Names`) on top of the index-space models M1 / M2: a local function's name lives on the function and
is emitted at the function's new index; an imported function's name lives on its import entry and is emitted with a
counter over the emitted function imports; the parsed names of locals and globals are kept with the id of their
function / global and re-keyed with the id mapping when the name section is written (after the repairs F24 and F33).
-/
namespace Orca.Names
open Orca.Edit Orca.Reindex

/-- **local functions.** With `locals` the uids of the emitted local functions in output order and `nimp` emitted
    function imports in front of them: the name section names index `nimp + k` with exactly the name stored on the
    `k`-th emitted local function — nothing else is named in that range. -/
theorem c29_local_function_names (s : NSt) (locals : List Nat) (i : Nat) (n : String)
    (hi : ((s.e.imports.zipIdx.filter (fun (p : ImpEntry × Nat) => p.1.sp == some Sp.F && !p.1.del)).length) ≤ i) :
    (i, n) ∈ emittedFnames s locals ↔
      ∃ k u, i = (s.e.imports.zipIdx.filter (fun (p : ImpEntry × Nat) => p.1.sp == some Sp.F && !p.1.del)).length + k
        ∧ locals[k]? = some u ∧ getName s.fname u = some n := by
  simp only [emittedFnames, List.mem_append, List.mem_filterMap, Option.map_eq_some_iff, Prod.mk.injEq]
  constructor
  · rintro (⟨⟨⟨e, pos⟩, c⟩, hmem, nm, _, hc, _⟩ | ⟨⟨u, k⟩, hmem, nm, hnm, hk, hn⟩)
    · -- an import name has an index below the number of imports
      have := List.mem_zipIdx hmem
      simp only at hc; omega
    · have := List.mem_zipIdx hmem
      simp only [Nat.zero_add] at this
      refine ⟨k, u, hk.symm, ?_, ?_⟩
      · rw [List.getElem?_eq_getElem this.2.1]; exact congrArg some this.2.2.symm
      · rw [← hn]; exact hnm
  · rintro ⟨k, u, hik, hk, hn⟩
    refine .inr ⟨(u, k), ?_, n, hn, hik.symm, rfl⟩
    have hlt : k < locals.length := by
      rcases Nat.lt_or_ge k locals.length with h | h
      · exact h
      · simp [List.getElem?_eq_none h] at hk
    rw [List.mem_zipIdx_iff_getElem?]
    simpa using hk

/-- **imported functions.** The name section names an index `i` below the number of emitted function imports with exactly the
    custom name stored on the `i`-th *emitted* function import entry (the live one at position `pos` of the import list) — the
    entity that has function index `i` in the encoded module (`c06_index_space_is_vector`); deleted import entries and imports of
    other kinds in front of it do not shift the name (the repaired F33). -/
theorem c29_import_function_names (s : NSt) (locals : List Nat) (i : Nat) (n : String)
    (hi : i < ((s.e.imports.zipIdx.filter (fun (p : ImpEntry × Nat) => p.1.sp == some Sp.F && !p.1.del)).length)) :
    (i, n) ∈ emittedFnames s locals ↔
      ∃ e pos, (s.e.imports.zipIdx.filter (fun (p : ImpEntry × Nat) => p.1.sp == some Sp.F && !p.1.del))[i]? = some (e, pos)
        ∧ getName s.impName pos = some n := by
  simp only [emittedFnames, List.mem_append, List.mem_filterMap, Option.map_eq_some_iff, Prod.mk.injEq]
  constructor
  · rintro (⟨⟨⟨e, pos⟩, c⟩, hmem, nm, hnm, hc, hn⟩ | ⟨⟨u, k⟩, _, nm, _, hk, _⟩)
    · have := List.mem_zipIdx hmem
      simp only [Nat.zero_add] at this hc
      subst hc
      refine ⟨e, pos, ?_, by rw [← hn]; exact hnm⟩
      rw [List.getElem?_eq_getElem this.2.1]; exact congrArg some this.2.2.symm
    · simp only at hk; omega
  · rintro ⟨e, pos, hget, hn⟩
    refine .inl ⟨((e, pos), i), ?_, n, hn, rfl, rfl⟩
    rw [List.mem_zipIdx_iff_getElem?]
    simpa using hget

/-- non-vacuity: a global import and a deleted function import in front; the name set on import position 2 is emitted at index 0 -/
example :
    let s : NSt := { e := { imports := [⟨some Sp.G, false, 1⟩, ⟨some Sp.F, true, 2⟩, ⟨some Sp.F, false, 3⟩] }, impName := [(2, "imp")] }
    emittedFnames s [] = [(0, "imp")] := by decide

/-- **naming call on a local function**: `set_fn_name(id, name)` with `id` designating a local function - whatever the id is,
    below or above the number of function imports - stores the name on the function that `id` designates and on no other; every
    other name is untouched -/
theorem c29_set_fn_name_local (s : NSt) (id : Nat) (name : String) (it : Item)
    (hit : s.e.f.items[id]? = some it) (hloc : it.imp = false) :
    ∃ s', setFnName s id name = some s' ∧ getName s'.fname it.uid = some name
      ∧ (∀ u, u ≠ it.uid → getName s'.fname u = getName s.fname u)
      ∧ s'.impName = s.impName ∧ s'.lnames = s.lnames ∧ s'.gnames = s.gnames ∧ s'.e = s.e := by
  refine ⟨{ s with fname := setName s.fname it.uid name }, by simp [setFnName, hit, hloc], ?_, ?_, rfl, rfl, rfl, rfl⟩
  · simp [getName_setName]
  · intro u hu
    have : ¬ it.uid = u := fun h => hu h.symm
    simp [getName_setName, this]

/-- **naming call on an imported function** (parsed, added after parsing - with an id behind the local functions - or converted):
    the name goes to the import entry the function records, to no other import and to no local function -/
theorem c29_set_fn_name_import (s : NSt) (id : Nat) (name : String) (it : Item)
    (hit : s.e.f.items[id]? = some it) (himp : it.imp = true) :
    ∃ s', setFnName s id name = some s' ∧ getName s'.impName it.impId = some name
      ∧ (∀ k, k ≠ it.impId → getName s'.impName k = getName s.impName k)
      ∧ s'.fname = s.fname ∧ s'.lnames = s.lnames ∧ s'.gnames = s.gnames ∧ s'.e = s.e := by
  refine ⟨{ s with impName := setName s.impName it.impId name }, by simp [setFnName, hit, himp], ?_, ?_, rfl, rfl, rfl, rfl⟩
  · simp [getName_setName]
  · intro k hk
    have : ¬ it.impId = k := fun h => hk h.symm
    simp [getName_setName, this]

/-- the history of finding F38, decided: one parsed import, two local functions, four imports added after parsing (ids 3..6, import
    entries 1..4); naming function 4 names import entry 2 - not the fifth function import, which the id-range rule picked -/
example :
    let e : Edit.St := { f := { items := [⟨0, true, false, 1, 0⟩, ⟨1, false, false, 9, 0⟩, ⟨2, false, false, 10, 0⟩, ⟨3, true, false, 11, 1⟩,
                                          ⟨4, true, false, 12, 2⟩, ⟨5, true, false, 13, 3⟩, ⟨6, true, false, 14, 4⟩] } }
    (setFnName { e := e } 4 "renamed1").map (·.impName) = some [(2, "renamed1")] := by decide

/-- **local names.** After `encode` re-indexed the functions (`ys`), the name section carries a local name at
    `(p, l)` exactly when the input named local `l` of the function with id `fi` and the id map sends `fi` to `p` -/
theorem c29_local_names_emitted (s : NSt) (p l : Nat) (n : String) :
    ((p, l), n) ∈ emittedLnames s ↔ ∃ fi, ((fi, l), n) ∈ s.lnames ∧ mapping s.e.f.items fi = some p := by
  simp only [emittedLnames, mem_sortByKey, List.mem_filterMap, Option.map_eq_some_iff, Prod.mk.injEq]
  constructor
  · rintro ⟨⟨⟨fi, l'⟩, n'⟩, hmem, q, hq, ⟨hp, hl⟩, hn⟩
    subst hp; subst hl; subst hn
    exact ⟨fi, hmem, hq⟩
  · rintro ⟨fi, hmem, hq⟩
    exact ⟨((fi, l), n), hmem, p, hq, ⟨rfl, rfl⟩, rfl⟩

/-- … and that index is the new index **of the same function**: with stored ids equal to positions before the
    re-indexing (`IdsFresh`), the map sends the id of a live function to the position of that very function and the id of
    a deleted function nowhere (its local names are dropped) -/
theorem c29_names_follow_entities (orig : Nat) (xs : List Item) (h : orig ≤ xs.length) (hf : IdsFresh xs) :
    ∃ ys, recalculate orig xs = some ys
      ∧ (∀ fi x, xs[fi]? = some x → x.del = false → ∃ p, mapping ys fi = some p ∧ ys[p]? = some x)
      ∧ (∀ fi x, xs[fi]? = some x → x.del = true → mapping ys fi = none) := by
  obtain ⟨ys, a, _, _, c, d, _⟩ := recalculate_spec orig xs h hf
  exact ⟨ys, a, c, d⟩

/-- the same for global names -/
theorem c29_global_names_emitted (s : NSt) (p : Nat) (n : String) :
    (p, n) ∈ emittedGnames s ↔ ∃ gi, (gi, n) ∈ s.gnames ∧ mapping s.e.g.items gi = some p := by
  simp only [emittedGnames, mem_sortByKey, List.mem_filterMap, Option.map_eq_some_iff, Prod.mk.injEq]
  constructor
  · rintro ⟨⟨gi, n'⟩, hmem, q, hq, hp, hn⟩
    subst hp; subst hn
    exact ⟨gi, hmem, hq⟩
  · rintro ⟨gi, hmem, hq⟩
    exact ⟨(gi, n), hmem, p, hq, rfl, rfl⟩

/-- the emitted maps are sorted by index, as the name section requires -/
theorem c29_emitted_sorted (s : NSt) :
    Sorted (fun (p : (Nat × Nat) × String) => p.1.1) (emittedLnames s) ∧ Sorted (fun (p : Nat × String) => p.1) (emittedGnames s) :=
  ⟨sorted_sortByKey _ _, sorted_sortByKey _ _⟩

/-- **a function built to replace an import is named after the import's field**: after `replace_import_in_module(ImportsID p)` on a live
    function import, the new local function `uid` carries the field name, every other function keeps its name, the import names and
    the local / global name maps are untouched, and the index spaces are M2's `replaceImport` (C10) -/
theorem c29_replacement_named_after_import (s : NSt) (impId uid : Nat) (field : String) (e : ImpEntry) (fid : Nat)
    (he : s.e.imports[impId]? = some e) (hk : e.sp = some Sp.F)
    (hfind : s.e.f.items.findIdx? (fun (it : Item) => !it.del && it.imp && it.impId == impId) = some fid) :
    let r := replaceImportNamed s impId uid field
    getName r.1.fname uid = some field
    ∧ (∀ u, u ≠ uid → getName r.1.fname u = getName s.fname u)
    ∧ r.1.impName = s.impName ∧ r.1.lnames = s.lnames ∧ r.1.gnames = s.gnames
    ∧ r.1.e = (replaceImport s.e impId uid []).1 ∧ r.2 = (replaceImport s.e impId uid []).2 := by
  simp only [replaceImportNamed, he, hk, hfind, beq_self_eq_true, Option.isSome_some, Bool.and_self, if_true]
  refine ⟨by simp [getName_setName], ?_, by simp⟩
  intro u hu
  have : ¬ uid = u := fun h => hu h.symm
  simp [getName_setName, this]

end Orca.Names

/-- **The tie to the source (regenerated on every run).** The control-and-call skeletons of the functions this property rests on:
    `set_fn_name` is what M13's naming was transcribed from. A step moved, an early exit, guard, call or assignment added or removed breaks this obligation; renaming, comments and
    formatting do not. -/
theorem c29_naming_code_reviewed :
    Orca.Gen.ApiOutline.set_fn_name = Orca.ApiOutlineSpec.set_fn_name :=
  rfl
