import Orca.Model.Builder
import Orca.Gen.ApiOutline
import Orca.Model.ApiOutlineSpec
import Orca.Lemmas.Locals
import Orca.Lemmas.Lower
import Orca.Lemmas.Types
import Orca.Lemmas.Ops
import Orca.Lemmas.Redirect
/-!
# C12 — built functions appear exactly as built

Models: M14 (`Orca.Builder`, the function builder), M6 (locals), M3 (emission of a function body), M5 (the function
type is interned with `add_func_type`), M2 (the id `finish_module` returns), M13 (the name; C29). One statement per
clause of the property; the `adds` family builds functions with random signatures, locals, bodies and names among
renumbering edits and compares the decoded output clause by clause.
-/
namespace Orca.Builder
open Orca.Locals

theorem injectAll_ops (b : B) (ts : List Lower.Tok) : (injectAll b ts).ops = b.ops ++ ts := by
  induction ts generalizing b with
  | nil => simp [injectAll]
  | cons t ts ih => simp only [injectAll, List.foldl_cons] at ih ⊢; rw [ih]; simp [inject]

theorem injectAll_locals (b : B) (ts : List Lower.Tok) : (injectAll b ts).locals = b.locals ∧ (injectAll b ts).name = b.name
    ∧ (injectAll b ts).params = b.params ∧ (injectAll b ts).results = b.results := by
  induction ts generalizing b with
  | nil => simp [injectAll]
  | cons t ts ih => simp only [injectAll, List.foldl_cons] at ih ⊢; simpa [inject] using ih (inject b t)

/-- **instructions.** The built instruction sequence followed by exactly one `end` -/
theorem c12_body (params results : List Nat) (ts : List Lower.Tok) :
    (finish (injectAll (new params results) ts)).body = ts ++ ["end"] := by
  simp [finish, injectAll_ops, new]

/-- … and that is what the code section emits for a function nobody has instrumented: every instruction itself, in
    order, nothing added -/
theorem c12_body_emitted (body : List Lower.Tok) : Lower.emit (plain body) = body := by
  have h : ∀ (l : List Lower.Tok) (last k : Nat),
      Lower.emitFrom last k (l.map fun t => ({ tok := t, kind := .other } : Lower.Instr)) = l := by
    intro l
    induction l with
    | nil => intro last k; rfl
    | cons t ts ih => intro last k; simp [Lower.emitFrom, ih]
  simp [Lower.emit, plain, h]

/-- **locals.** Declaring locals `tys` one by one returns the indices `#params, #params + 1, …` and the function
    declares exactly `tys`, in order -/
theorem c12_locals (params results tys : List Nat) :
    let r := Locals.addLocals (new params results).locals tys
    expand r.1.decls = tys ∧ r.2 = (List.range tys.length).map (fun k => params.length + k) := by
  intro r
  obtain ⟨e, i, _, _⟩ := addLocals_spec tys (parsed params.length []) (parsed_inv _ _)
  have hr : r = addLocals (parsed params.length []) tys := rfl
  rw [hr]
  exact ⟨by simpa [expand, parsed] using e, by simpa [expand, parsed] using i⟩

/-- **signature.** `finish_module` interns the function type with `add_func_type`; the encoded type section holds
    exactly that type at the index the function section refers to, and no existing type moved (C13) -/
theorem c12_signature {τ : Type} [DecidableEq τ] (s : Orca.Types.TState τ) (fty : τ) (h : Orca.Types.WF s) :
    let r := Orca.Types.addType s fty
    (Orca.Types.encoded r.1)[r.2]? = some (some fty) ∧ (∃ ext, Orca.Types.encoded r.1 = Orca.Types.encoded s ++ ext) := by
  have hs := Orca.Types.addType_spec s fty h
  simp only at hs ⊢
  obtain ⟨hat, hwf, _, ⟨ext, hext, _⟩, _⟩ := hs
  refine ⟨?_, ⟨ext, hext⟩⟩
  rw [Orca.Types.encoded_eq _ hwf, List.getElem?_map, hat]; rfl

/-- **id.** The id `finish_module` returns is the position the function is stored at (`functions.len()` before the
    call) — the id that `encode` maps to the function's index in the output (C06, `c06_encode_refs`) -/
theorem c12_returned_id (s : Orca.Edit.St) (uid : Nat) (sites : List Orca.Edit.Ref) :
    (Orca.Edit.addLocalFunc s uid sites).2 = Orca.Edit.Ret.id s.f.items.length
    ∧ (Orca.Edit.addLocalFunc s uid sites).1.f.items = s.f.items ++ [Orca.Edit.mkItem s.f.items.length false uid 0] := by
  constructor
  · exact (Orca.Edit.addLocalFunc_spec s uid sites).1
  · simp [Orca.Edit.addLocalFunc, Orca.Edit.Space.push]

open Orca.Edit in
/-- **the returned id refers to the built function — in the encoded module, after any later history** that neither deletes nor
    converts it (and does not encode): every emitted function reference whose stored id is the id `finish_module` returned
    designates the built function `uid`, or the encoder fails loudly on some dangling reference. -/
theorem c12_returned_id_refers_to_it (s0 : St) (h0 : StInv s0) (uid : Nat) (sites : List Ref) (ops : List Op)
    (hs : ∀ o ∈ ops, o ≠ .encode ∧ o ≠ .deleteFunc s0.f.items.length ∧ ∀ u, o ≠ .localToImport s0.f.items.length u) :
    let n := (s0.space .F).items.length
    let s := (run (step s0 (.addLocalFunc uid sites)).1 ops).1
    reportedId (step s0 (.addLocalFunc uid sites)).2 = some n
    ∧ ((∃ s' F G M res st, encode s = (s', Ret.encoded F G M res st)
        ∧ (∀ r' ∈ res ++ st.toList, ∃ r ∈ allRefs s, r'.site = r.site ∧ r'.sp = r.sp
            ∧ (∃ u, PointsTo s r u ∧ designated F G M r' = some u)
            ∧ (r.sp = .F → r.idx = n → designated F G M r' = some uid)))
      ∨ (∃ s' why, encode s = (s', Ret.panic why) ∧ ∃ r ∈ allRefs s, Dangling s r)) := by
  refine added_id_designates s0 h0 (.addLocalFunc uid sites) .F uid rfl ops ?_
  intro x hx o ho
  obtain ⟨a, b, c⟩ := hs o ho
  have hxi : x.imp = false := by
    simp [step, addLocalFunc, St.space, Space.push, mkItem] at hx
    rw [← hx]
  show SparesF _ x o
  cases o with
  | deleteFunc i => exact fun h => b (by simp only [St.space] at h ⊢; rw [h])
  | localToImport i u => exact .inl (fun h => c u (by simp only [St.space] at h ⊢; rw [h]))
  | replaceImport k u c' => exact .inl hxi
  | encode => exact absurd rfl a
  | _ => exact True.intro

/-- **name.** The name set on the builder is the name handed to the module (and C29 places it at the function's index) -/
theorem c12_name (params results : List Nat) (n : String) (ts : List Lower.Tok) :
    (finish (injectAll (setName (new params results) n) ts)).name = some n := by
  simp [finish, (injectAll_locals _ ts).2.1, setName]

/-! non-vacuity (decided) -/
example :
    let b := injectAll (addLocal (addLocal (addLocal (new [1, 2] [3]) 7).1 7).1 4).1 ["local.get:0", "drop", "f32.const:1"]
    expand (finish b).decls = [7, 7, 4] ∧ (finish b).decls = [(2, 7), (1, 4)] ∧ (finish b).body = ["local.get:0", "drop", "f32.const:1", "end"]
      ∧ Lower.emit (plain (finish b).body) = ["local.get:0", "drop", "f32.const:1", "end"] := by decide

end Orca.Builder

/-- **The tie to the source (regenerated on every run).** The control-and-call skeletons of the functions this property rests on:
    `finish_module_with_tag` and `add_local_func_with_tag` are what M14 was transcribed from. A step moved, an early exit, guard, call or assignment added or removed breaks this obligation; renaming, comments and
    formatting do not. -/
theorem c12_builder_code_reviewed :
    Orca.Gen.ApiOutline.add_local_func_with_tag = Orca.ApiOutlineSpec.add_local_func_with_tag
    ∧ Orca.Gen.ApiOutline.finish_module_with_tag = Orca.ApiOutlineSpec.finish_module_with_tag :=
  ⟨rfl, rfl⟩
