import Orca.Model.Custom
import Orca.Gen.ApiOutline
import Orca.Model.ApiOutlineSpec
/-!
# C28 — custom sections are preserved and edited exactly

Model: `Orca.Custom` (M8). "Nothing else changes" has two halves: within the custom-section list it is
the frame statements below; for the rest of the module it is checked on the real output by the
correspondence oracle (text of all non-custom sections before and after).
-/
namespace Orca.Custom

/-- parse then encode keeps every custom section other than the name section, with its name, contents and
    relative order -/
theorem c28_roundtrip (input : List Sec) :
    encode (parse input) = input.filter (fun s => s.name != nameSec) := rfl

/-- … in particular an input without a name section comes back unchanged -/
theorem c28_roundtrip_id (input : List Sec) (h : ∀ s ∈ input, s.name ≠ nameSec) :
    encode (parse input) = input := by
  unfold encode parse
  apply List.filter_eq_self.mpr
  intro s hs; simpa using h s hs

/-- adding appends: the returned id designates the new section, every existing section keeps its id,
    name and contents -/
theorem c28_add (st : State) (s : Sec) :
    let r := step st (.add s)
    r.2 = .id st.length ∧ encode r.1 = encode st ++ [s]
    ∧ r.1[st.length]? = some s ∧ (∀ i, i < st.length → r.1[i]? = st[i]?) := by
  refine ⟨rfl, rfl, by simp [step], ?_⟩
  intro i hi; simp [step, List.getElem?_append_left hi]

/-- deleting an existing id removes exactly that section: the ones before keep their position, the ones
    after move up by one, in order -/
theorem c28_delete (st : State) (id : Nat) (h : id < st.length) :
    let r := step st (.delete id)
    encode r.1 = st.take id ++ st.drop (id + 1)
    ∧ r.1.length + 1 = st.length
    ∧ (∀ i, i < id → r.1[i]? = st[i]?) ∧ (∀ i, id ≤ i → r.1[i]? = st[i + 1]?) := by
  have hs : (step st (.delete id)).1 = st.eraseIdx id := by simp [step, h]
  refine ⟨by rw [hs]; exact List.eraseIdx_eq_take_drop_succ .., by rw [hs, List.length_eraseIdx]; simp [h]; omega, ?_, ?_⟩
  · intro i hi; rw [hs, List.getElem?_eraseIdx]; simp [hi]
  · intro i hi; rw [hs, List.getElem?_eraseIdx]; simp [Nat.not_lt.mpr hi]

/-- deleting an id that does not exist changes nothing -/
theorem c28_delete_absent (st : State) (id : Nat) (h : st.length ≤ id) :
    (step st (.delete id)).1 = st := by
  simp [step, Nat.not_lt.mpr h]

/-- modifying changes the contents of that section only; names, order and all other contents stay -/
theorem c28_modify (st : State) (id : Nat) (d : String) (s : Sec) (h : st[id]? = some s) :
    let r := step st (.modify id d)
    r.1[id]? = some { name := s.name, data := d }
    ∧ (∀ i, i ≠ id → r.1[i]? = st[i]?) ∧ r.1.length = st.length
    ∧ r.1.map (·.name) = st.map (·.name) := by
  have hlt : id < st.length := by
    rcases Nat.lt_or_ge id st.length with h' | h'
    · exact h'
    · simp [List.getElem?_eq_none h'] at h
  have hs : (step st (.modify id d)).1 = st.set id { s with data := d } := by simp [step, h]
  refine ⟨by rw [hs]; simp [hlt], ?_, by rw [hs]; simp, ?_⟩
  · intro i hi; rw [hs, List.getElem?_set_ne (Ne.symm hi)]
  · rw [hs, List.map_set]
    apply List.ext_getElem?
    intro i
    by_cases hi : id = i
    · subst hi
      have hg : st[id] = s := by
        have := List.getElem?_eq_getElem hlt; rw [h] at this; exact (Option.some.inj this).symm
      simp [hlt, hg]
    · simp [List.getElem?_set_ne hi]

theorem c28_modify_absent (st : State) (id : Nat) (d : String) (h : st[id]? = none) :
    step st (.modify id d) = (st, .none) := by simp [step, h]

/-- `get_id` never changes the sections and answers the first section carrying the name -/
theorem firstIdx_spec (name : String) : ∀ (l : List Sec) (k i : Nat), firstIdx name l k = some i →
    k ≤ i ∧ (l[i - k]?).map (·.name) = some name ∧ ∀ j, j < i - k → (l[j]?).map (·.name) ≠ some name := by
  intro l
  induction l with
  | nil => intro k i h; simp [firstIdx] at h
  | cons s l ih =>
    intro k i h
    unfold firstIdx at h
    by_cases hn : s.name = name
    · simp only [hn, if_true, Option.some.injEq] at h; subst h
      simp [hn]
    · simp only [hn, if_false] at h
      obtain ⟨a, b, c⟩ := ih (k + 1) i h
      have hik : i - k = (i - (k + 1)) + 1 := by omega
      refine ⟨by omega, by rw [hik]; simpa using b, ?_⟩
      intro j hj
      cases j with
      | zero => simp [hn]
      | succ j => simpa using c j (by omega)

theorem c28_get_id (st : State) (name : String) :
    (step st (.getId name)).1 = st
    ∧ (∀ i, (step st (.getId name)).2 = .id i →
        (st[i]?).map (·.name) = some name ∧ ∀ j, j < i → (st[j]?).map (·.name) ≠ some name) := by
  refine ⟨by simp only [step]; split <;> rfl, ?_⟩
  intro i hi
  simp only [step] at hi
  split at hi
  · rename_i k hk
    simp only [Out.id.injEq] at hi; subst hi
    have := firstIdx_spec name st 0 k hk
    simpa using this.2
  · simp at hi

/-- any history of edits: the encoded custom sections are exactly the state reached by the model -/
theorem c28_history (input : List Sec) (ops : List Op) :
    encode (run (parse input) ops).1 = (run (input.filter (fun s => s.name != nameSec)) ops).1 := rfl

/-- non-vacuity: a concrete history -/
example :
    (run (parse [⟨"aa", "01"⟩, ⟨nameSec, "ff"⟩, ⟨"bb", "02"⟩, ⟨"aa", "03"⟩])
      [.getId "aa", .delete 0, .getId "aa", .add ⟨"cc", ""⟩, .modify 1 "09", .delete 7, .modify 5 "00"])
    = ([⟨"bb", "02"⟩, ⟨"aa", "09"⟩, ⟨"cc", ""⟩], [.id 0, .done, .id 1, .id 2, .done, .done, .none]) := by
  decide

end Orca.Custom

/-- **The tie to the source (regenerated on every run).** The six functions of `CustomSections` (src/ir/types.rs) that M8 transcribes,
    taken word for word (white space normalised): their whole content is a bounds comparison and a vector operation each, so a skeleton of
    calls would not see `<` turned into `<=` or `remove` into `swap_remove`. Any change to their text breaks this obligation. -/
theorem c28_custom_sections_code_reviewed :
    Orca.Gen.ApiOutline.custom_new = Orca.ApiOutlineSpec.custom_new
    ∧ Orca.Gen.ApiOutline.custom_get_id = Orca.ApiOutlineSpec.custom_get_id
    ∧ Orca.Gen.ApiOutline.custom_get_by_id = Orca.ApiOutlineSpec.custom_get_by_id
    ∧ Orca.Gen.ApiOutline.custom_delete = Orca.ApiOutlineSpec.custom_delete
    ∧ Orca.Gen.ApiOutline.custom_get_section_data_mut = Orca.ApiOutlineSpec.custom_get_section_data_mut
    ∧ Orca.Gen.ApiOutline.custom_add = Orca.ApiOutlineSpec.custom_add :=
  ⟨rfl, rfl, rfl, rfl, rfl, rfl⟩
