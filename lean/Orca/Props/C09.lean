import Orca.Lemmas.Ops
import Orca.Gen.ApiOutline
import Orca.Model.ApiOutlineSpec
import Orca.Lemmas.Preserve
/-!
# C09 — deletion removes exactly the deleted entity
-/
namespace Orca.Reindex

/-- exactly the entries not marked deleted survive re-indexing (each once), and a deleted entry's id is in no map:
    every reference to it makes the rewriting code panic instead of designating another entity -/
theorem c09_survivors_and_unmapped (orig : Nat) (xs : List Item) (h : orig ≤ xs.length) (hf : IdsFresh xs) :
    ∃ ys, recalculate orig xs = some ys
      ∧ ys.Perm (xs.filter (fun x => !x.del))
      ∧ (∀ i x, xs[i]? = some x → x.del = true → mapping ys i = none) := by
  obtain ⟨ys, a, _, b, _, d, _⟩ := recalculate_spec orig xs h hf
  exact ⟨ys, a, b, d⟩

end Orca.Reindex

namespace Orca.Edit
open Orca.Reindex

/-- deleting marks exactly the addressed entity (and, for an imported one, exactly its import entry) -/
theorem c09_delete_marks_one (s : St) (sp : Sp) (id : Nat) (x : Item) (hx : (s.space sp).items[id]? = some x)
    (hloc : x.imp = false) :
    let r := deleteEntity s sp id
    r.2 = Ret.unit ∧ ((r.1.space sp).items[id]? = some { x with del := true })
    ∧ (∀ j, j ≠ id → (r.1.space sp).items[j]? = (s.space sp).items[j]?) ∧ r.1.imports = s.imports := by
  have hset := setItem_get (s.space sp).items id (fun (it : Item) => { it with del := true }) x hx
  cases sp <;> simp only [deleteEntity, St.space, St.setSpace] at hset ⊢ <;>
    simp only [hset.1, hloc, Bool.false_eq_true, if_false] <;>
    exact ⟨by trivial, by simpa using hset.1, by simpa using hset.2.1, by trivial⟩

/-- **Loud failure.** If encoding succeeds, no emitted reference designated a deleted entity; if some stored reference
    does, encoding panics (and only then). -/
theorem c09_dangling_is_loud (s : St) (hf : SpaceInv s.f s.imports .F) (hg : SpaceInv s.g s.imports .G)
    (hm : SpaceInv s.m s.imports .M) :
    (∃ s' F G M res st, encode s = (s', Ret.encoded F G M res st)
        ∧ ∀ r' ∈ res ++ st.toList, ∃ r ∈ allRefs s, r'.site = r.site ∧ ∃ u, PointsTo s r u ∧ designated F G M r' = some u)
    ∨ (∃ s' why, encode s = (s', Ret.panic why) ∧ ∃ r ∈ allRefs s, Dangling s r) := by
  rcases encode_spec s hf hg hm with ⟨s', F, G, M, res, st, he, h⟩ | h
  · left
    refine ⟨s', F, G, M, res, st, he, fun r' hr' => ?_⟩
    obtain ⟨r, hr, a, _, u, c, d⟩ := h r' hr'
    exact ⟨r, hr, a, u, c, d⟩
  · right; exact h

/-- the index space of the encoded module contains exactly the entities of the re-indexed vector, none deleted -/
theorem c09_output_has_no_deleted (x : Space) (I : List ImpEntry) (sp : Sp) (inv : SpaceInv x I sp) :
    ∃ ys, remap x = some ys ∧ impUids I sp ++ emittedLocals ys = ys.map (·.uid) ∧ ∀ y ∈ ys, y.del = false := by
  obtain ⟨ys, h, R⟩ := remap_spec x I sp inv
  exact ⟨ys, h, R.out, R.noDeleted⟩

/-- `c09_dangling_is_loud` and `c09_output_has_no_deleted` after **any** history of edits on a parsed module, deletions of
    anything in any order included (the state invariant is inductive: `stInv_step`, Lemmas/Preserve.lean) -/
theorem c09_after_any_history (s0 : St) (h0 : StInv s0) (ops : List Op) (hn : NoEncode ops) :
    let s := (run s0 ops).1
    ((∃ s' F G M res st, encode s = (s', Ret.encoded F G M res st)
        ∧ ∀ r' ∈ res ++ st.toList, ∃ r ∈ allRefs s, r'.site = r.site ∧ ∃ u, PointsTo s r u ∧ designated F G M r' = some u)
      ∨ (∃ s' why, encode s = (s', Ret.panic why) ∧ ∃ r ∈ allRefs s, Dangling s r))
    ∧ ∀ sp, ∃ ys, remap (s.space sp) = some ys ∧ impUids s.imports sp ++ emittedLocals ys = ys.map (·.uid) ∧ ∀ y ∈ ys, y.del = false := by
  intro s
  have h := stInv_run ops s0 hn h0
  refine ⟨c09_dangling_is_loud _ h.f.spaceInv h.g.spaceInv h.m.spaceInv, fun sp => ?_⟩
  cases sp
  · exact c09_output_has_no_deleted _ _ _ h.f.spaceInv
  · exact c09_output_has_no_deleted _ _ _ h.g.spaceInv
  · exact c09_output_has_no_deleted _ _ _ h.m.spaceInv

end Orca.Edit

/-- **The tie to the source (regenerated on every run).** The control-and-call skeletons of the functions this property rests on:
    the three deletion calls are what M2's deletions were transcribed from. A step moved, an early exit, guard, call or assignment added or removed breaks this obligation; renaming, comments and
    formatting do not. -/
theorem c09_deletion_code_reviewed :
    Orca.Gen.ApiOutline.delete_func = Orca.ApiOutlineSpec.delete_func
    ∧ Orca.Gen.ApiOutline.delete_global = Orca.ApiOutlineSpec.delete_global
    ∧ Orca.Gen.ApiOutline.delete_memory = Orca.ApiOutlineSpec.delete_memory :=
  ⟨rfl, rfl, rfl⟩
