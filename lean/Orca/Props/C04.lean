import Orca.Gen.ApiOutline
import Orca.Model.ApiOutlineSpec
import Orca.Lemmas.Types
import Orca.Lemmas.Lower
import Orca.Gen.HashSites
/-!
# C04 — encoding is deterministic

Hash seeds differ between processes (and between two `HashMap`s of one process); they can reach the output only through
the *iteration order* of a hash map. `Orca.Gen.hashIterSites` is the list of such iterations in /repo/src, re-extracted
on every run (translator/scan_sites.py). The reviewed list below has four kinds of entries:

* `ModuleTypes::new` iterates the parsed types to build the dedup map — modelled with the order as an explicit parameter
  (`Orca.Types.new`), theorem `c04_types_order_independent`;
* `resolve_special_instrumentation` iterates, three times, a map `InstrumentationMode ↦ bodies` whose keys `Before` and
  `After` write to *different* lists of the instruction — theorem `c04_resolve_order_independent`;
* `ModuleTypes::iter` (public accessor, not used by `encode`), `print_metadata` (prints to stdout, not part of the output);
* `encode_internal: types.iter` is a `Vec<TypeID>` of a recursion group (name clash of the scanner, kept so that the list
  is reviewed as a whole).
-/
namespace Orca.C04

/-- the iteration sites this proof has accounted for; a new one makes this fail until it is modelled -/
theorem c04_sites_reviewed :
    Orca.Gen.hashIterSites =
      [ "ir/module/mod.rs:encode_internal:types.iter",
        "ir/module/mod.rs:resolve_special_instrumentation:to_resolve.iter",
        "ir/module/mod.rs:resolve_special_instrumentation:to_resolve.iter",
        "ir/module/mod.rs:resolve_special_instrumentation:to_resolve.iter",
        "ir/module/module_types.rs:iter:types.values",
        "ir/module/module_types.rs:new:types.iter",
        "iterator/component_iterator.rs:print_metadata:metadata.keys" ] := by
  decide

/-- **types.** Whatever order the hash map of parsed types is iterated in, the dedup map answers every lookup alike;
    hence every later `add_*_type` returns the same id and the same bytes are encoded. -/
theorem c04_types_order_independent {τ : Type} [DecidableEq τ] (groups : List (List Nat × Bool)) (types : List τ)
    (o1 o2 : List Nat) (h : o1.Perm o2) (u : τ) :
    Orca.Types.lookup (Orca.Types.new groups types o1).map u = Orca.Types.lookup (Orca.Types.new groups types o2).map u :=
  Orca.Types.new_order_independent groups types o1 o2 h u

open Orca.Lower in
theorem modifyAt_cons_succ (a : Instr) (as : List Instr) (j : Nat) (g : Instr → Instr) :
    modifyAt (a :: as) (j + 1) g = a :: modifyAt as j g := by
  simp only [modifyAt, List.getElem?_cons_succ]
  cases as[j]? <;> simp

open Orca.Lower in
/-- **resolution maps.** Flushing the `Before` bodies and the `After` bodies of one `end` in either order emits the same
    code: they go to different lists of that instruction (only the remembered `mode`, which the encoder never reads,
    differs). -/
theorem c04_resolve_order_independent (last : Nat) (b : List Instr) (i : Nat) (x y : List Tok) (k : Nat) :
    emitFrom last k (addAfter (addBefore b i x) i y) = emitFrom last k (addBefore (addAfter b i y) i x) := by
  induction b generalizing i k with
  | nil => simp [addAfter, addBefore, modifyAt]
  | cons a as ih =>
    cases i with
    | zero => simp [addAfter, addBefore, modifyAt, emitFrom]
    | succ j =>
      have h1 : addAfter (addBefore (a :: as) (j + 1) x) (j + 1) y = a :: addAfter (addBefore as j x) j y := by
        simp only [addAfter, addBefore, modifyAt_cons_succ]
      have h2 : addBefore (addAfter (a :: as) (j + 1) y) (j + 1) x = a :: addBefore (addAfter as j y) j x := by
        simp only [addAfter, addBefore, modifyAt_cons_succ]
      rw [h1, h2]
      simp only [emitFrom, ih]

end Orca.C04

/-- **The tie to the source (regenerated on every run).** The same two functions seen from C04: were equality and hash to look at different things, whether `add_type` finds an equal entry would depend on the hash seed of the run, and two runs would emit different type sections. -/
theorem c04_type_key_code_reviewed :
    Orca.Gen.ApiOutline.types_hash = Orca.ApiOutlineSpec.types_hash
    ∧ Orca.Gen.ApiOutline.types_eq = Orca.ApiOutlineSpec.types_eq :=
  ⟨rfl, rfl⟩
