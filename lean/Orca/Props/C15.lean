import Orca.Gen.ApiOutline
import Orca.Model.ApiOutlineSpec
import Orca.Lemmas.Lower
/-!
# C15 — before/after/alternate injection is lowered exactly

Model: `Orca.Lower` (M3): flag bookkeeping of the injection API (`apply`), `resolve_special_instrumentation`
(`resolveSpecial`) and the code-section loop (`emit`). A C15 plan uses only the three plain modes, so no special
resolution is involved; the statement splits into "the API puts each injected operator at the end of exactly the
addressed list" and "emission is `before ++ (alternate | op) ++ after`, with only `before` at the final `end`".
-/
namespace Orca.Lower

/-- **Emission.** The encoded body is the concatenation, instruction by instruction, of its before-code, then its
    replacement (an empty one removes it) or the instruction itself, then its after-code; at the function's final
    `end` (index `len - 1`) only the before-code and the `end` itself are emitted. An instruction without lists
    contributes exactly itself. -/
theorem c15_emission (f : Func) :
    emit f = f.body.zipIdx.flatMap (fun p => emitOne (f.body.length - 1) p.2 p.1)
    ∧ (∀ (last idx : Nat) (i : Instr), emitOne last idx i =
        i.before ++ (match i.alt with
                     | some a => if idx ≥ last then [i.tok] else a
                     | none => [i.tok]) ++ (if idx ≥ last then [] else i.after)) :=
  ⟨emit_eq f, fun _ _ _ => rfl⟩

/-- a plan of plain modes needs no resolution: what is encoded is `emit` of the flags as the API left them -/
theorem c15_no_resolution (f : Func) (h : f.hasSpecial = false) : lower f = (emit f, f.added) := by
  simp [lower, resolveSpecial_of_not_special f h]

/-- **Bookkeeping.** Selecting before / after / alternate at an instruction and injecting an operator appends it to
    exactly that list of exactly that instruction (several injections per site accumulate in order), leaves every
    other instruction and the function-level lists alone, and does not mark the function for special resolution. -/
theorem c15_inject_appends (f : Func) (idx : Nat) (m : Mode) (t : Tok) (x : Instr) (hx : f.body[idx]? = some x)
    (hm : m = .before ∨ m = .after ∨ m = .alternate) :
    ∃ f2, applyAll f [.setMode idx m, .inject idx t] = some f2
      ∧ f2.hasSpecial = f.hasSpecial ∧ f2.entry = f.entry ∧ f2.exit = f.exit
      ∧ (∀ j, j ≠ idx → f2.body[j]? = f.body[j]?) ∧ f2.body.length = f.body.length
      ∧ f2.body[idx]? = some (grow m x t) :=
  inject_plain f idx m t x hx hm

/-- `add_instr_at(loc, op)` called directly on a function modifier addresses **that** location: the operator is appended to the list of
    the current mode of the instruction at `loc` — not of the location selected last, not of the function-level mode — and nothing
    else changes -/
theorem c15_add_instr_at_addresses_its_location (f f' : Func) (idx : Nat) (t : Tok) (h : apply f (.addInstrAt idx t) = some f') :
    ∃ x x' sp, f.body[idx]? = some x ∧ x.addInstr t = some (x', sp) ∧ f'.body = f.body.set idx x'
      ∧ f'.hasSpecial = (f.hasSpecial || sp) ∧ f'.fmode = f.fmode ∧ f'.entry = f.entry ∧ f'.exit = f.exit :=
  addInstrAt_spec f f' idx t h

/-- removal: `empty_alternate` makes the replacement the empty list -/
theorem c15_empty_alternate (f : Func) (idx : Nat) (x : Instr) (hx : f.body[idx]? = some x) :
    ∃ f', apply f (.emptyAlt idx) = some f' ∧ f'.body[idx]? = some { x with alt := some [] }
      ∧ (∀ j, j ≠ idx → f'.body[j]? = f.body[j]?) ∧ f'.hasSpecial = f.hasSpecial := by
  have h := modifyAt_get f.body idx (fun i => { i with alt := some [] }) x hx
  refine ⟨{ f with body := modifyAt f.body idx (fun i => { i with alt := some [] }) }, by simp [apply, hx], h.1, h.2.1, rfl⟩

/-- non-vacuity: before + after on `nop`, removal of `drop`, an alternate on the final `end` is ignored -/
example :
    let f0 : Func := { body := [⟨"nop", .other, none, [], [], none, [], [], [], none⟩, ⟨"drop", .other, none, [], [], none, [], [], [], none⟩,
                               ⟨"end", .end_, none, [], [], none, [], [], [], none⟩] }
    ((applyAll f0 [.setMode 0 .before, .inject 0 "a", .setMode 0 .after, .inject 0 "b", .inject 0 "c", .emptyAlt 1,
                   .setMode 2 .alternate, .inject 2 "x", .setMode 2 .before, .inject 2 "y"]).map (fun f => (lower f).1))
      = some ["a", "nop", "b", "c", "y", "end"] := by decide

end Orca.Lower

/-- **The tie to the source (regenerated on every run).** The per-instruction injection lists (`InstrumentationFlag::add_instr`, `has_instr`, `clear_instr`, `Instruction::add_instr`, src/ir/types.rs) that M3 `inject` / `clearInstr` / `hasInstr` transcribe, word for word (white space normalised). Any change of their text breaks this obligation. -/
theorem c15_injection_lists_code_reviewed :
    Orca.Gen.ApiOutline.flag_add_instr = Orca.ApiOutlineSpec.flag_add_instr
    ∧ Orca.Gen.ApiOutline.flag_has_instr = Orca.ApiOutlineSpec.flag_has_instr
    ∧ Orca.Gen.ApiOutline.flag_clear_instr = Orca.ApiOutlineSpec.flag_clear_instr
    ∧ Orca.Gen.ApiOutline.instruction_add_instr = Orca.ApiOutlineSpec.instruction_add_instr :=
  ⟨rfl, rfl, rfl, rfl⟩

/-- **The tie to the source (regenerated on every run).** The location-addressed injection API of the function modifier and of the module iterator (`inject`, `inject_at`, `set_instrument_mode_at`, `clear_instr_at`, `add_instr_at`, `empty_alternate_at`), word for word: which instruction of which function an injection goes to is the whole content of these functions. -/
theorem c15_location_api_code_reviewed :
    Orca.Gen.ApiOutline.modifier_inject = Orca.ApiOutlineSpec.modifier_inject
    ∧ Orca.Gen.ApiOutline.modifier_inject_at = Orca.ApiOutlineSpec.modifier_inject_at
    ∧ Orca.Gen.ApiOutline.modifier_set_instrument_mode_at = Orca.ApiOutlineSpec.modifier_set_instrument_mode_at
    ∧ Orca.Gen.ApiOutline.modifier_clear_instr_at = Orca.ApiOutlineSpec.modifier_clear_instr_at
    ∧ Orca.Gen.ApiOutline.modifier_add_instr_at = Orca.ApiOutlineSpec.modifier_add_instr_at
    ∧ Orca.Gen.ApiOutline.modifier_empty_alternate_at = Orca.ApiOutlineSpec.modifier_empty_alternate_at
    ∧ Orca.Gen.ApiOutline.moditer_inject = Orca.ApiOutlineSpec.moditer_inject
    ∧ Orca.Gen.ApiOutline.moditer_inject_at = Orca.ApiOutlineSpec.moditer_inject_at
    ∧ Orca.Gen.ApiOutline.moditer_set_instrument_mode_at = Orca.ApiOutlineSpec.moditer_set_instrument_mode_at
    ∧ Orca.Gen.ApiOutline.moditer_clear_instr_at = Orca.ApiOutlineSpec.moditer_clear_instr_at
    ∧ Orca.Gen.ApiOutline.moditer_add_instr_at = Orca.ApiOutlineSpec.moditer_add_instr_at
    ∧ Orca.Gen.ApiOutline.moditer_empty_alternate_at = Orca.ApiOutlineSpec.moditer_empty_alternate_at
    ∧ Orca.Gen.ApiOutline.localfn_clear_instr_at = Orca.ApiOutlineSpec.localfn_clear_instr_at
    ∧ Orca.Gen.ApiOutline.body_clear_instr = Orca.ApiOutlineSpec.body_clear_instr :=
  ⟨rfl, rfl, rfl, rfl, rfl, rfl, rfl, rfl, rfl, rfl, rfl, rfl, rfl, rfl⟩
