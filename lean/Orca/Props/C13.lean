import Orca.Lemmas.Types
import Orca.Gen.ApiOutline
import Orca.Model.ApiOutlineSpec
/-!
# C13 — added types are exact and deduplicated

Model M5 (`Orca.Types`): `types`, the dedup map, the recursion groups, `ModuleTypes::new`, `add_type` (all six
`add_*_type` entry points build a `Types` value and call it) and the emission of the type section by groups.
`τ` is the content of a type with the tag left out (the key equality of `types_map`).
-/
namespace Orca.Types
variable {τ : Type} [DecidableEq τ]

/-- **exact, deduplicated, frame** for one call, from any well-formed state -/
theorem c13_add_type (s : TState τ) (t : τ) (h : WF s) :
    let r := addType s t
    -- the encoded section holds exactly the requested type at the returned index
    (encoded r.1)[r.2]? = some (some t)
    -- adding the identical type again returns the same index and changes nothing
    ∧ addType r.1 t = (r.1, r.2)
    -- no existing type changes its index or content; the section only grows at its end
    ∧ (∃ ext, encoded r.1 = encoded s ++ ext)
    ∧ WF r.1 := by
  have hs := addType_spec s t h
  simp only at hs ⊢
  obtain ⟨hat, hwf, _, ⟨ext, hext, _⟩, hidem⟩ := hs
  refine ⟨?_, hidem, ⟨ext, hext⟩, hwf⟩
  rw [encoded_eq _ hwf, List.getElem?_map, hat]; rfl

/-- … and for any sequence of calls: every returned index still holds its requested type at the end -/
theorem c13_add_all (ts : List τ) : ∀ (s : TState τ), WF s →
    let r := addAll s ts
    WF r.1 ∧ r.2.length = ts.length
    ∧ (∀ k (hk : k < ts.length) (hk2 : k < r.2.length), (encoded r.1)[r.2[k]]? = some (some ts[k]))
    ∧ (∃ ext, encoded r.1 = encoded s ++ ext) := by
  induction ts with
  | nil => intro s h; exact ⟨h, rfl, fun k hk => absurd hk (by simp), ⟨[], by simp [addAll]⟩⟩
  | cons t ts ih =>
    intro s h
    have h1 := c13_add_type s t h
    simp only at h1
    obtain ⟨hat, _, ⟨ext1, hext1⟩, hwf1⟩ := h1
    have h2 := ih (addType s t).1 hwf1
    simp only at h2
    obtain ⟨hwf2, hlen, hall, ⟨ext2, hext2⟩⟩ := h2
    simp only [addAll]
    refine ⟨hwf2, by simp [hlen], ?_, ⟨ext1 ++ ext2, by rw [hext2, hext1, List.append_assoc]⟩⟩
    intro k hk hk2
    cases k with
    | zero =>
      simp only [List.getElem_cons_zero]
      rw [hext2]
      have hlt : (addType s t).2 < (encoded (addType s t).1).length := by
        rcases Nat.lt_or_ge (addType s t).2 (encoded (addType s t).1).length with hh | hh
        · exact hh
        · rw [List.getElem?_eq_none hh] at hat; simp at hat
      rw [List.getElem?_append_left hlt]; exact hat
    | succ k =>
      simp only [List.getElem_cons_succ]
      exact hall k (by simpa using hk) (by simpa using hk2)

/-- the state produced by parsing is well-formed whatever the hash iteration order, provided the parsed groups list the
    type ids in order (which `parse` does: ids are assigned while the groups are read) -/
theorem c13_parsed_wf (groups : List (List Nat × Bool)) (types : List τ) (order : List Nat)
    (hall : ∀ i, i < types.length → i ∈ order) (hgroups : groups.flatMap (·.1) = List.range types.length) :
    WF (new groups types order) :=
  new_wf groups types order hall hgroups

/-! non-vacuity (decided): a module with the same type twice inside an explicit group and once outside; adding that type
    returns the smallest id, adding a new one appends it -/
example :
    let s : TState Nat := new [([0, 1], true), ([2], false)] [7, 7, 7] [2, 0, 1]
    (addAll s [7, 9, 9, 7]).2 = [0, 3, 3, 0] ∧ encoded (addAll s [7, 9, 9, 7]).1 = [some 7, some 7, some 7, some 9] := by decide

end Orca.Types

/-- **The tie to the source (regenerated on every run).** The control-and-call skeletons of the functions this property rests on:
    `add_type` and `add_func_type` are what M5's interning was transcribed from. A step moved, an early exit, guard, call or assignment added or removed breaks this obligation; renaming, comments and
    formatting do not. -/
theorem c13_interning_code_reviewed :
    Orca.Gen.ApiOutline.add_type = Orca.ApiOutlineSpec.add_type
    ∧ Orca.Gen.ApiOutline.add_func_type = Orca.ApiOutlineSpec.add_func_type :=
  ⟨rfl, rfl⟩

/-- **The tie to the source (regenerated on every run).** `impl Hash for Types` and `impl PartialEq for Types` (src/ir/module/module_types.rs), word for word: the key of the interning map M5 transcribes. Deduplication is exact only if equality looks at every component of a type and at nothing else. -/
theorem c13_type_key_code_reviewed :
    Orca.Gen.ApiOutline.types_hash = Orca.ApiOutlineSpec.types_hash
    ∧ Orca.Gen.ApiOutline.types_eq = Orca.ApiOutlineSpec.types_eq :=
  ⟨rfl, rfl⟩
