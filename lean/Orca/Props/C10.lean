import Orca.Lemmas.Ops
/-!
# C10 — replacing an import with a built function redirects all its uses
The id of the function stays what it was; what it designates changes. Together with C06 (`c06_encode_refs`: every
stored id is rewritten to the index of the entity at that position) every former use executes the new body.
-/
namespace Orca.Edit
open Orca.Reindex

/-- after `replace_import_in_module(ImportsID p)`: the id of the function that carried import `p` designates the new
    local function; that import entry — and no other — is marked deleted; every other function keeps its id and
    identity; the new body is registered under the new entity -/
theorem c10_replace_import_redirects (s : St) (impId uid : Nat) (sites : List Ref) (e : ImpEntry) (fid : Nat) (x : Item)
    (he : s.imports[impId]? = some e) (hk : e.sp = some Sp.F)
    (hfind : s.f.items.findIdx? (fun (it : Item) => !it.del && it.imp && it.impId == impId) = some fid)
    (hx : s.f.items[fid]? = some x) (himp : x.imp = true) (hxi : x.impId = impId) :
    let r := replaceImport s impId uid sites
    r.2 = Ret.unit
    ∧ r.1.f.items[fid]? = some { id := fid, imp := false, del := false, uid := uid, impId := 0 }
    ∧ (∀ j, j ≠ fid → r.1.f.items[j]? = s.f.items[j]?)
    ∧ r.1.imports = s.imports.set impId { e with del := true }
    ∧ r.1.code = s.code ++ [(uid, sites)] :=
  replaceImport_spec s impId uid sites e fid x he hk hfind hx himp hxi

/-- regression for F11: a global import in front of the function import (ImportsID 1 is FunctionID 0) -/
example :
    let s0 : St := { f := { items := [⟨0, true, false, 5, 1⟩, ⟨1, false, false, 6, 0⟩], numImp := 1 },
                     imports := [⟨some Sp.G, false, 4⟩, ⟨some Sp.F, false, 5⟩] }
    ((replaceImport s0 1 9 []).1.f.items.map (fun i => (i.uid, i.imp))) = [(9, false), (6, false)] := by decide

end Orca.Edit
