import Orca.Lemmas.Ops
import Orca.Gen.ApiOutline
import Orca.Model.ApiOutlineSpec
import Orca.Lemmas.Redirect
/-!
# C10 — replacing an import with a built function redirects all its uses
The id of the function stays what it was; what it designates changes. Together with C06 (`c06_encode_refs`: every
stored id is rewritten to the index of the entity at that position) every former use executes the new body.
-/
namespace Orca.Edit
open Orca.Reindex

/-- after `replace_import_in_module(ImportsID p)`: the id of the function that carried import `p` designates the new
    local function; that import entry — and no other — is marked deleted; every other function keeps its id and
    identity; the new body is registered under the new entity -/
theorem c10_replace_import_redirects (s : St) (impId uid : Nat) (sites : List Ref) (e : ImpEntry) (fid : Nat) (x : Item)
    (he : s.imports[impId]? = some e) (hk : e.sp = some Sp.F)
    (hfind : s.f.items.findIdx? (fun (it : Item) => !it.del && it.imp && it.impId == impId) = some fid)
    (hx : s.f.items[fid]? = some x) (himp : x.imp = true) (hxi : x.impId = impId) :
    let r := replaceImport s impId uid sites
    r.2 = Ret.unit
    ∧ r.1.f.items[fid]? = some { id := fid, imp := false, del := false, uid := uid, impId := 0 }
    ∧ (∀ j, j ≠ fid → r.1.f.items[j]? = s.f.items[j]?)
    ∧ r.1.imports = s.imports.set impId { e with del := true }
    ∧ r.1.code = s.code ++ [(uid, sites)] :=
  replaceImport_spec s impId uid sites e fid x he hk hfind hx himp hxi

/-- regression for F11: a global import in front of the function import (ImportsID 1 is FunctionID 0) -/
example :
    let s0 : St := { f := { items := [⟨0, true, false, 5, 1⟩, ⟨1, false, false, 6, 0⟩], numImp := 1 },
                     imports := [⟨some Sp.G, false, 4⟩, ⟨some Sp.F, false, 5⟩] }
    ((replaceImport s0 1 9 []).1.f.items.map (fun i => (i.uid, i.imp))) = [(9, false), (6, false)] := by decide

/-- **End to end, for every earlier and later history.** Take any state reached from a parsed module (`StInv`), replace the
    function import `impId` by a built function `uid`, continue with any history that neither deletes nor converts that function
    (and does not encode), then encode. Either the encoder fails loudly because some stored reference designates a deleted
    entity, or: every emitted reference — call, `ref.func`, export, element entry, start — whose stored id was the id of the
    replaced import designates the new function `uid` in the encoded module, and every reference at all designates the live
    entity its id designated. -/
theorem c10_uses_execute_new_body (s0 : St) (h0 : StInv s0) (impId uid : Nat) (sites : List Ref) (e : ImpEntry) (fid : Nat) (x : Item)
    (he : s0.imports[impId]? = some e) (hk : e.sp = some Sp.F)
    (hfind : s0.f.items.findIdx? (fun (it : Item) => !it.del && it.imp && it.impId == impId) = some fid)
    (hx : s0.f.items[fid]? = some x) (himp : x.imp = true) (hxi : x.impId = impId)
    (ops : List Op) (hs : ∀ op ∈ ops, op ≠ .encode ∧ op ≠ .deleteFunc fid ∧ ∀ u, op ≠ .localToImport fid u) :
    let s := (run (replaceImport s0 impId uid sites).1 ops).1
    (∃ s' F G M res st, encode s = (s', Ret.encoded F G M res st)
        ∧ (∀ r' ∈ res ++ st.toList, ∃ r ∈ allRefs s, r'.site = r.site ∧ r'.sp = r.sp
            ∧ (∃ u, PointsTo s r u ∧ designated F G M r' = some u)
            ∧ (r.sp = .F → r.idx = fid → designated F G M r' = some uid)))
    ∨ (∃ s' why, encode s = (s', Ret.panic why) ∧ ∃ r ∈ allRefs s, Dangling s r) := by
  have hspec := replaceImport_spec s0 impId uid sites e fid x he hk hfind hx himp hxi
  have h1 : StInv (replaceImport s0 impId uid sites).1 :=
    stInv_step s0 (.replaceImport impId uid sites) (by intro h; cases h) h0
  refine encode_redirects _ h1 fid { id := fid, imp := false, del := false, uid := uid, impId := 0 } hspec.2.1 ops ?_
  intro op ho
  obtain ⟨a, b, c⟩ := hs op ho
  cases op with
  | deleteFunc i => exact fun h => b (by subst h; rfl)
  | localToImport i u => exact .inl (fun h => c u (by subst h; rfl))
  | replaceImport k u c' => exact .inl rfl
  | encode => exact absurd rfl a
  | _ => exact True.intro

/-- **Every other function keeps its identity through the replacement and whatever follows**: a function entry `y` at another
    position `j` (a local function, or one carrying another import) that the later history does not address is still what every
    reference with id `j` designates in the encoded module. -/
theorem c10_other_functions_keep_identity (s0 : St) (h0 : StInv s0) (impId uid : Nat) (sites : List Ref) (j : Nat) (y : Item)
    (hy : s0.f.items[j]? = some y) (hother : y.imp = false ∨ y.impId ≠ impId)
    (ops : List Op) (hs : SparedBy j y ops) :
    let s := (run s0 (.replaceImport impId uid sites :: ops)).1
    (∃ s' F G M res st, encode s = (s', Ret.encoded F G M res st)
        ∧ (∀ r' ∈ res ++ st.toList, ∃ r ∈ allRefs s, r'.site = r.site ∧ r'.sp = r.sp
            ∧ (∃ u, PointsTo s r u ∧ designated F G M r' = some u)
            ∧ (r.sp = .F → r.idx = j → designated F G M r' = some y.uid)))
    ∨ (∃ s' why, encode s = (s', Ret.panic why) ∧ ∃ r ∈ allRefs s, Dangling s r) := by
  refine encode_redirects s0 h0 j y hy _ ?_
  intro op ho
  rcases List.mem_cons.mp ho with rfl | ho
  · exact hother
  · exact hs op ho

/-- non-vacuity of the end-to-end statement: import 1 (function id 0) is replaced, a function is added and code is injected
    into another function afterwards; the export and the call site that named id 0 both designate the new body 9 -/
example :
    let s0 : St := { f := { items := [⟨0, true, false, 5, 1⟩, ⟨1, false, false, 6, 0⟩], numImp := 1 },
                     imports := [⟨some Sp.G, false, 4⟩, ⟨some Sp.F, false, 5⟩],
                     code := [(6, [⟨200, Sp.F, 0⟩])], exports := [(⟨100, Sp.F, 0⟩, false)] }
    let s := (run (replaceImport s0 1 9 []).1 [.addImportFunc 7, .inject 1 [⟨201, Sp.F, 2⟩]]).1
    (match (encode s).2 with
     | Ret.encoded F _ _ res _ => res.map (fun r => (r.site, F[r.idx]?))
     | _ => []) = [(100, some 9), (200, some 9), (201, some 7)] := by decide

end Orca.Edit

/-- **The tie to the source (regenerated on every run).** The control-and-call skeletons of the functions this property rests on:
    `replace_import_in_module_with_tag` and `convert_import_fn_to_local` — which import entry is marked, which type the new function takes, what it is named — are what M2's replacement was transcribed from. A step moved, an early exit, guard, call or assignment added or removed breaks this obligation; renaming, comments and
    formatting do not. -/
theorem c10_replacement_code_reviewed :
    Orca.Gen.ApiOutline.convert_import_fn_to_local = Orca.ApiOutlineSpec.convert_import_fn_to_local
    ∧ Orca.Gen.ApiOutline.replace_import_in_module_with_tag = Orca.ApiOutlineSpec.replace_import_in_module_with_tag :=
  ⟨rfl, rfl⟩
