import Orca.Lemmas.Locals
import Orca.Gen.ApiOutline
import Orca.Model.ApiOutlineSpec
/-!
# C14 — added locals get fresh indices of the requested type

Model: `Orca.Locals` (M6), the function `add_local` every local-adding API ends in
(`FunctionBuilder::add_local`, `FunctionModifier::add_local(s)`, `ModuleIterator::add_local`,
`ComponentIterator::add_local`, `LocalFunction::add_local`, and the branch-flag locals of the
special-mode lowering). The encoded function declares `decls` verbatim; a decoder sees
`params ++ expand decls`.
-/
namespace Orca.Locals

/-- one addition: the returned index is `#params + #previously declared locals`, the function
    now declares exactly one more local, of the requested type, at that index, and every
    existing local keeps its index and type. -/
theorem c14_add_local (nparams : Nat) (decls : Decls) (ty : Nat) :
    let s := parsed nparams decls
    let r := addLocal s ty
    r.2 = nparams + (expand decls).length
    ∧ expand r.1.decls = expand decls ++ [ty]
    ∧ (expand r.1.decls)[r.2 - nparams]? = some ty
    ∧ (∀ i, i < (expand decls).length → (expand r.1.decls)[i]? = (expand decls)[i]?) := by
  intro s r
  have hi : r.2 = nparams + (expand decls).length := addLocal_index s ty (parsed_inv _ _)
  have he : expand r.1.decls = expand decls ++ [ty] := addLocal_expand s ty
  refine ⟨hi, he, ?_, ?_⟩
  · rw [he, hi]; simp
  · intro i hlt; rw [he, List.getElem?_append_left hlt]

/-- any history of additions on a parsed (or freshly built) function: the ids returned are
    consecutive fresh indices, the declared locals are the old ones followed by the requested
    types in order. -/
theorem c14_add_locals (nparams : Nat) (decls : Decls) (tys : List Nat) :
    let r := addLocals (parsed nparams decls) tys
    expand r.1.decls = expand decls ++ tys
    ∧ r.2 = (List.range tys.length).map (fun k => nparams + (expand decls).length + k)
    ∧ r.1.nparams = nparams := by
  intro r
  obtain ⟨e, i, _, n⟩ := addLocals_spec tys (parsed nparams decls) (parsed_inv _ _)
  exact ⟨e, i, n⟩

/-- the type declared at each returned id is the requested one -/
theorem c14_types_at_ids (nparams : Nat) (decls : Decls) (tys : List Nat) (k : Nat) (hk : k < tys.length) :
    let r := addLocals (parsed nparams decls) tys
    ∃ id, r.2[k]? = some id ∧ (expand r.1.decls)[id - nparams]? = tys[k]? := by
  intro r
  obtain ⟨e, i, _⟩ := c14_add_locals nparams decls tys
  refine ⟨nparams + (expand decls).length + k, ?_, ?_⟩
  · show (addLocals (parsed nparams decls) tys).2[k]? = _
    rw [i]; simp [hk]
  · show (expand (addLocals (parsed nparams decls) tys).1.decls)[_]? = _
    rw [e]
    have : nparams + (expand decls).length + k - nparams = (expand decls).length + k := by omega
    rw [this, List.getElem?_append_right (by omega)]
    simp

/-- non-vacuity: a concrete function with 2 params, locals `(2×t7) (1×t3)`; adding `t3, t3, t9`
    returns 5, 6, 7 and regroups the run lengths. -/
example : (addLocals (parsed 2 [(2, 7), (1, 3)]) [3, 3, 9]).2 = [5, 6, 7]
    ∧ (addLocals (parsed 2 [(2, 7), (1, 3)]) [3, 3, 9]).1.decls = [(2, 7), (3, 3), (1, 9)] := by decide

end Orca.Locals

/-- **The tie to the source (regenerated on every run).** The control-and-call skeletons of the functions this property rests on:
    `add_local` / `add_locals` (module_functions.rs) are what M6 was transcribed from; `add_local` is also taken word for word (its whole content is index arithmetic and one comparison). A step moved, an early exit, guard, call or assignment added or removed breaks this obligation; renaming, comments and
    formatting do not. -/
theorem c14_add_local_code_reviewed :
    Orca.Gen.ApiOutline.add_local = Orca.ApiOutlineSpec.add_local
    ∧ Orca.Gen.ApiOutline.add_locals = Orca.ApiOutlineSpec.add_locals
    ∧ Orca.Gen.ApiOutline.add_local_text = Orca.ApiOutlineSpec.add_local_text :=
  ⟨rfl, rfl, rfl⟩

/-- where the number of arguments of a function comes from when it is created (`LocalFunction::new(.., num_args, ..)`): the number of
    *parameters* of the builder, for a function added to the module and for one that takes the place of an import alike. The returned
    index of `add_local` is `num_args + num_locals` (M6 `addLocal`), so these two call sites are part of what C14 rests on. -/
theorem c14_argument_count_of_built_functions :
    "LocalFunction::new(ty,FunctionID(0),body,params.len(),Some(tag))" ∈ Orca.Gen.ApiOutline.add_local_func_with_tag
    ∧ "LocalFunction::new(TypeID(imp_ty_id),FunctionID(*import_id),self.body.clone(),self.params.len(),Some(tag))"
        ∈ Orca.Gen.ApiOutline.replace_import_in_module_with_tag := by
  decide
