import Orca.Gen.ConstExpr
import Orca.Gen.ApiOutline
import Orca.Model.ApiOutlineSpec
import Orca.Lemmas.Helpers
import Orca.Lemmas.Ops
import Orca.Lemmas.Redirect
/-!
# C30 — module-level additions appear exactly as requested

* constants: `Orca.Gen.ConstExpr` is regenerated from `InitExpr::to_wasmencoder_type` / `InitExpr::eval` on every run;
  every `InitInstr` variant is encoded as the instruction it denotes (committed dictionary `specInstr`) and every payload
  conversion preserves the bit pattern (`f32` / `f64` through `to_bits`, `v128` through `u128 as i128` and little-endian
  bytes);
* ids: the id reported by `add_global`, `add_imported_global`, `add_local_memory`, `add_import_memory`, `add_data` is
  the position the item is stored at (M2), which `encode` maps to the item's index (C07 / C08);
* `mod_global_init_expr` replaces the initialiser of exactly that global.
What the model carries through unchanged (types, limits, data bytes, export names) is compared per case by the `adds`
family on the decoded output.
-/
namespace Orca.C30
open Orca.Gen Orca.Helpers

/-- the WebAssembly constant instruction each `InitInstr` variant denotes (reviewed by hand) -/
def specInstr : InitK → String
  | .Value_I32 => "I32Const" | .Value_I64 => "I64Const" | .Value_F32 => "F32Const" | .Value_F64 => "F64Const"
  | .Value_V128 => "V128Const" | .Global => "GlobalGet" | .RefNull => "RefNull" | .RefFunc => "RefFunc"
  | .StructNew => "StructNew" | .ArrayNew => "ArrayNew" | .StructNewDefault => "StructNewDefault"
  | .ArrayNewDefault => "ArrayNewDefault" | .RefArrayFixed => "ArrayNewFixed" | .RefArrayData => "ArrayNewData"
  | .RefArrayElem => "ArrayNewElem" | .RefI31 => "RefI31"

/-- the payload conversion each constant may go through when encoded -/
def specConv : InitK → CConv
  | .Value_F32 => .ieee32 | .Value_F64 => .ieee64 | .Value_V128 => .asI128 | _ => .same

/-- **instruction and conversion** of every variant are the specified ones -/
theorem c30_constexpr_table : ∀ k : InitK, encTable k = (specInstr k, specConv k) := by
  intro k; cases k <;> rfl

/-- little-endian bytes ↔ number -/
def ofLe : List Nat → Nat
  | [] => 0
  | b :: bs => b + 256 * ofLe bs
def toLe : Nat → Nat → List Nat
  | 0, _ => []
  | k + 1, n => n % 256 :: toLe k (n / 256)

theorem toLe_ofLe (bs : List Nat) (h : ∀ b ∈ bs, b < 256) : toLe bs.length (ofLe bs) = bs := by
  induction bs with
  | nil => rfl
  | cons b bs ih =>
    have hb : b < 256 := h b (by simp)
    have ih' := ih (fun x hx => h x (by simp [hx]))
    simp only [List.length_cons, toLe, ofLe]
    have h1 : (b + 256 * ofLe bs) % 256 = b := by omega
    have h2 : (b + 256 * ofLe bs) / 256 = ofLe bs := by omega
    rw [h1, h2, ih']

theorem ofLe_lt (bs : List Nat) (h : ∀ b ∈ bs, b < 256) : ofLe bs < 256 ^ bs.length := by
  induction bs with
  | nil => simp [ofLe]
  | cons b bs ih =>
    have hb : b < 256 := h b (by simp)
    have ih' := ih (fun x hx => h x (by simp [hx]))
    simp only [ofLe, List.length_cons, Nat.pow_succ]
    omega

/-- **v128.** The sixteen bytes of a `v128` constant read little-endian into a `u128` (`v128_to_u128`), reinterpreted
    `as i128` (`to_wasmencoder_type`) and written back little-endian (wasm-encoder) are the sixteen bytes -/
theorem c30_v128_exact (bs : List Nat) (hl : bs.length = 16) (h : ∀ b ∈ bs, b < 256) :
    toLe 16 (bitsOf 128 (toSigned 128 (ofLe bs))) = bs := by
  have hlt : ofLe bs < 2 ^ 128 := by
    have := ofLe_lt bs h
    rw [hl] at this
    have e : (256 : Nat) ^ 16 = 2 ^ 128 := by decide
    omega
  rw [bitsOf_toSigned 128 _ (by decide) hlt, ← hl]
  exact toLe_ofLe bs h

/-- **floats.** The conversions used for `f32` / `f64` constants are plain moves of the bit pattern (`f32::to_bits`,
    checked in the wasm-encoder source by the translator); in the model a float *is* its pattern, NaN payloads included -/
theorem c30_float_bits (n : Nat) : fieldBits .ieee32 .f32 (fieldVal .ieee32 .f32 n) = n ∧ fieldBits .ieee64 .f64 (fieldVal .ieee64 .f64 n) = n := by
  simp [fieldBits, fieldVal, signedField]

open Orca.Edit in
/-- **ids.** What the additions report is the position at which the item is stored -/
theorem c30_reported_ids (s : St) (uid : Nat) (sites : List Ref) (mem : Ref) :
    (addGlobal s uid sites).2 = Ret.id s.g.items.length
    ∧ (addImportedGlobal s uid).2 = Ret.id2 s.g.items.length s.imports.length
    ∧ (addLocalMem s uid).2 = Ret.id s.m.items.length
    ∧ (addImportMem s uid).2 = Ret.id2 s.m.items.length s.imports.length
    ∧ (step s (.addData mem sites)).2 = Ret.id s.numData := by
  refine ⟨rfl, ?_, rfl, ?_, rfl⟩
  · simp [addImportedGlobal, addImport, St.space, St.setSpace]
  · simp [addImportMem, addImport, St.space, St.setSpace]

open Orca.Edit in
theorem find_map_keypres (f : Nat × List Ref → Nat × List Ref) (hf : ∀ p, (f p).1 = p.1) (u : Nat) :
    ∀ l : List (Nat × List Ref), (l.map f).find? (fun p => p.1 == u) = (l.find? (fun p => p.1 == u)).map f
  | [] => rfl
  | a :: as => by
    have ih := find_map_keypres f hf u as
    by_cases hau : a.1 = u
    · have : (f a).1 = u := by rw [hf]; exact hau
      simp only [List.map_cons, List.find?_cons, this, hau, beq_self_eq_true, Option.map_some]
    · have h1 : ((f a).1 == u) = false := by rw [hf]; simpa using hau
      have h2 : (a.1 == u) = false := by simpa using hau
      simp only [List.map_cons, List.find?_cons, h1, h2]
      exact ih

open Orca.Edit in
theorem lookup_setAssoc (l : List (Nat × List Ref)) (k u : Nat) (v : List Ref) :
    lookup (setAssoc l k v) u = if u = k then v else lookup l u := by
  unfold setAssoc
  by_cases hany : l.any (fun p => p.1 == k) = true
  · simp only [hany, if_true]
    unfold lookup
    have hf : ∀ p : Nat × List Ref, (if (p.1 == k) = true then (k, v) else p).1 = p.1 := by
      intro p; by_cases h : p.1 = k <;> simp [h]
    rw [find_map_keypres (fun p => if (p.1 == k) = true then (k, v) else p) hf u l]
    by_cases huk : u = k
    · subst huk
      obtain ⟨x, hx, hxk⟩ := List.any_eq_true.mp hany
      cases hfnd : l.find? (fun p => p.1 == u) with
      | none =>
        rw [List.find?_eq_none] at hfnd
        exact absurd hxk (hfnd x hx)
      | some q =>
        have hq : q.1 = u := by simpa using List.find?_some hfnd
        simp [hq]
    · cases hfnd : l.find? (fun p => p.1 == u) with
      | none => simp [huk]
      | some q =>
        have hq : q.1 = u := by simpa using List.find?_some hfnd
        have : ¬ q.1 = k := by rw [hq]; exact huk
        simp [huk, this]
  · have hany' : l.any (fun p => p.1 == k) = false := by
      cases h : l.any (fun p => p.1 == k) with
      | true => exact absurd h hany
      | false => rfl
    simp only [hany', Bool.false_eq_true, if_false]
    have hnone : l.find? (fun p => p.1 == k) = none := by
      rw [List.find?_eq_none]; intro x hx hk
      exact hany (List.any_eq_true.mpr ⟨x, hx, hk⟩)
    unfold lookup
    rw [List.find?_append]
    by_cases huk : u = k
    · subst huk; simp [hnone]
    · have hku : ¬ k = u := fun h => huk h.symm
      cases hf : l.find? (fun p => p.1 == u) <;> simp [hku, huk]

open Orca.Edit in
/-- **replacing an initialiser** touches the initialiser of that global only: index spaces, imports, exports, code,
    data, every other global's initialiser are as before -/
theorem c30_mod_init_only_that (s : St) (id : Nat) (sites : List Ref) (it : Orca.Reindex.Item)
    (hit : s.g.items[id]? = some it) (hloc : it.imp = false) :
    ∃ s', (modGlobalInit s id sites).1 = s' ∧
      s'.f = s.f ∧ s'.g = s.g ∧ s'.m = s.m ∧ s'.imports = s.imports ∧ s'.exports = s.exports ∧ s'.code = s.code
      ∧ s'.datas = s.datas ∧ s'.elems = s.elems ∧ s'.start = s.start
      ∧ lookup s'.ginit it.uid = sites
      ∧ (∀ u, u ≠ it.uid → lookup s'.ginit u = lookup s.ginit u) := by
  refine ⟨{ s with ginit := setAssoc s.ginit it.uid sites }, by simp [modGlobalInit, hit, hloc], rfl, rfl, rfl, rfl, rfl, rfl, rfl, rfl, rfl, ?_, ?_⟩
  · simp [lookup_setAssoc]
  · intro u hu; simp [lookup_setAssoc, hu]

open Orca.Edit in
/-- **the returned ids designate the added items — in the encoded module, after any later history.** Take any state reached from a
    parsed module, add a global or a memory (`add_global`, the iterators' `add_global`, `add_imported_global`, `add_local_memory`,
    `add_import_memory`), continue with any history that does not delete the added item (and does not encode), then encode.
    The addition reported the position `n`; either the encoder fails loudly because some stored reference designates a deleted
    entity, or every emitted reference of that index space whose stored id is `n` designates the added item `uid`, and every
    reference at all designates the live entity its id designated. -/
theorem c30_returned_ids_designate (s0 : St) (h0 : StInv s0) (op : Edit.Op) (sp : Sp) (uid : Nat) (hadd : addedBy op = some (sp, uid))
    (hsp : sp ≠ .F) (ops : List Edit.Op)
    (hs : ∀ o ∈ ops, o ≠ .encode ∧ o ≠ .deleteGlobal (s0.space sp).items.length ∧ o ≠ .deleteMem (s0.space sp).items.length) :
    let n := (s0.space sp).items.length
    let s := (run (step s0 op).1 ops).1
    reportedId (step s0 op).2 = some n
    ∧ ((∃ s' F G M res st, encode s = (s', Ret.encoded F G M res st)
        ∧ (∀ r' ∈ res ++ st.toList, ∃ r ∈ allRefs s, r'.site = r.site ∧ r'.sp = r.sp
            ∧ (∃ u, PointsTo s r u ∧ designated F G M r' = some u)
            ∧ (r.sp = sp → r.idx = n → designated F G M r' = some uid)))
      ∨ (∃ s' why, encode s = (s', Ret.panic why) ∧ ∃ r ∈ allRefs s, Dangling s r)) := by
  refine added_id_designates s0 h0 op sp uid hadd ops ?_
  intro x _ o ho
  obtain ⟨a, b, c⟩ := hs o ho
  cases sp with
  | F => exact absurd rfl hsp
  | G => exact ⟨fun id h e => b (by rw [h, e]), a⟩
  | M => exact ⟨fun id h e => c (by rw [h, e]), a⟩

open Orca.Edit in
/-- non-vacuity: a global is added behind a deleted one, an imported global is added afterwards (the vector is re-indexed at encode);
    the initialiser site that names the reported id 2 designates the added global 8 -/
example :
    let s0 : St := { g := { items := [⟨0, false, false, 5, 0⟩, ⟨1, false, false, 6, 0⟩] }, ginit := [(5, []), (6, [])] }
    let s1 := (run s0 [.deleteGlobal 0, .addGlobal 8 [], .addImportedGlobal 9, .addGlobal 10 [⟨300, Sp.G, 2⟩]]).1
    (match (encode s1).2 with
     | Ret.encoded _ G _ res _ => (G, res.map (fun r => (r.site, G[r.idx]?)))
     | _ => ([], [])) = ([9, 6, 8, 10], [(300, some 8)]) := by decide

/-! non-vacuity (decided): the all-ones vector and a vector with the sign bit set survive `as i128` -/
example : toLe 16 (bitsOf 128 (toSigned 128 (ofLe (List.replicate 16 255)))) = List.replicate 16 255 := by decide
example : toSigned 128 (ofLe (List.replicate 16 255)) = -1 := by decide

end Orca.C30

/-- **The tie to the source (regenerated on every run).** The control-and-call skeletons of the functions this property rests on:
    the module-level additions are what M2 / M13 were transcribed from. A step moved, an early exit, guard, call or assignment added or removed breaks this obligation; renaming, comments and
    formatting do not. -/
theorem c30_addition_code_reviewed :
    Orca.Gen.ApiOutline.add_global_with_tag = Orca.ApiOutlineSpec.add_global_with_tag
    ∧ Orca.Gen.ApiOutline.add_data = Orca.ApiOutlineSpec.add_data
    ∧ Orca.Gen.ApiOutline.add_local_memory_with_tag = Orca.ApiOutlineSpec.add_local_memory_with_tag
    ∧ Orca.Gen.ApiOutline.add_import_memory_with_tag = Orca.ApiOutlineSpec.add_import_memory_with_tag
    ∧ Orca.Gen.ApiOutline.add_import_func_with_tag = Orca.ApiOutlineSpec.add_import_func_with_tag :=
  ⟨rfl, rfl, rfl, rfl, rfl⟩
