import Orca.Lemmas.SideFx
import Orca.Gen.SideFxSites
import Orca.Model.SideFxSitesSpec
/-!
# C23 — the side-effect report lists exactly the tagged additions and probes

Model M12 (`Orca.SideFx`) over M2 (`Orca.Edit`): every vector `encode_internal` walks, with the tag each entry carries
(`none` for what the parser built), and `pull`, which emits a record wherever the encoder calls `add_injection`.

Proved, for **every** parsed module `b` and **every** history `ops` (any length, any interleaving of additions,
deletions and probes):

* nothing the parser built is ever reported (`c23_parsed_items_not_reported`): the report equals the report of the
  additions alone;
* each addition that is given a tag appends exactly one record with that tag and that content to the report of its kind
  and leaves the other kinds alone (`c23_addition_reported_once`), an addition without a tag appends none, a signature
  the module already has is not an addition;
* a deletion takes exactly the record of the deleted entry (and of its import entry) out (`c23_deletion_unreports`);
* probe lists are reported once each (`c23_one_record_per_probe_list`) and a probe changes no record of an addition;
* the body of every plain-mode probe record is a contiguous run of the code its function is encoded with, written
  through the same id maps (`c23_probe_body_is_emitted_code`) — the "same index space" clause.

PARTIAL on one point, stated: where the *special* modes (semantic_after, block_entry / exit / alt, function entry / exit)
are lowered to is M3's subject and is not repeated in M12, so the last theorem covers before / after / alternate lists
only; function entry / exit bodies and the loss of the tags of block-level lists (finding F25) are compared and judged
per case.
-/
namespace Orca.SideFx

/-- **no record for what was already in the parsed module.** After any history, the report is the report of the state
    with every parsed entry removed. -/
theorem c23_parsed_items_not_reported (m : Maps) (b : Base) (ops : List Op) :
    pullWith m (run (init b) ops) = pullWith m (additions b (run (init b) ops)) :=
  pullWith_additions m b _ (inv_run b ops _ (inv_init b))

/-- **one record per tagged addition, with its tag and content.** In any state: -/
theorem c23_addition_reported_once (m : Maps) (s : St) :
    (∀ k uid tag, importRecs (step s (.addImport k uid tag)) = importRecs s ++ [.import uid k tag]
        ∧ funcRecs (step s (.addImport k uid tag)) = funcRecs s
        ∧ globalRecs m (step s (.addImport k uid tag)) = globalRecs m s
        ∧ memRecs (step s (.addImport k uid tag)) = memRecs s)
    ∧ (∀ uid sig tag body, funcRecs (step s (.addFunc uid sig tag body))
        = funcRecs s ++ [.func uid s.funcs.length sig (body.flatMap rawTok) tag])
    ∧ (∀ uid tag get, globalRecs m (step s (.addGlobal uid tag get))
        = globalRecs m s ++ [.global uid s.globals.length (get.map (emitTok m)) tag])
    ∧ (∀ uid tag, memRecs (step s (.addMem uid tag)) = memRecs s ++ [.memory uid s.mems.length tag])
    ∧ (∀ site idx tag, exportRecs (step s (.addExport site idx tag))
        = exportRecs s ++ (tag.map (Rec.export s.exports.length idx)).toList)
    ∧ (∀ p bts tag, dataRecs (step s (.addData p bts tag)) = dataRecs s ++ (tag.map (Rec.data p bts)).toList)
    ∧ (∀ sig tag, typeRecs (step s (.addType sig tag))
        = typeRecs s ++ (if s.types.any (·.1 == sig) then [] else (tag.map (Rec.type sig)).toList)) :=
  ⟨fun k uid tag => ⟨importRecs_addImport s k uid tag, funcRecs_addImport s k uid tag, globalRecs_addImport m s k uid tag,
      memRecs_addImport s k uid tag⟩,
   funcRecs_addFunc s, globalRecs_addGlobal m s, memRecs_addMem s, exportRecs_addExport s, dataRecs_addData s,
   fun sig tag => typeRecs_addType s.types sig tag⟩

/-- **a deleted addition is no longer reported — and nothing else disappears.** -/
theorem c23_deletion_unreports (m : Maps) (s : St) :
    (∀ id (hi : id < s.funcs.length), funcRecs (step s (.delFunc id)) = (s.funcs.eraseIdx id).filterMap funcRec?
        ∧ (s.funcs[id].impPos < s.imports.length → importRecs (step s (.delFunc id))
            = if s.funcs[id].imp then (s.imports.eraseIdx s.funcs[id].impPos).filterMap importRec? else importRecs s))
    ∧ (∀ id, id < s.globals.length →
        globalRecs m (step s (.delGlobal id)) = (s.globals.eraseIdx id).filterMap (globalRec? m))
    ∧ (∀ pos, pos < s.exports.length → exportRecs (step s (.delExport pos)) = (s.exports.eraseIdx pos).filterMap exportRec?) :=
  ⟨fun id hi => ⟨funcRecs_delFunc s id hi, importRecs_delFunc s id hi⟩, globalRecs_delGlobal m s, exportRecs_delExport s⟩

/-- **one record per probe list.** After any history there is one list per (function, location, mode), and the probe part
    of the report is a permutation of one record per non-empty plain-mode or function-level list; a probe changes no
    record of an addition. -/
theorem c23_one_record_per_probe_list (m : Maps) (b : Base) (ops : List Op) :
    KeysUnique (run (init b) ops).probes
      ∧ (probeRecs m (run (init b) ops)).Perm (((run (init b) ops).probes.filter reported).map (probeRec m)) :=
  ⟨keysUnique_run ops _ (by simp [init, KeysUnique]), probeRecs_perm m _⟩

theorem c23_probe_changes_no_addition_record (m : Maps) (s : St) (fid : Nat) (key : PKey) (tag : Option Tag) (body : List RefTok) :
    let s' := step s (.probe fid key tag body)
    typeRecs s' = typeRecs s ∧ importRecs s' = importRecs s ∧ exportRecs s' = exportRecs s ∧ memRecs s' = memRecs s
      ∧ dataRecs s' = dataRecs s ∧ globalRecs m s' = globalRecs m s ∧ funcRecs s' = funcRecs s :=
  probe_frame m s fid key tag body

/-- **probe bodies are in the index space of the encoded module.** After any history, the body reported for a
    before / after / alternate list is a contiguous run of the code the function is encoded with (`emitFunc`: per
    instruction the `before` list, the alternate or the instruction, the `after` list, every reference written through
    the id maps `m` of this encode) — for every instruction list `code` of the function that has the location. -/
theorem c23_probe_body_is_emitted_code (m : Maps) (b : Base) (ops : List Op) (p : Probe)
    (hp : p ∈ (run (init b) ops).probes) (idx mode : Nat) (hk : p.key = .loc idx mode) (hm : mode ≤ 2)
    (code : List (List Tok)) (hi : idx < code.length) :
    probeRec m p = .locProbe (m.f p.fid) idx mode (emitBody m p.body) (p.tag.getD [])
      ∧ emitBody m p.body <:+: emitFunc m (run (init b) ops).probes p.fid code := by
  refine ⟨by simp [probeRec, hk], ?_⟩
  exact body_infix_emitFunc m (keysUnique_run ops _ (by simp [init, KeysUnique])) hp hk hm code hi

/-! non-vacuity (decided): a module with one imported and one local function, an imported global and an export; the history
    adds a tagged import (renumbering the local function 1 ↦ 2), a tagged global, an untagged export, deletes nothing, and
    injects a tagged `before` probe that calls the local function and a second one into the same list -/
def exBase : Base := { nif := 1, nlf := 1, nig := 1, nlg := 0, nim := 0, nlm := 0, types := [0], exports := [1], ndata := 0 }
def exOps : List Op :=
  [ .addImport .F 3 [0xa1], .addGlobal 4 [0xa2] (some (.gget 1 0)), .addExport 2 1 none,
    .probe 1 (.loc 2 0) (some [0xa3]) [.const 1, .call 3 1], .probe 1 (.loc 2 0) (some [0xa4]) [.const 2] ]

example : (pull (run (init exBase) exOps)).map (fun r => (r.imports, r.globals, r.exports, r.funcs, r.probes))
    = some ([.import 3 .F [0xa1]], [.global 4 1 (some [.gget 0, .drop]) [0xa2]], [], [],
            [.locProbe (some 2) 2 0 [.const 1, .drop, .call 2, .const 2, .drop] [0xa3, 0xa4]]) := by decide

end Orca.SideFx

namespace Orca.SideFxSitesSpec
open Orca.Gen.SideFxSites

/-- **The tie to the source (regenerated on every run).** Every call of `add_injection` in the crate: the function it stands in, the
    key it files under, the record variant and the fields it fills; and the (mode, list) pairs the two probe closures are called with.
    A new site, a removed one, another key, a dropped field or a swapped pair breaks this obligation. -/
theorem c23_record_sites_reviewed :
    Orca.Gen.SideFxSites.sites = Orca.SideFxSitesSpec.sites
    ∧ Orca.Gen.SideFxSites.probeCalls = Orca.SideFxSitesSpec.probeCalls :=
  ⟨rfl, rfl⟩

/-- what M12 assumes of those sites, decided on the regenerated list: every record is filed under the key of its own kind, and
    every record carries a tag -/
theorem c23_records_filed_under_their_kind :
    ∀ s ∈ Orca.Gen.SideFxSites.sites, keyOf s.record = some s.key ∧ "tag" ∈ s.fields := by
  decide

/-- every kind of addition the property lists has exactly one place where its record is written (data: one per segment kind), all of
    them inside `encode_internal`, i.e. while the item is being written into the output under its final index -/
theorem c23_one_site_per_kind :
    (Orca.Gen.SideFxSites.sites.filter (fun s => s.fn == "encode_internal")).map (·.record)
      = ["Type", "Import", "Func", "Table", "Memory", "Global", "Export", "Element", "PassiveData", "ActiveData"]
    ∧ (Orca.Gen.SideFxSites.sites.filter (fun s => s.fn != "encode_internal")).map (fun s => (s.fn, s.record))
      = [("add_injections", "FuncProbe"), ("add_injections", "FuncLocProbe")] := by
  decide

/-- the probe closures pair each mode with the list of the same name (`alt` is the unwrapped `alternate`) -/
theorem c23_probe_modes_paired :
    Orca.Gen.SideFxSites.probeCalls.map (fun c => (c.2.2.1, c.2.2.2))
      = [("Entry", "entry"), ("Exit", "exit"), ("Before", "before"), ("After", "after"), ("Alternate", "alt")] := by
  decide

end Orca.SideFxSitesSpec
