import Orca.Lemmas.SemBranch
import Orca.Lemmas.Bridge
import Orca.Gen.ResolverOutline
import Orca.Model.ResolverOutlineSpec
import Orca.Lemmas.SpecialFlat
import Orca.Lemmas.StackSpec
import Orca.Lemmas.StackFull
/-!
# C20 — semantic-after probes fire exactly once after the instruction

Monitor semantics. On a block, an `if` or an `else`: the `after` slot fires whenever control reaches the instruction
behind the construct — by falling through or by a branch to its label (`leaveBlock`). On a branch: the probe travels
with the branch outcome (`Out.br n pend`) and fires when the branch arrives at its target block (`leaveBlock … (.br 0
pend s)`) or at the function label (`finish`), exactly once per execution; a conditional branch that is not taken fires
it at once (`brIf`, `v = 0`). Branches to loop labels are outside the property (the monitor drops the probe there).

Lowering, as the code does it: block-level probes behind the construct's `end`; for a branch a fresh i32 flag local,
`flag := 1` in front of the branch, `flag := 0` behind it (+ the probes, for a conditional branch), and behind the `end`
of the target construct `local.get flag; if <probes> end` (chained with `else` for a second flag).

Status: the block / if / else half is proved in full (`c20_construct_after`). The branch half is proved on the scope where
the code's scheme is right (`c20_branch_partial`, `c20_function_partial`): annotations on `br` / `br_if`, no loop contains (or
is) the target of an annotated branch, no annotated branch targets the function label, flag locals pairwise distinct,
untouched by the program's own instructions and 0 on entry — for every program, nesting and execution in that scope. Outside
it the property is **false** of the code: the flag is never cleared after the check has fired (F14: a `br_table` with two
target blocks, or a target inside a loop) and a check for the function label is never emitted (F15); both are decided below on
concrete programs and are known findings of the crate (replayed by the `sem` family).
-/
namespace Orca.Sem

/-- the monitor's definition for constructs -/
theorem c20_monitor_construct (ann : Ann) (base : List Nat) (a : Nat) (s : St) (pd : Option SA) :
    leaveBlock true ann base a (.normal s) = .normal ((s.fire ann.exit).fire ann.after)
    ∧ leaveBlock true ann base a (.br 0 pd s) = .normal (((s.exitTo base a).fire (saPs pd)).fire ann.after) := by
  simp [leaveBlock]

/-- the monitor's definition for branches: the probe is attached to the branch outcome, or fired at once when a
    conditional branch falls through -/
theorem c20_monitor_branch (fns : List Callee) (fx b a : List Nat) (sa : Option SA) (n : Nat) (s : St) (v : Nat) (st : List Nat)
    (f : Nat) (hs : s.stack = v :: st) :
    runOne fns true fx (f + 1) (.br b a sa n) s = .br n sa (s.fire b)
    ∧ runOne fns true fx (f + 1) (.brIf b a sa n) s =
        (if v ≠ 0 then .br n sa { (s.fire b) with stack := st }
         else .normal ((({ (s.fire b) with stack := st } : St).fire a).fire (saPs sa))) := by
  constructor
  · simp [runOne]
  · simp only [runOne, if_true, St.fire_stack, hs]

/-- **C20, constructs.** For programs whose branches carry no semantic-after annotation: the lowered program, monitor
    off, reproduces the monitored outcome and trace, so a semantic-after probe on a block, `if` or `else` fires each time
    control reaches the instruction after the construct — fall-through or branch to its label — and never otherwise. -/
theorem c20_construct_after (fns : List Callee) (fx : List Nat) (f : Nat) (p : List Instr) (s : St) (o : Out)
    (hns : noSAL p = true) (h : run fns true fx f p s = o) (ok : o.ok = true) :
    ∃ g, run fns false [] g (lowerL fx p) s = o := by
  obtain ⟨⟨g, e, _⟩, _⟩ := lower_sim (fns := fns) hns h ok
  exact ⟨g, e⟩

def exSt (stack : List Nat) : St := { stack := stack, locals := [0], globals := [], mem := [], trace := [] }
def tr : Out → List Nat
  | .normal s | .br _ _ s | .ret s | .trap s => s.trace
  | .stuck _ => [0]
def trF : FOut → List Nat
  | .returned _ s | .trapped s => s.trace
  | .stuck _ => [0]

/-- non-vacuity for constructs: block left by `br 0` and by fall-through both report the construct's probe 1003 -/
def exBlk (leave : Bool) : List Instr :=
  [ .block [] { after := [1003] } 0 "block" ((if leave then [.br [] [] none 0] else []) ++ [.probe 7]), .probe 8 ]
example : tr (run [] false [] 50 (lowerL [] (exBlk true)) (exSt [])) = [1003, 8]
    ∧ tr (run [] false [] 50 (lowerL [] (exBlk false)) (exSt [])) = [7, 1003, 8] := by decide

/-- a single annotated branch into a block behaves as specified (flag local 0): taken → after arrival; not taken → at once -/
def exBr : List Instr :=
  [ .block [] {} 0 "block" [ .brIf [] [] (some ⟨0, [1004]⟩) 0, .probe 7 ], .probe 8 ]
example : tr (run [] true [] 50 exBr (exSt [1])) = [1004, 8] ∧ tr (run [] false [] 50 (lowerL [] exBr) (exSt [1])) = [1004, 8]
    ∧ tr (run [] true [] 50 exBr (exSt [0])) = [1004, 7, 8] ∧ tr (run [] false [] 50 (lowerL [] exBr) (exSt [0])) = [1004, 7, 8] := by
  decide

/-- **C20, branches (partial: the scope is `scopedL`).** Run the annotated program under the monitor from `s`; run its
    lowering with the monitor off from any `s'` that differs from `s` in flag locals only and has the program's flags at 0.
    Then the lowered run finishes with the same kind of outcome, the same stack, globals, memory and **trace** — every
    semantic-after probe of a `br` / `br_if` reported exactly when the monitor reports it: when the branch arrives at its
    target construct, or at once when a conditional branch falls through — and locals equal outside the flags.
    (`SimOk` also carries the inductive invariant: flags outside the fragment untouched; on normal completion every flag of
    a leaving branch is 0; on a branch outcome the pending branch's flag is 1 and the other leaving flags are 0.) -/
theorem c20_branch_partial (fns : List Callee) (F fx : List Nat) (f : Nat) (p : List Instr) (s s' : St) (o : Out)
    (hsc : scopedL F p = true) (hnd : (flagsL p).Nodup) (hF : ∀ x ∈ flagsL p, x ∈ F)
    (h : run fns true fx f p s = o) (ok : o.ok = true) (hfe : FlagEq F s s') (hz : ∀ x ∈ flagsL p, flagIs s' x 0) :
    ∃ o', RunsL fns false [] (lowerL fx p) s' o' ∧ OutRel F o o' :=
  let ⟨o', h1, h2, _, _⟩ := branch_sim (fns := fns) hsc hnd hF h ok hfe hz
  ⟨o', h1, h2⟩

/-- **C20 at function level (partial, same scope).** The lowered function, monitor off, returns the same values (or traps
    alike) with the same globals, memory and trace as the monitor semantics defines for the annotated function. -/
theorem c20_function_partial (fns : List Callee) (F : List Nat) (Fn : Func) (hsc : scopedL F Fn.body = true)
    (hnd : (flagsL Fn.body).Nodup) (hF : ∀ x ∈ flagsL Fn.body, x ∈ F) (hnoesc : ∀ d, pendingL d Fn.body = [])
    (s s' : St) (hs : s.stack = []) (hfe : FlagEq F s s') (hz : ∀ x ∈ flagsL Fn.body, flagIs s' x 0) (f : Nat)
    (ok : (runFunc fns true f Fn s).ok = true) :
    ∃ g, FOutRel F (runFunc fns true f Fn s) (runFunc fns false g (lowerF Fn) s') :=
  branch_lowerF_sim (fns := fns) F Fn hsc hnd hF hnoesc s s' hs hfe hz f ok

/-- non-vacuity of the scope: the annotated `br_if` into a block of `exBr` (flag local 0) is in it -/
example : scopedL [0] exBr = true ∧ (flagsL exBr).Nodup ∧ (∀ x ∈ flagsL exBr, x ∈ [0]) ∧ (∀ d, d < 3 → pendingL d exBr = [])
    ∧ (exSt [1]).locals[0]? = some 0 := by decide

/-- **F14 (known finding), decided.** A `br_table` with two different target blocks: the monitor reports the probe once;
    the lowered code reports it at the inner block's `end` and, the flag never being cleared, again at the outer one's. -/
def exF14 : List Instr :=
  [ .block [] {} 0 "block"
      [ .block [] {} 0 "block" [ .brTable [] [] (some ⟨0, [1005]⟩) [0] 1 ], .probe 7 ],
    .probe 8 ]
theorem c20_branch_counterexample_flag_not_cleared :
    tr (run [] true [] 50 exF14 (exSt [0])) = [1005, 7, 8]
    ∧ tr (run [] false [] 50 (lowerL [] exF14) (exSt [0])) = [1005, 7, 1005, 8] := by decide

/-- **F15 (known finding), decided.** A branch to the function label: the monitor reports the probe when the branch
    arrives (function exit); the lowered code never emits the check. -/
def exF15 : Func := { nres := 0, body := [ .probe 7, .br [] [] (some ⟨0, [1006]⟩) 0 ] }
theorem c20_branch_counterexample_function_label :
    trF (runFunc [] true 50 exF15 (exSt [])) = [7, 1006]
    ∧ trF (runFunc [] false 50 (lowerF exF15) (exSt [])) = [7] := by decide

/-- the flat-code statement for M3, the transcription of the resolver (every body; `Lemmas/SpecialFlat.lean`): a semantic-after
    probe on a `block` / `loop` / `if` is encoded behind the construct's matching `end` -/
theorem c20_flat_semantic_after_placed (f : Orca.Lower.Func) (pre region post : List Orca.Lower.Instr) (sel endI : Orca.Lower.Instr)
    (pr : List Orca.Lower.Tok) (hbody : f.body = pre ++ sel :: region ++ endI :: post) (hpne : post ≠ [])
    (hsp : f.hasSpecial = true) (hentry : f.entry = []) (hexit : f.exit = [])
    (hpre : ∀ x ∈ pre, Orca.Lower.Clean x) (hreg : ∀ x ∈ region, Orca.Lower.Clean x) (hend : Orca.Lower.Clean endI)
    (hpost : ∀ x ∈ post, Orca.Lower.Clean x) (hsel : Orca.Lower.OnlySemAfter sel pr)
    (hk : sel.kind = .block ∨ sel.kind = .loop ∨ sel.kind = .if_)
    (hendk : endI.kind = .end_) (n n2 : Nat) (hd1 : Orca.Lower.depthAfter pre 1 = some n)
    (hd2 : Orca.Lower.depthAfter region 0 = some 0) (hd3 : Orca.Lower.depthAfter post n = some n2) :
    Orca.Lower.lower f = (Orca.Lower.toks pre ++ [sel.tok] ++ Orca.Lower.toks region ++ [endI.tok] ++ pr ++ Orca.Lower.toks post, f.added) :=
  Orca.Lower.semAfter_placed f pre region post sel endI pr hbody hpne hsp hentry hexit hpre hreg hend hpost hsel hk hendk n n2 hd1 hd2 hd3

end Orca.Sem

namespace Orca.Lower

/-- **flat code, every plan.** Not only a single probe (`…_placed` above): for any number of semantic-after (on constructs) probes, together with any other
    block-level probes and `before` / `after` code, on any constructs nested in any way, the encoded function is what the stack machine
    `specRun` defines (Lemmas/StackSpec.lean), which puts semantic-after (on constructs) code behind the matching `end` (`specStep`: the frame's `afterA` list is emitted behind the `end` that pops it; the probes of an `else` join those of its `if`). -/
theorem c20_flat_every_plan (f : Func) (hsp : f.hasSpecial = true) (hentry : f.entry = []) (hexit : f.exit = [])
    (hp : ∀ x ∈ f.body, Plain x) (out : List Tok) (hs : specRun (f.body.length - 1) 0 [{}] f.body = some out) :
    lower f = (out, f.added) :=
  lower_eq_spec f hsp hentry hexit hp out hs

/-- **Semantic-after probes on branches in every plan (flat).** For every plan — several flagged branches, targeting the same or
    different constructs, next to block-level probes, alternates and function-level code — the encoded body is the one `specRunF`
    computes: a fresh i32 flag per flagged branch (`i32.const 1; local.set f` in front of it, `i32.const 0; local.set f` behind it, and
    for `br_if` also the probe itself behind that, for the fall-through), and the probe, guarded by the flag, behind the `end` of every
    construct the branch may leave to (`parkAllF`: one frame per target of a `br_table`; `endAfter`: the guarded bodies in front of the
    unguarded semantic-after code of the construct). A target that is the function's own label addresses the function body's frame,
    whose code would stand behind the final `end` and is not emitted — finding F15, visible here as a property of the machine. -/
theorem c20_flat_branch_probes_every_plan (f : Func) (hsp : f.hasSpecial = true) (hp : ∀ x ∈ f.body, PlainF x) (out : List Tok)
    (nlf : Nat) (hs : specRunF (f.body.length - 1) (entryToks f) f.exit 0 [{}] none f.nlocals f.body = some (out, nlf)) :
    lower f = (out, f.added + (nlf - f.nlocals)) :=
  lower_eq_specF f hsp hp out nlf hs

/-- **A semantic-after probe on a branch reaches the output unless the branch can only go to the function's label** (every plan
    without block alternates): for each branch with a probe at nesting depth `d`, if it is a `br_if` (the inline copy) or one of its
    targets is smaller than `d` (a construct, not the function), every token of the probe is in the encoded function. -/
theorem c20_branch_probe_kept_unless_function_label (f : Func) (hsp : f.hasSpecial = true) (hp : ∀ x ∈ f.body, PlainF x)
    (hna : ∀ x ∈ f.body, x.blockAlt = none) (out : List Tok) (nlf : Nat)
    (hs : specRunF (f.body.length - 1) (entryToks f) f.exit 0 [{}] none f.nlocals f.body = some (out, nlf)) :
    KeptAll 0 f.body (lower f).1 :=
  lower_keeps_all_F f hsp hp hna out nlf hs

/-! non-vacuity (decided): two flagged branches leaving the same block (locals 5 and 6): the guarded bodies are chained `if … else
    … end end` behind the block's `end`; a `br 1` out of the function from inside a block parks at the function's own frame and its body
    is not emitted (F15) -/
private def mkI20 (t : Tok) (k : Kind) : Instr := { tok := t, kind := k }
set_option maxRecDepth 20000 in
example :
    let body : List Instr :=
      [mkI20 "block" .block, { mkI20 "br 0" (.br 0) with semAfter := ["S1"] }, { mkI20 "br_if 0" (.brIf 0) with semAfter := ["S2"] },
       { mkI20 "br 1" (.br 1) with semAfter := ["LOST"] }, mkI20 "end" .end_, mkI20 "end" .end_]
    let f : Func := { body := body, hasSpecial := true, nlocals := 5 }
    lower f = (["block", "i32.const:1", "local.set:5", "br 0", "i32.const:0", "local.set:5",
                "i32.const:1", "local.set:6", "br_if 0", "i32.const:0", "local.set:6", "S2",
                "i32.const:1", "local.set:7", "br 1", "i32.const:0", "local.set:7",
                "end", "local.get:5", "if", "S1", "else", "local.get:6", "if", "S2", "end", "end", "end"], 3) := by
  decide

end Orca.Lower

/-- **The tie to the source (regenerated on every run).** The skeletons of `plan_resolution_semantic_after`, `create_bool_flag` and
    `save_flagged_body_to_resolve` are what the third stage of `planSpecial` (`flag`, `park`, `addFlag`) was transcribed from. -/
theorem c20_semantic_after_code_reviewed :
    Orca.Gen.Outline.plan_resolution_semantic_after = Orca.Lower.Outline.plan_resolution_semantic_after
    ∧ Orca.Gen.Outline.create_bool_flag = Orca.Lower.Outline.create_bool_flag
    ∧ Orca.Gen.Outline.save_flagged_body_to_resolve = Orca.Lower.Outline.save_flagged_body_to_resolve :=
  ⟨rfl, rfl, rfl⟩

/-- **From the tree model to the code model.** The theorems above are about the tree lowering `lowerF` (semantic after: `c20_function_partial` is about `lowerF F`, flags included). This one closes the gap to
    M3, the transcription of the code's lowering on flat instruction lists: flatten the annotated structured function to the instructions
    and instrumentation lists the API would have built, let M3 lower it (`resolve_special_instrumentation` + emission, proved to be the
    stack machine in Lemmas/StackFull.lean), and the tokens are exactly `flattenF (lowerF F)` — what the sem driver prints for the tree model — and the locals added exactly its flags
    (Lemmas/Bridge.lean, by mutual induction over the program with the machine's frames as the context). Scope: at most two flag-guarded
    bodies behind one `end` (beyond that the code's chain is ill-formed: F27), no flagged branch to a loop, non-empty branch probes, branch
    depths inside the function, flags numbered in program order, no `before` code on the first instruction next to function-level code
    (there the code puts the entry code behind it). -/
theorem c20_code_lowering_is_tree_lowering (F : Orca.Sem.Func) (nl : Nat) (hok : Orca.Bridge.okL F.body = true)
    (hd : Orca.Bridge.depthOkL 1 F.body = true)
    (hnum : Orca.Sem.flagsL F.body = List.range' nl (Orca.Sem.flagsL F.body).length)
    (hfirst : (F.entry = [] ∧ F.exit = []) ∨ ((Orca.Bridge.flatF F nl).body.head?.map (·.before)) = some []) :
    Orca.Lower.lower (Orca.Bridge.flatF F nl)
      = (Orca.SemTree.flattenF (Orca.Sem.lowerF F), (Orca.Sem.flagsL F.body).length) :=
  Orca.Bridge.code_lowering_is_flattened_tree_lowering F nl hok hd hnum hfirst

/-! non-vacuity (decided): a function with exit probes whose body is a block with an exit probe containing a flagged `br_if 0` (flag
    local 2) and a `return`: every hypothesis of the bridge holds -/
private def exBridgeBody : List Orca.Sem.Instr :=
  [.block [] { exit := [5] } 0 "block" [.op [] [] (.const 1), .brIf [] [] (some ⟨2, [9]⟩) 0, .ret [] []]]
private def exBridge : Orca.Sem.Func := { nres := 0, exit := [7], body := exBridgeBody }
set_option maxRecDepth 40000 in
example :
    Orca.Bridge.okL exBridge.body = true ∧ Orca.Bridge.depthOkL 1 exBridge.body = true
    ∧ Orca.Sem.flagsL exBridge.body = List.range' 2 (Orca.Sem.flagsL exBridge.body).length
    ∧ ((Orca.Bridge.flatF exBridge 2).body.head?.map (·.before)) = some []
    ∧ (Orca.Lower.lower (Orca.Bridge.flatF exBridge 2)).2 = 1 := by
  decide
