import Orca.Gen.RefTables
import Orca.Lemmas.Ops
import Orca.Lemmas.Preserve
import Orca.Lemmas.Redirect
import Orca.Gen.MapSites
/-!
# C08 — memory references stay bound to the same memory across edits

Two parts. (1) Tables, regenerated from the source on every run (`Orca.Gen.RefTables`): every operator that
wasmparser gives a memory immediate is recognised by `refers_to_memory`, and `update_memory_instr` rewrites exactly
as many memory immediates as the operator has. (2) The index-space argument shared with C06/C07
(`Orca.Edit.encode_spec`), instantiated for the memory space, and the ids reported by the memory additions.
-/
namespace Orca.Gen

/-- `refers_to_memory` recognises exactly the operators that carry a memory immediate -/
theorem c08_refers_to_memory_complete : ∀ op : Op, wirmRefersMem op = decide (specMemFields op ≠ 0) := by
  intro op; cases op <;> rfl

/-- … and `update_memory_instr` rewrites every memory immediate of every such operator (both for `memory.copy`) -/
theorem c08_update_memory_all_fields : ∀ op : Op, wirmUpdatedMemFields op = specMemFields op := by
  intro op; cases op <;> rfl

/-- non-vacuity: the atomic read-modify-write family and `memory.copy` are in the tables -/
example : wirmRefersMem .I64AtomicRmw32CmpxchgU = true ∧ wirmUpdatedMemFields .MemoryCopy = 2
    ∧ wirmRefersMem .I32Add = false := by decide

end Orca.Gen

namespace Orca.Edit
open Orca.Reindex

/-- every emitted memory reference designates the live memory its stored index designated, or encoding fails
    loudly on a reference to a deleted memory (the statement covers all three spaces; see C06) -/
theorem c08_memory_refs (s : St) (hf : SpaceInv s.f s.imports .F) (hg : SpaceInv s.g s.imports .G)
    (hm : SpaceInv s.m s.imports .M) :
    (∃ s' F G M res st, encode s = (s', Ret.encoded F G M res st)
        ∧ (∀ r' ∈ res, r'.sp = Sp.M → ∃ r ∈ allRefs s, r'.site = r.site ∧ r.sp = Sp.M
            ∧ ∃ u, PointsTo s r u ∧ M[r'.idx]? = some u))
    ∨ (∃ s' why, encode s = (s', Ret.panic why) ∧ ∃ r ∈ allRefs s, Dangling s r) := by
  rcases encode_spec s hf hg hm with ⟨s', F, G, M, res, st, he, h⟩ | h
  · left
    refine ⟨s', F, G, M, res, st, he, ?_⟩
    intro r' hr' hsp
    obtain ⟨r, hr, a, b, u, c, d⟩ := h r' (by simp [hr'])
    refine ⟨r, hr, a, by rw [← b]; exact hsp, u, c, ?_⟩
    simpa [designated, hsp] using d
  · right; exact h

/-- **a reported id is new.** With stored ids equal to positions (`IdsFresh`, a clause of the state invariant of every state reached
    from a parsed module before an encode), the id reported for an added memory - the length of the vector - is held by no entity of
    the space, live or deleted (the `edit` family judges this on the crate: signature `M-returned-id-already-in-use`). -/
theorem c08_reported_id_is_new (s : St) (hf : IdsFresh s.m.items) (it : Item) (hit : it ∈ s.m.items) :
    it.id ≠ s.m.items.length := by
  obtain ⟨i, hi⟩ := List.mem_iff_getElem?.mp hit
  have hid := hf i it hi
  have hlt : i < s.m.items.length := by
    rcases List.getElem?_eq_some_iff.mp hi with ⟨h, _⟩
    exact h
  omega

/-- the ids reported by the memory additions are the positions the memories are stored at -/
theorem c08_added_memory_ids (s : St) (uid : Nat) :
    (addImportMem s uid).2 = Ret.id2 s.m.items.length s.imports.length
    ∧ (addLocalMem s uid).2 = Ret.id s.m.items.length := by
  exact ⟨(addImportMem_spec s uid).1, rfl⟩

/-- `c08_memory_refs` after **any** history of edits on a parsed module (the state invariant is inductive:
    `stInv_step`, Lemmas/Preserve.lean) -/
theorem c08_memory_refs_after_any_history (s0 : St) (h0 : StInv s0) (ops : List Op) (hn : NoEncode ops) :
    let s := (run s0 ops).1
    (∃ s' F G M res st, encode s = (s', Ret.encoded F G M res st)
        ∧ (∀ r' ∈ res, r'.sp = Sp.M → ∃ r ∈ allRefs s, r'.site = r.site ∧ r.sp = Sp.M
            ∧ ∃ u, PointsTo s r u ∧ M[r'.idx]? = some u))
    ∨ (∃ s' why, encode s = (s', Ret.panic why) ∧ ∃ r ∈ allRefs s, Dangling s r) :=
  let h := spaceInv_after s0 h0 ops hn
  c08_memory_refs _ h.1 h.2.1 h.2.2

/-- **the uses of the memory map inside `encode_internal` this model was written against** (see `c06_function_map_uses_reviewed`):
    memory exports, the code loop (every operator with a memory immediate, through `fix_op_id_mapping`), the memory index of
    active data segments; constant expressions take the map but cannot mention a memory -/
theorem c08_memory_map_uses_reviewed :
    Orca.Gen.mapUsesMemory = ["resolve-special:memory:pass", "tables:memory:pass", "exports:memory:get", "elements:memory:pass", "elements:memory:pass", "code:memory:pass", "code:memory:pass", "code:memory:pass", "code:memory:pass", "code:memory:use", "code:memory:use", "data:memory:get"] := by decide

/-- **an id keeps designating its memory through every operation except its own deletion**, for every history: if position `j`
    of the memory vector holds `x`, then after any history that does not delete `j` (and does not encode) every emitted memory
    reference whose stored id is `j` designates `x.uid` in the encoded module, or the encoder fails loudly on a dangling reference.
    With `c30_returned_ids_designate` this covers the ids handed out by the additions. -/
theorem c08_ids_are_stable (s0 : St) (h0 : StInv s0) (j : Nat) (x : Item) (hx : s0.m.items[j]? = some x)
    (ops : List Op) (hs : ∀ o ∈ ops, o ≠ .encode ∧ o ≠ .deleteMem j) :
    let s := (run s0 ops).1
    (∃ s' F G M res st, encode s = (s', Ret.encoded F G M res st)
        ∧ (∀ r' ∈ res ++ st.toList, ∃ r ∈ allRefs s, r'.site = r.site ∧ r'.sp = r.sp
            ∧ (∃ u, PointsTo s r u ∧ designated F G M r' = some u)
            ∧ (r.sp = .M → r.idx = j → designated F G M r' = some x.uid)))
    ∨ (∃ s' why, encode s = (s', Ret.panic why) ∧ ∃ r ∈ allRefs s, Dangling s r) :=
  encode_designates s0 h0 .M j x hx ops (fun o ho => ⟨fun id h e => (hs o ho).2 (by rw [h, e]), (hs o ho).1⟩)

end Orca.Edit
