import Orca.Lemmas.Roundtrip
/-!
# C01 — unmodified parse-then-encode yields a valid module

Validity is decided by wasmparser's validator; there is no typing model here. What is proved is the part of C01 that
is wirm's own: on the represented profile the conversions never panic and are inverse to each other (so the decoded
output equals the decoded input in everything wirm converts, C02), and validity carries over **provided** the
validator's verdict depends only on decoded content — an assumption about wasmparser that is stated as a hypothesis,
not proved. The `roundtrip` family validates every generated and fixture module before and after.
-/
namespace Orca.C01
open Orca.Gen

/-- parsing value types is total, and on the represented profile so is encoding what was parsed -/
theorem c01_conversions_total (v : VT) : (fromVal v).isSome = true ∧ (represented v = true → ((fromVal v).bind toEnc).isSome = true) := by
  refine ⟨fromVal_total v, fun h => ?_⟩
  rw [valtype_roundtrip v h]; rfl

/-- every constant-expression operator of the profile (everything but the extended-const arithmetic) is accepted by `eval`
    and has an encoding -/
theorem c01_constexpr_total :
    ["I32Const", "I64Const", "F32Const", "F64Const", "V128Const", "GlobalGet", "RefNull", "RefFunc", "StructNew", "StructNewDefault",
     "ArrayNew", "ArrayNewDefault", "ArrayNewFixed", "ArrayNewData", "ArrayNewElem", "RefI31"].all
      (fun op => evalTable.any (fun r => r.1 == op)) = true := by decide

/-- validity is preserved whenever the decoded content is (C02) and validity is a property of decoded content -/
theorem c01_valid_preserved {Bytes Content : Type} (decode : Bytes → Content) (Valid : Content → Prop) (input output : Bytes)
    (hsame : decode output = decode input) (hvalid : Valid (decode input)) : Valid (decode output) := by
  rw [hsame]; exact hvalid

/-- the two routes by which a `DataType` reaches the wire agree (an added global or a block type gets the type a parsed one
    would get) -/
theorem c01_wire_routes_agree : ∀ d : DT, (match d with | .RecGroup _ | .CoreTypeId _ => True | _ => toParser d = toEnc d) :=
  toParser_agrees

end Orca.C01
