import Orca.Lemmas.Roundtrip
import Orca.Lemmas.Sections
import Orca.Gen.Sections
/-!
# C01 — unmodified parse-then-encode yields a valid module

Validity is decided by wasmparser's validator; there is no typing model here. What is proved is the part of C01 that
is wirm's own: on the represented profile the conversions never panic and are inverse to each other (so the decoded
output equals the decoded input in everything wirm converts, C02), and validity carries over **provided** the
validator's verdict depends only on decoded content — an assumption about wasmparser that is stated as a hypothesis,
not proved. The `roundtrip` family validates every generated and fixture module before and after.
-/
namespace Orca.C01
open Orca.Gen

/-- parsing value types is total, and on the represented profile so is encoding what was parsed -/
theorem c01_conversions_total (v : VT) : (fromVal v).isSome = true ∧ (represented v = true → ((fromVal v).bind toEnc).isSome = true) := by
  refine ⟨fromVal_total v, fun h => ?_⟩
  rw [valtype_roundtrip v h]; rfl

/-- every constant-expression operator of the profile (everything but the extended-const arithmetic) is accepted by `eval`
    and has an encoding -/
theorem c01_constexpr_total :
    ["I32Const", "I64Const", "F32Const", "F64Const", "V128Const", "GlobalGet", "RefNull", "RefFunc", "StructNew", "StructNewDefault",
     "ArrayNew", "ArrayNewDefault", "ArrayNewFixed", "ArrayNewData", "ArrayNewElem", "RefI31"].all
      (fun op => evalTable.any (fun r => r.1 == op)) = true := by decide

/-- validity is preserved whenever the decoded content is (C02) and validity is a property of decoded content -/
theorem c01_valid_preserved {Bytes Content : Type} (decode : Bytes → Content) (Valid : Content → Prop) (input output : Bytes)
    (hsame : decode output = decode input) (hvalid : Valid (decode input)) : Valid (decode output) := by
  rw [hsame]; exact hvalid

/-- the two routes by which a `DataType` reaches the wire agree (an added global or a block type gets the type a parsed one
    would get) -/
theorem c01_wire_routes_agree : ∀ d : DT, (match d with | .RecGroup _ | .CoreTypeId _ => True | _ => toParser d = toEnc d) :=
  toParser_agrees

/-! ### the section plan (M15) -/
open Orca.Sections in
/-- **the encoder's section writes this model was written against**: every `module.section(&x)` call of `Module::encode_internal`, in
    source order, with the top-level statement that guards it (regenerated from the source on every run). A section that appears,
    disappears, moves, or gets another guard makes this fail until `Orca.Sections.plan` has been reviewed. -/
theorem c01_section_writes_reviewed :
    Orca.Gen.encoderSections =
      [("type_sect", "if !self.types.groups.is_empty()"), ("imports", "if !self.imports.is_empty()"),
       ("functions", "if !self.functions.is_empty()"), ("tables", "if !self.tables.is_empty()"),
       ("memories", "if !self.memories.is_empty()"), ("tags", "if !self.tags.is_empty()"),
       ("globals", "if !self.globals.is_empty()"), ("exports", "if !self.exports.is_empty()"),
       ("wasm_encoder::StartSection", "if let Some(function_index) = self.start"), ("elements", "if !self.elements.is_empty()"),
       ("data_count", "if self.data_count_section_exists"), ("code", "if !self.num_local_functions > 0"),
       ("data", "if !self.data.is_empty()"), ("names", "always"),
       ("wasm_encoder::CustomSection", "for section in self.custom_sections.iter()")] := by decide

open Orca.Sections in
/-- **section order.** For every module, whatever it contains: the non-custom sections the encoder writes are in the order the binary
    format prescribes (type, import, function, table, memory, tag, global, export, start, element, data count, code, data), each
    at most once — a precondition of validity that is wirm's own doing. -/
theorem c01_sections_in_format_order (s : Shape) : (core s).Pairwise (fun x y => rank x < rank y) := core_sorted s

open Orca.Sections in
/-- **data count.** A module that was parsed with a data-count section is encoded with one, in front of the code section
    (`memory.init` / `data.drop` in a body are only valid with it), whether or not it has data segments or passive ones. -/
theorem c01_datacount_kept (s : Shape) (h : s.dataCount = true) : 12 ∈ plan s ∧ 12 ∈ core s ∧ 10 ∈ core s := by
  refine ⟨?_, ?_, ?_⟩
  · simp [plan, h]
  · rw [core_eq]; simp [h]
  · rw [core_eq]; simp

open Orca.Sections in
/-- a module with functions gets a function section and a code section; the code section is written in any case -/
theorem c01_function_and_code_sections (s : Shape) : 10 ∈ plan s ∧ (s.funcs > 0 → 3 ∈ plan s) := by
  refine ⟨by simp [plan], fun h => by simp [plan, h]⟩

/-- non-vacuity: only a data-count section and data -/
example : Orca.Sections.plan ⟨0, 0, 0, 0, 1, 0, 0, 0, false, 0, true, 2, 1⟩ = [5, 12, 10, 11, 0, 0] := by decide

end Orca.C01
