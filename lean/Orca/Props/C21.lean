import Orca.Lemmas.Lower
/-!
# C21 — block alternate replaces exactly the selected construct

Model: `Orca.Lower` (M3), `resolveSpecial` with its `delete_block` / `retain_end` tracking.
-/
namespace Orca.Lower

/-- index of the `end` that closes the construct opened at `i` (for `else`: the `end` of its `if`), by nesting depth -/
def matchEndFrom : List Instr → Nat → Nat → Option Nat
  | [], _, _ => none
  | x :: xs, k, depth =>
    match x.kind with
    | .block | .loop | .if_ => matchEndFrom xs (k + 1) (depth + 1)
    | .end_ => if depth = 0 then some k else matchEndFrom xs (k + 1) (depth - 1)
    | _ => matchEndFrom xs (k + 1) depth

def matchEnd (b : List Instr) (i : Nat) : Option Nat := matchEndFrom (b.drop (i + 1)) (i + 1) 0

/-- what the step at the selected instruction does: the replacement becomes its alternate (an empty replacement
    the empty alternate), every special list on it is discarded, `delete_block` starts at its block id, the `end`
    is kept only when the selected instruction is an `else` -/
theorem c21_plan_at_selected (b : List Instr) (idx : Nat) (x : Instr) (repl : List Tok) (hx : b[idx]? = some x) :
    (planBlockAlt b idx repl)[idx]? =
      some { x with mode := if repl.isEmpty then x.mode else some .alternate,
                    alt := if repl.isEmpty then some [] else some ((x.alt.getD []) ++ repl),
                    semAfter := [], blockEntry := [], blockExit := [], blockAlt := none }
    ∧ (∀ j, j ≠ idx → (planBlockAlt b idx repl)[j]? = b[j]?) := by
  unfold planBlockAlt discardSpecial setEmptyAlt
  by_cases hr : repl.isEmpty
  · have h1 := modifyAt_get b idx (fun i => { i with alt := some [] }) x hx
    have h2 := modifyAt_get _ idx (fun i => { i with semAfter := [], blockEntry := [], blockExit := [], blockAlt := none }) _ h1.1
    simp only [hr, if_true]
    exact ⟨h2.1, fun j hj => by rw [h2.2.1 j hj, h1.2.1 j hj]⟩
  · have h1 := modifyAt_get b idx (fun i => { i with mode := some .alternate, alt := some ((i.alt.getD []) ++ repl) }) x hx
    have h2 := modifyAt_get _ idx (fun i => { i with semAfter := [], blockEntry := [], blockExit := [], blockAlt := none }) _ h1.1
    simp only [hr, Bool.false_eq_true, if_false]
    exact ⟨h2.1, fun j hj => by rw [h2.2.1 j hj, h1.2.1 j hj]⟩

private def mk (t : Tok) (k : Kind) : Instr := { tok := t, kind := k }

/-- the specification on concrete nested bodies (decided in the kernel): replacing the outer block, an inner loop,
    an `if` with both arms, an `else` arm (keyword and arm go, `end` stays), an empty replacement -/
example :
    let body := [mk "a" .other, mk "block" .block, mk "b" .other, mk "loop" .loop, mk "c" .other, mk "end" .end_,
                 mk "end" .end_, mk "d" .other, mk "end" .end_]
    let go (ops : List ApiOp) := (applyAll { body := body } ops).map (fun f => (lower f).1)
    go [.setMode 1 .blockAlt, .inject 1 "R"] = some ["a", "R", "d", "end"]
    ∧ go [.setMode 3 .blockAlt, .inject 3 "R", .inject 3 "S"] = some ["a", "block", "b", "R", "S", "end", "d", "end"]
    ∧ go [.emptyBlockAlt 1] = some ["a", "d", "end"]
    ∧ (matchEnd body 1 = some 6 ∧ matchEnd body 3 = some 5) := by decide

example :
    let body := [mk "c" .other, mk "if" .if_, mk "t" .other, mk "else" .else_, mk "block" .block, mk "e" .other, mk "end" .end_,
                 mk "end" .end_, mk "z" .other, mk "end" .end_]
    let go (ops : List ApiOp) := (applyAll { body := body } ops).map (fun f => (lower f).1)
    go [.setMode 1 .blockAlt, .inject 1 "R"] = some ["c", "R", "z", "end"]
    ∧ go [.setMode 3 .blockAlt, .inject 3 "R"] = some ["c", "if", "t", "R", "end", "z", "end"]
    ∧ go [.emptyBlockAlt 3] = some ["c", "if", "t", "end", "z", "end"] := by decide

end Orca.Lower
