import Orca.Lemmas.BlockAlt
import Orca.Gen.ResolverOutline
import Orca.Model.ResolverOutlineSpec
import Orca.Lemmas.StackAlt
/-!
# C21 — block alternate replaces exactly the selected construct

Model: `Orca.Lower` (M3), `resolveSpecial` with its `delete_block` / `retain_end` tracking.

`c21_block_alt_region` / `c21_else_alt_region` are the property for **every** body: a function whose only instrumentation is one
block alternate is encoded as the code in front of the selected construct, the replacement, the code behind the construct's
matching `end` (for `else`: the keyword and its arm are replaced, the `end` stays) — whatever the nesting in front of, inside and
behind the construct, for an empty replacement too, and without adding a local. Bodies with further instrumentation (other modes
outside the removed region, special lists inside it, nested alternates) are compared per case against the model.
-/
namespace Orca.Lower

/-- index of the `end` that closes the construct opened at `i` (for `else`: the `end` of its `if`), by nesting depth -/
def matchEndFrom : List Instr → Nat → Nat → Option Nat
  | [], _, _ => none
  | x :: xs, k, depth =>
    match x.kind with
    | .block | .loop | .if_ => matchEndFrom xs (k + 1) (depth + 1)
    | .end_ => if depth = 0 then some k else matchEndFrom xs (k + 1) (depth - 1)
    | _ => matchEndFrom xs (k + 1) depth

def matchEnd (b : List Instr) (i : Nat) : Option Nat := matchEndFrom (b.drop (i + 1)) (i + 1) 0

/-- what the step at the selected instruction does: the replacement becomes its alternate (an empty replacement
    the empty alternate), every special list on it is discarded, `delete_block` starts at its block id, the `end`
    is kept only when the selected instruction is an `else` -/
theorem c21_plan_at_selected (b : List Instr) (idx : Nat) (x : Instr) (repl : List Tok) (hx : b[idx]? = some x) :
    (planBlockAlt b idx repl)[idx]? =
      some { x with mode := if repl.isEmpty then x.mode else some .alternate,
                    alt := if repl.isEmpty then some [] else some ((x.alt.getD []) ++ repl),
                    semAfter := [], blockEntry := [], blockExit := [], blockAlt := none }
    ∧ (∀ j, j ≠ idx → (planBlockAlt b idx repl)[j]? = b[j]?) := by
  unfold planBlockAlt discardSpecial setEmptyAlt
  by_cases hr : repl.isEmpty
  · have h1 := modifyAt_get b idx (fun i => { i with alt := some [] }) x hx
    have h2 := modifyAt_get _ idx (fun i => { i with semAfter := [], blockEntry := [], blockExit := [], blockAlt := none }) _ h1.1
    simp only [hr, if_true]
    exact ⟨h2.1, fun j hj => by rw [h2.2.1 j hj, h1.2.1 j hj]⟩
  · have h1 := modifyAt_get b idx (fun i => { i with mode := some .alternate, alt := some ((i.alt.getD []) ++ repl) }) x hx
    have h2 := modifyAt_get _ idx (fun i => { i with semAfter := [], blockEntry := [], blockExit := [], blockAlt := none }) _ h1.1
    simp only [hr, Bool.false_eq_true, if_false]
    exact ⟨h2.1, fun j hj => by rw [h2.2.1 j hj, h1.2.1 j hj]⟩

private def mk (t : Tok) (k : Kind) : Instr := { tok := t, kind := k }

/-- the specification on concrete nested bodies (decided in the kernel): replacing the outer block, an inner loop,
    an `if` with both arms, an `else` arm (keyword and arm go, `end` stays), an empty replacement -/
example :
    let body := [mk "a" .other, mk "block" .block, mk "b" .other, mk "loop" .loop, mk "c" .other, mk "end" .end_,
                 mk "end" .end_, mk "d" .other, mk "end" .end_]
    let go (ops : List ApiOp) := (applyAll { body := body } ops).map (fun f => (lower f).1)
    go [.setMode 1 .blockAlt, .inject 1 "R"] = some ["a", "R", "d", "end"]
    ∧ go [.setMode 3 .blockAlt, .inject 3 "R", .inject 3 "S"] = some ["a", "block", "b", "R", "S", "end", "d", "end"]
    ∧ go [.emptyBlockAlt 1] = some ["a", "d", "end"]
    ∧ (matchEnd body 1 = some 6 ∧ matchEnd body 3 = some 5) := by decide

example :
    let body := [mk "c" .other, mk "if" .if_, mk "t" .other, mk "else" .else_, mk "block" .block, mk "e" .other, mk "end" .end_,
                 mk "end" .end_, mk "z" .other, mk "end" .end_]
    let go (ops : List ApiOp) := (applyAll { body := body } ops).map (fun f => (lower f).1)
    go [.setMode 1 .blockAlt, .inject 1 "R"] = some ["c", "R", "z", "end"]
    ∧ go [.setMode 3 .blockAlt, .inject 3 "R"] = some ["c", "if", "t", "R", "end", "z", "end"]
    ∧ go [.emptyBlockAlt 3] = some ["c", "if", "t", "end", "z", "end"] := by decide

/-- **C21 for every body** (block / loop / if): `pre` is the code in front (any nesting, need not be balanced), `region` the
    inside of the construct (any balanced sequence), `endI` its `end`, `post` the rest of the function. -/
theorem c21_block_alt_region (f : Func) (pre region post : List Instr) (sel endI : Instr) (repl : List Tok)
    (hbody : f.body = pre ++ sel :: region ++ endI :: post) (hpne : post ≠ [])
    (hsp : f.hasSpecial = true) (hentry : f.entry = []) (hexit : f.exit = [])
    (hpre : ∀ x ∈ pre, Clean x) (hreg : ∀ x ∈ region, Clean x) (hend : Clean endI) (hpost : ∀ x ∈ post, Clean x)
    (hsel : SelOnly sel repl) (hk : sel.kind = .block ∨ sel.kind = .loop ∨ sel.kind = .if_) (hendk : endI.kind = .end_)
    (n n2 : Nat) (hd1 : depthAfter pre 1 = some n) (hd2 : depthAfter region 0 = some 0) (hd3 : depthAfter post n = some n2) :
    lower f = (toks pre ++ repl ++ toks post, f.added) :=
  blockAlt_region f pre region post sel endI repl hbody hpne hsp hentry hexit hpre hreg hend hpost hsel hk hendk n n2 hd1 hd2 hd3

/-- **C21 for every body** (else): the keyword and the arm are replaced, the `end` of the `if` stays -/
theorem c21_else_alt_region (f : Func) (pre region post : List Instr) (sel endI : Instr) (repl : List Tok)
    (hbody : f.body = pre ++ sel :: region ++ endI :: post) (hpne : post ≠ [])
    (hsp : f.hasSpecial = true) (hentry : f.entry = []) (hexit : f.exit = [])
    (hpre : ∀ x ∈ pre, Clean x) (hreg : ∀ x ∈ region, Clean x) (hend : Clean endI) (hpost : ∀ x ∈ post, Clean x)
    (hsel : SelOnly sel repl) (hk : sel.kind = .else_) (hendk : endI.kind = .end_)
    (n n2 : Nat) (hd1 : depthAfter pre 1 = some (n + 1)) (hd2 : depthAfter region 0 = some 0) (hd3 : depthAfter post n = some n2) :
    lower f = (toks pre ++ repl ++ [endI.tok] ++ toks post, f.added) :=
  blockAlt_region_else f pre region post sel endI repl hbody hpne hsp hentry hexit hpre hreg hend hpost hsel hk hendk n n2 hd1 hd2 hd3

/-- the API produces such functions: selecting block-alt on a clean block-structured instruction and injecting a
    replacement gives `SelOnly`, marks the function, and leaves every other instruction as it was -/
theorem c21_api_gives_selOnly (f f2 : Func) (idx : Nat) (x : Instr) (t : Tok) (hx : f.body[idx]? = some x) (hc : Clean x)
    (hb : x.kind.isBlockStyle = true) (hf : f.fmode = none)
    (h : applyAll f [.setMode idx .blockAlt, .inject idx t] = some f2) :
    ∃ y, f2.body[idx]? = some y ∧ SelOnly y [t] ∧ y.kind = x.kind ∧ y.tok = x.tok ∧ f2.hasSpecial = true
      ∧ f2.entry = f.entry ∧ f2.exit = f.exit ∧ (∀ j, j ≠ idx → f2.body[j]? = f.body[j]?) := by
  have h1 := modifyAt_get f.body idx (fun i => { i with mode := some .blockAlt }) x hx
  have hlt : idx < (modifyAt f.body idx (fun i => { i with mode := some .blockAlt })).length := by
    rw [h1.2.2]
    rcases Nat.lt_or_ge idx f.body.length with h' | h'
    · exact h'
    · simp [List.getElem?_eq_none h'] at hx
  have hadd : ({ x with mode := some .blockAlt } : Instr).addInstr t
      = some ({ x with mode := some .blockAlt, blockAlt := some [t] }, true) := by
    simp [Instr.addInstr, hb, hc.blockAlt]
  simp only [applyAll, apply, hx, Option.bind_some, h1.1, hadd, Option.some.injEq] at h
  subst h
  refine ⟨{ x with mode := some .blockAlt, blockAlt := some [t] }, by simp [hlt],
    ⟨hc.before, hc.after, hc.alt, hc.semAfter, hc.blockEntry, hc.blockExit, rfl⟩, rfl, rfl, by simp, rfl, rfl, ?_⟩
  intro j hj
  simp only
  rw [List.getElem?_set_ne (Ne.symm hj)]
  exact h1.2.1 j hj

/-! non-vacuity of the hypotheses of the region theorems on a nested body -/
set_option maxRecDepth 8000 in
example :
    let a : Instr := mk "a" .other
    let pre := [a, mk "block" .block]
    let sel : Instr := { mk "loop" .loop with blockAlt := some ["R"] }
    let region := [mk "b" .other, mk "if" .if_, mk "c" .other, mk "else" .else_, mk "d" .other, mk "end" .end_]
    let post := [mk "e" .other, mk "end" .end_, mk "end" .end_]
    depthAfter pre 1 = some 2 ∧ depthAfter region 0 = some 0 ∧ depthAfter post 2 = some 0
      ∧ (lower { body := pre ++ sel :: region ++ mk "end" .end_ :: post, hasSpecial := true }).1
          = ["a", "block", "R", "e", "end", "end"] := by decide

/-! ### block alternates together with every other block-level mode -/

/-- **The resolver is a stack machine, alternates included.** For every body and every plan made of `before` / `after` code anywhere,
    block-entry / block-exit / semantic-after probes on constructs and block alternates on constructs — any number of each, in any
    combination and nesting — the encoded body is the one the extended stack machine `specRunA` defines (Lemmas/StackAlt.lean): while a
    construct is being removed every instruction is emptied (special lists discarded; its plain `before` / `after` lists are kept, as in
    the code), alternates inside a removed region go with it, an alternate on an `else` removes the arm and keeps the `end`. -/
theorem c21_resolver_is_a_stack_machine (f : Func) (hsp : f.hasSpecial = true) (hentry : f.entry = []) (hexit : f.exit = [])
    (hp : ∀ x ∈ f.body, PlainA x) (out : List Tok) (hs : specRunA (f.body.length - 1) 0 [{}] none f.body = some out) :
    lower f = (out, f.added) :=
  lower_eq_specA f hsp hentry hexit hp out hs

/-- **The region theorem in any context** (`block` / `loop` / `if`): whatever frames are pending around the construct (exit and
    semantic-after probes of enclosing constructs, if-exit code waiting for an `else`), the machine emits the opener's `before` code, the
    replacement, the plain lists of the removed instructions, and continues behind the matching `end` **with exactly the frames it had in
    front of the construct and nothing being removed**: every probe outside the construct is placed as if the construct were not there.
    (`altOf X alt` is the replacement itself; when the opener also carried an instruction-level alternate, the code appends the replacement
    to it — `c21_alt_of_plain_opener`.) -/
theorem c21_region_in_any_context (last idx : Nat) (b : Fr) (base' : List Fr) (X endI : Instr) (region post : List Instr) (alt : List Tok)
    (hk : X.kind = .block ∨ X.kind = .loop ∨ X.kind = .if_) (hx : X.blockAlt = some alt) (hreg : depthAfter region 0 = some 0)
    (hend : endI.kind = .end_) (hl : idx + region.length + 2 ≤ last) (hpost : post ≠ []) :
    specRunA last idx (b :: base') none (X :: (region ++ endI :: post))
      = (specRunA last (idx + region.length + 2) (b :: base') none post).map
          (fun o => X.before ++ altOf X alt ++ X.after ++ removedToks region ++ endI.before ++ endI.after ++ o) :=
  specRunA_alt_open last idx b base' X endI region post alt hk hx hreg hend hl hpost

/-- the replacement as it is emitted: `alt` itself on an opener without an instruction-level alternate -/
theorem c21_alt_of_plain_opener (X : Instr) (alt : List Tok) (h : X.alt = none) : altOf X alt = alt := altOf_none X alt h

/-- … and for an alternate on an `else`: the if-exit code waiting for the `else` goes in front of the replacement, the arm contributes
    only its plain lists, and the `end` of the `if` closes the frame as if nothing had been removed. -/
theorem c21_else_in_any_context (last idx : Nat) (top b : Fr) (base' : List Fr) (X endI : Instr) (region post : List Instr) (alt : List Tok)
    (hk : X.kind = .else_) (hx : X.blockAlt = some alt) (hreg : depthAfter region 0 = some 0)
    (hend : endI.kind = .end_) (hl : idx + region.length + 1 ≤ last) :
    specRunA last idx (top :: b :: base') none (X :: (region ++ endI :: post))
      = (specRunA last (idx + region.length + 1) ({ top with ifExit := [] } :: b :: base') none (endI :: post)).map
          (fun o => X.before ++ top.ifExit ++ altOf X alt ++ X.after ++ removedToks region ++ o) :=
  specRunA_alt_else last idx top b base' X endI region post alt hk hx hreg hend hl

/-! non-vacuity (decided): an alternate on the `else` of an `if` that carries a block-exit probe (the shape of seeded change
    C21-if-exit-resolved-after-else-alt), inside a block with exit and semantic-after probes; and an alternate on a loop next to them -/
set_option maxRecDepth 8000 in
example :
    let body : List Instr :=
      [{ mk "block" .block with blockExit := ["X1"], semAfter := ["A1"] },
       { mk "if" .if_ with blockExit := ["X2"], semAfter := ["A2"] },
       mk "c" .other,
       { mk "else" .else_ with blockAlt := some ["R"], blockExit := ["gone"] },
       { mk "loop" .loop with blockEntry := ["gone2"] }, mk "end" .end_,
       mk "end" .end_,
       { mk "loop" .loop with blockAlt := some [] }, mk "d" .other, mk "end" .end_,
       mk "end" .end_, mk "end" .end_]
    specRunA 11 0 [{}] none body = some ["block", "if", "c", "X2", "R", "end", "A2", "X1", "end", "A1", "end"]
    ∧ (lower { body := body, hasSpecial := true }).1 = ["block", "if", "c", "X2", "R", "end", "A2", "X1", "end", "A1", "end"] := by
  decide

end Orca.Lower

/-- **The tie to the source (regenerated on every run).** The skeletons of `plan_resolution_block_alt` and
    `discard_special_instrumentation` are what `planBlockAlt` / `discardSpecial` and the `retain_end` rule were transcribed from. -/
theorem c21_block_alt_code_reviewed :
    Orca.Gen.Outline.plan_resolution_block_alt = Orca.Lower.Outline.plan_resolution_block_alt
    ∧ Orca.Gen.Outline.discard_special_instrumentation = Orca.Lower.Outline.discard_special_instrumentation :=
  ⟨rfl, rfl⟩
