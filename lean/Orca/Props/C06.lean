import Orca.Gen.RefTables
import Orca.Gen.ApiOutline
import Orca.Model.ApiOutlineSpec
import Orca.Lemmas.Ops
import Orca.Lemmas.Preserve
import Orca.Lemmas.Redirect
import Orca.Lemmas.Parsed
import Orca.Gen.MapSites
/-!
# C06 — function references stay bound to the same function across edits

Models: `Orca.Reindex` (M1: `reorganise_generic`, `order_imports_generic`, `get_mapping_generic`) and
`Orca.Edit` (M2: the edit API and `encode_internal`'s reference rewriting), as they are after the repairs
recorded in known-findings.txt. The statements about index spaces cover all three spaces at once; C07 and C08
add what is specific to globals and memories.

`SpaceInv` is the state invariant under which encoding is correct: stored ids are positions (`IdsFresh`), the live
imported entries of a vector correspond, in import order, to the live import entries (`agree`), and a vector that
is not flagged for re-indexing is already laid out (`settled`). It holds for every parsed module; that every
operation of the edit API preserves it is, in this version, checked on every generated history by the model
driver (line `inv=`), not yet proved — see the evidence field `assumptions`.
-/
namespace Orca.Reindex

/-- the re-indexing loop in closed form, for every vector and every number of original imports: kept original
    imports, then imports that sit among the locals, then kept locals, then former imports that became local;
    nothing marked deleted survives and relative order inside each group is preserved -/
theorem c06_reorganise_closed_form (orig : Nat) (xs : List Item) (h : orig ≤ xs.length) :
    reorganise orig xs =
      (xs.take orig).filter keepImp ++ (xs.drop orig).filter keepImp
        ++ (xs.drop orig).filter keepLoc ++ (xs.take orig).filter keepLoc :=
  reorganise_eq orig xs h

/-- `Vec::remove` / `Vec::insert` inside the loop never go out of range -/
theorem c06_reorganise_in_range (orig : Nat) (xs : List Item) (h : orig ≤ xs.length) :
    rloopOk orig { live := xs, numImported := orig, numDeleted := 0 } 0 xs = true :=
  rloopOk_true orig xs h

/-- **New positions.** With stored ids equal to positions, re-indexing succeeds (the `assert_eq!` on the map size
    holds), keeps exactly the entries not marked deleted, and the id map sends the id of every live entry to the new
    position *of that entry*; ids of deleted entries and ids out of range are not in the map. -/
theorem c06_new_positions (orig : Nat) (xs : List Item) (h : orig ≤ xs.length) (hf : IdsFresh xs) :
    ∃ ys, recalculate orig xs = some ys
      ∧ ys.Perm (xs.filter (fun x => !x.del))
      ∧ (∀ i x, xs[i]? = some x → x.del = false → ∃ p, mapping ys i = some p ∧ ys[p]? = some x)
      ∧ (∀ i x, xs[i]? = some x → x.del = true → mapping ys i = none)
      ∧ (∀ i, xs.length ≤ i → mapping ys i = none) := by
  obtain ⟨ys, a, _, b, c, d, e⟩ := recalculate_spec orig xs h hf
  exact ⟨ys, a, b, c, d, e⟩

/-- non-vacuity: convert local 3 and local 2 to imports (in that order), delete the added import 5 and the local 4 -/
example : (reorganise 2 [⟨0, true, false, 10, 0⟩, ⟨1, true, true, 11, 1⟩, ⟨2, true, false, 12, 4⟩, ⟨3, true, false, 13, 3⟩,
      ⟨4, false, true, 14, 0⟩, ⟨5, true, true, 15, 2⟩, ⟨6, false, false, 16, 0⟩]).map (·.uid) = [10, 12, 13, 16] := by decide
example : (orderImports [⟨0, true, false, 10, 0⟩, ⟨2, true, false, 12, 4⟩, ⟨3, true, false, 13, 3⟩, ⟨6, false, false, 16, 0⟩]).map (·.uid)
    = [10, 13, 12, 16] := by decide

end Orca.Reindex

namespace Orca.Gen

/-- `refers_to_func` recognises exactly the operators with a function immediate, and `update_fn_instr` rewrites it -/
theorem c06_func_ref_ops_complete : ∀ op : Op, wirmRefersFunc op = specFunc op
    ∧ wirmUpdatedFuncFields op = (if specFunc op then 1 else 0) := by
  intro op; cases op <;> exact ⟨rfl, rfl⟩

end Orca.Gen

namespace Orca.Edit
open Orca.Reindex

/-- **The import section order agrees with the index space.** After the first step of `encode_internal`, the
    positions of a vector are the indices of the encoded module: the import section's entries of the kind followed by
    the emitted locals is, entity by entity, the vector itself. -/
theorem c06_index_space_is_vector (x : Space) (I : List ImpEntry) (sp : Sp) (inv : SpaceInv x I sp) :
    ∃ ys, remap x = some ys ∧ impUids I sp ++ emittedLocals ys = ys.map (·.uid) ∧ (∀ y ∈ ys, y.del = false) := by
  obtain ⟨ys, h, R⟩ := remap_spec x I sp inv
  exact ⟨ys, h, R.out, R.noDeleted⟩

/-- **Every reference designates the entity the caller's id designated.** `encode` either succeeds — then every
    emitted reference (calls, tail calls, `ref.func` in code, global initialisers, element expressions and table
    initialisers, function exports, element function lists, references inside injected code, the start function)
    designates, in the index spaces of the encoded module, the live entity that its stored id designated — or fails
    loudly, and then some stored reference designated a deleted entity. -/
theorem c06_encode_refs (s : St) (hf : SpaceInv s.f s.imports .F) (hg : SpaceInv s.g s.imports .G)
    (hm : SpaceInv s.m s.imports .M) :
    (∃ s' F G M res st, encode s = (s', Ret.encoded F G M res st)
        ∧ (∀ r' ∈ res ++ st.toList, ∃ r ∈ allRefs s, r'.site = r.site ∧ r'.sp = r.sp
            ∧ ∃ u, PointsTo s r u ∧ designated F G M r' = some u))
    ∨ (∃ s' why, encode s = (s', Ret.panic why) ∧ ∃ r ∈ allRefs s, Dangling s r) :=
  encode_spec s hf hg hm

/-- **a reported id is new.** With stored ids equal to positions (`IdsFresh`, a clause of the state invariant of every state reached
    from a parsed module before an encode), the id reported for an added function - the length of the vector - is held by no entity of
    the space, live or deleted (the `edit` family judges this on the crate: signature `F-returned-id-already-in-use`). -/
theorem c06_reported_id_is_new (s : St) (hf : IdsFresh s.f.items) (it : Item) (hit : it ∈ s.f.items) :
    it.id ≠ s.f.items.length := by
  obtain ⟨i, hi⟩ := List.mem_iff_getElem?.mp hit
  have hid := hf i it hi
  have hlt : i < s.f.items.length := by
    rcases List.getElem?_eq_some_iff.mp hi with ⟨h, _⟩
    exact h
  omega

/-- the ids reported by the function additions are the positions the functions are stored at -/
theorem c06_added_function_ids (s : St) (uid : Nat) (sites : List Ref) :
    (addImportFunc s uid).2 = Ret.id2 s.f.items.length s.imports.length
    ∧ (addLocalFunc s uid sites).2 = Ret.id s.f.items.length :=
  ⟨(addImportFunc_spec s uid).1, (addLocalFunc_spec s uid sites).1⟩

/-- **the invariant needs no per-case check.** What the parser builds satisfies it (a decidable check on the initial state),
    and every operation of the edit API except `encode` preserves it, whatever it reports. -/
theorem c06_invariant_is_inductive (s : St) (op : Op) (hop : op ≠ .encode) (h : StInv s) : StInv (step s op).1 :=
  stInv_step s op hop h

theorem c06_invariant_of_parsed (s : St) (hb : stInvB s = true)
    (hf : ∀ it ∈ s.f.items, it.del = false) (hg : ∀ it ∈ s.g.items, it.del = false) (hm : ∀ it ∈ s.m.items, it.del = false) :
    StInv s := stInv_of_parsed s hb hf hg hm

/-- `c06_encode_refs` after **any** history of edits on a parsed module: no hypothesis on the state that is encoded -/
theorem c06_encode_refs_after_any_history (s0 : St) (h0 : StInv s0) (ops : List Op) (hn : NoEncode ops) :
    let s := (run s0 ops).1
    (∃ s' F G M res st, encode s = (s', Ret.encoded F G M res st)
        ∧ (∀ r' ∈ res ++ st.toList, ∃ r ∈ allRefs s, r'.site = r.site ∧ r'.sp = r.sp
            ∧ ∃ u, PointsTo s r u ∧ designated F G M r' = some u))
    ∨ (∃ s' why, encode s = (s', Ret.panic why) ∧ ∃ r ∈ allRefs s, Dangling s r) :=
  let h := spaceInv_after s0 h0 ops hn
  encode_spec _ h.1 h.2.1 h.2.2

/-- **every parsed module satisfies the invariant**: the state `Module::parse` builds — for any import list (kinds interleaved in any
    way) and any numbers of local functions, globals and memories, whatever the reference sites, exports and data are — satisfies it.
    No per-case check is involved. -/
theorem c06_invariant_of_every_parsed_module (I : List ImpEntry) (lf lg lm : List Nat) (rest : St) :
    StInv (parsedState I lf lg lm rest) := stInv_parsedState I lf lg lm rest

/-- … and the driver's check that the initial state of a generated case has that shape is sound -/
theorem c06_parsed_shape_check_sound (s : St) (h : parsedStateB s = true) : StInv s := stInv_of_parsedStateB s h

/-- `c06_encode_refs` for **every parsed module and every history**: no hypothesis that is not about the shape of the input -/
theorem c06_encode_refs_every_module_every_history (I : List ImpEntry) (lf lg lm : List Nat) (rest : St) (ops : List Op) (hn : NoEncode ops) :
    let s := (run (parsedState I lf lg lm rest) ops).1
    (∃ s' F G M res st, encode s = (s', Ret.encoded F G M res st)
        ∧ (∀ r' ∈ res ++ st.toList, ∃ r ∈ allRefs s, r'.site = r.site ∧ r'.sp = r.sp
            ∧ ∃ u, PointsTo s r u ∧ designated F G M r' = some u))
    ∨ (∃ s' why, encode s = (s', Ret.panic why) ∧ ∃ r ∈ allRefs s, Dangling s r) :=
  c06_encode_refs_after_any_history _ (stInv_parsedState I lf lg lm rest) ops hn

/-- non-vacuity: a table import between two function imports, one local function -/
example : (parsedState [⟨some Sp.F, false, 1⟩, ⟨none, false, 2⟩, ⟨some Sp.F, false, 3⟩, ⟨some Sp.G, false, 4⟩] [5] [] [] {}).f.items
    = [⟨0, true, false, 1, 0⟩, ⟨1, true, false, 3, 2⟩, ⟨2, false, false, 5, 0⟩] := by decide

/-- **the id reported by `add_import_func` designates the added import — in the encoded module, after any later history** that
    neither deletes it nor replaces it by a built function (and does not encode). -/
theorem c06_added_import_designates (s0 : St) (h0 : StInv s0) (uid : Nat) (ops : List Op)
    (hs : ∀ o ∈ ops, o ≠ .encode ∧ o ≠ .deleteFunc s0.f.items.length ∧ ∀ u c, o ≠ .replaceImport s0.imports.length u c) :
    let n := (s0.space .F).items.length
    let s := (run (step s0 (.addImportFunc uid)).1 ops).1
    reportedId (step s0 (.addImportFunc uid)).2 = some n
    ∧ ((∃ s' F G M res st, encode s = (s', Ret.encoded F G M res st)
        ∧ (∀ r' ∈ res ++ st.toList, ∃ r ∈ allRefs s, r'.site = r.site ∧ r'.sp = r.sp
            ∧ (∃ u, PointsTo s r u ∧ designated F G M r' = some u)
            ∧ (r.sp = .F → r.idx = n → designated F G M r' = some uid)))
      ∨ (∃ s' why, encode s = (s', Ret.panic why) ∧ ∃ r ∈ allRefs s, Dangling s r)) := by
  refine added_id_designates s0 h0 (.addImportFunc uid) .F uid rfl ops ?_
  intro x hx o ho
  obtain ⟨a, b, c⟩ := hs o ho
  have hxi : x.imp = true ∧ x.impId = s0.imports.length := by
    simp [step, addImportFunc, addImport, St.space, St.setSpace, Space.push, mkItem] at hx
    rw [← hx]; exact ⟨rfl, rfl⟩
  show SparesF _ x o
  cases o with
  | deleteFunc i => exact fun h => b (by simp only [St.space] at h ⊢; rw [h])
  | localToImport i u => exact .inr hxi.1
  | replaceImport k u c' => exact .inr (fun h => c u c' (by rw [← h, hxi.2]))
  | encode => exact absurd rfl a
  | _ => exact True.intro

/-- **an id keeps designating its function through every operation that does not address it** (`SparesF`: deleting it, converting
    it, replacing the import it carries), for every history: the frame the end-to-end statements of C10, C11 and C12 rest on -/
theorem c06_ids_are_stable (s0 : St) (h0 : StInv s0) (j : Nat) (x : Item) (hx : s0.f.items[j]? = some x)
    (ops : List Op) (hs : SparedBy j x ops) :
    let s := (run s0 ops).1
    (∃ s' F G M res st, encode s = (s', Ret.encoded F G M res st)
        ∧ (∀ r' ∈ res ++ st.toList, ∃ r ∈ allRefs s, r'.site = r.site ∧ r'.sp = r.sp
            ∧ (∃ u, PointsTo s r u ∧ designated F G M r' = some u)
            ∧ (r.sp = .F → r.idx = j → designated F G M r' = some x.uid)))
    ∨ (∃ s' why, encode s = (s', Ret.panic why) ∧ ∃ r ∈ allRefs s, Dangling s r) :=
  encode_redirects s0 h0 j x hx ops hs

/-- **the model was written against these uses of the function map** (`section:map:how`, in source order): resolution of
    special modes, the start function (stored back), table initialisers, global initialisers (`ref.func`), function exports,
    element function lists and element expressions / offsets, the code loop (operators and every injected list), data offsets,
    the function-keyed names. A use that appears, disappears or moves to another section of the encoder makes this fail: the
    clauses of `fixAll` (in place / on the fly / raw) must then be reviewed. The helpers that take the maps are listed too. -/
theorem c06_function_map_uses_reviewed :
    Orca.Gen.mapUsesFunc = ["resolve-special:func:pass", "start:func:get", "tables:func:pass", "globals:func:pass", "exports:func:get", "elements:func:get", "elements:func:pass", "elements:func:pass", "code:func:pass", "code:func:pass", "code:func:pass", "code:func:pass", "code:func:use", "code:func:use", "data:func:pass", "names:func:get"]
    ∧ Orca.Gen.mapHelpers = ["fix_op_id_mapping:func+global+memory", "remap_const_expr:func+global+memory",
        "resolve_special_instrumentation:func+global+memory", "update_ids_and_encode:func+global+memory"] := by decide

end Orca.Edit

/-- **The tie to the source (regenerated on every run).** The control-and-call skeletons of the functions this property rests on:
    the re-indexing pass (`reorganise_generic`, `order_imports_generic`, `get_mapping_generic`, `recalculate_ids`) is what M1 was transcribed from. A step moved, an early exit, guard, call or assignment added or removed breaks this obligation; renaming, comments and
    formatting do not. -/
theorem c06_reindexing_code_reviewed :
    Orca.Gen.ApiOutline.reorganise_generic = Orca.ApiOutlineSpec.reorganise_generic
    ∧ Orca.Gen.ApiOutline.order_imports_generic = Orca.ApiOutlineSpec.order_imports_generic
    ∧ Orca.Gen.ApiOutline.get_mapping_generic = Orca.ApiOutlineSpec.get_mapping_generic
    ∧ Orca.Gen.ApiOutline.recalculate_ids = Orca.ApiOutlineSpec.recalculate_ids :=
  ⟨rfl, rfl, rfl, rfl⟩
