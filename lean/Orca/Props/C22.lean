import Orca.Gen.ApiOutline
import Orca.Model.ApiOutlineSpec
import Orca.Lemmas.SpecialFlat
import Orca.Gen.ResolverOutline
import Orca.Model.ResolverOutlineSpec
import Orca.Lemmas.StackSpec
import Orca.Lemmas.ApiPlan
/-!
# C22 — special-mode injections are never silently lost

Model: `Orca.Lower` (M3). Every public injection path ends in one of the `ApiOp`s (`inject` for iterators and
`FunctionModifier::inject`, `injectAtRaw` for `FunctionModifier::inject_at`, `emptyBlockAlt`). The theorems say that
each of them either marks the function for `resolve_special_instrumentation` or rejects the call. That a marked
injection then reaches the encoded module is proved for every body whose only instrumentation is that injection
(`c22_block_entry_reaches_output`, `c22_block_exit_reaches_output`, `c22_semantic_after_reaches_output`,
`c21_block_alt_region` for block alternates: the probe is in the encoded function, at the place the mode names, whatever
the nesting around, inside and behind the construct) and checked per case by the correspondence oracle for plans that
combine injections (every probe id must appear in the output unless the plan itself removes the construct), with one
known finding (F15: semantic-after on a branch to the function label).
-/
namespace Orca.Lower

/-- an accepted special-mode injection at an instruction marks the function for resolution -/
theorem c22_inject_marks (f f' : Func) (idx : Nat) (t : Tok) (x : Instr) (hx : f.body[idx]? = some x) (hf : f.fmode = none)
    (hm : x.mode = some .semanticAfter ∨ x.mode = some .blockEntry ∨ x.mode = some .blockExit ∨ x.mode = some .blockAlt)
    (h : apply f (.inject idx t) = some f') : f'.hasSpecial = true :=
  inject_special_marks f f' idx t x hx hf hm h

/-- … also through `FunctionModifier::inject_at` (the path that used to drop the mark, F16) -/
theorem c22_inject_at_marks (f f' : Func) (idx : Nat) (m : Mode) (t : Tok)
    (hm : m = .semanticAfter ∨ m = .blockEntry ∨ m = .blockExit ∨ m = .blockAlt)
    (h : apply f (.injectAtRaw idx m t) = some f') : f'.hasSpecial = true :=
  injectAt_special_marks f f' idx m t hm h

/-- … and through `add_instr_at` called directly on a function modifier -/
theorem c22_add_instr_at_marks (f f' : Func) (idx : Nat) (t : Tok) (x : Instr) (hx : f.body[idx]? = some x)
    (hm : x.mode = some .semanticAfter ∨ x.mode = some .blockEntry ∨ x.mode = some .blockExit ∨ x.mode = some .blockAlt)
    (h : apply f (.addInstrAt idx t) = some f') : f'.hasSpecial = true :=
  addInstrAt_special_marks f f' idx t x hx hm h

/-- function entry / exit injections are recorded in the function-level list and mark the function -/
theorem c22_function_level_marks (f f' : Func) (idx : Nat) (t : Tok) (fm : FMode) (hf : f.fmode = some fm)
    (h : apply f (.inject idx t) = some f') :
    f'.hasSpecial = true ∧ (fm = .entry → f'.entry = f.entry ++ [t]) ∧ (fm = .exit → f'.exit = f.exit ++ [t]) :=
  funcLevel_inject_marks f f' idx t fm hf h

theorem c22_empty_block_alt_marks (f f' : Func) (idx : Nat) (h : apply f (.emptyBlockAlt idx) = some f') :
    f'.hasSpecial = true :=
  emptyBlockAlt_marks f f' idx h

/-- an injection that cannot be honoured (block modes on a non-block opcode, semantic-after on an opcode that is
    neither block-like nor a branch) is rejected at the call -/
theorem c22_reject_is_loud (f : Func) (idx : Nat) (t : Tok) (x : Instr) (hx : f.body[idx]? = some x)
    (hf : f.fmode = none) (hk : x.kind.isBlockStyle = false)
    (hm : x.mode = some .blockEntry ∨ x.mode = some .blockExit ∨ x.mode = some .blockAlt
          ∨ (x.mode = some .semanticAfter ∧ x.kind.isBranching = false)) :
    apply f (.inject idx t) = none :=
  special_rejected_on_other_opcode f idx t x hx hf hk hm

/-- selecting an instruction-level mode leaves the function-level mode (F12): a later injection goes to the instruction -/
theorem c22_instruction_mode_leaves_function_mode (f f' : Func) (idx : Nat) (m : Mode)
    (h : apply f (.setMode idx m) = some f') : f'.fmode = none := by
  simp only [apply] at h
  cases hx : f.body[idx]? with
  | none => simp [hx] at h
  | some x => simp only [hx, Option.some.injEq] at h; subst h; rfl

/-- non-vacuity and regression for F16 / F12: a block-entry probe through `inject_at`, an entry probe, then a before
    probe elsewhere -/
example :
    let f0 : Func := { body := [⟨"block", .block, none, [], [], none, [], [], [], none⟩, ⟨"nop", .other, none, [], [], none, [], [], [], none⟩,
                               ⟨"end", .end_, none, [], [], none, [], [], [], none⟩, ⟨"end", .end_, none, [], [], none, [], [], [], none⟩] }
    ((applyAll f0 [.injectAtRaw 0 .blockEntry "p", .setFMode .entry, .inject 0 "e", .setMode 1 .before, .inject 1 "b"]).map
        (fun f => (lower f).1)) = some ["e", "block", "p", "b", "nop", "end", "end"] := by decide

/-- **a block-entry injection reaches the output**, right behind the opening instruction — every body, any nesting -/
theorem c22_block_entry_reaches_output (f : Func) (pre rest : List Instr) (sel : Instr) (pr : List Tok)
    (hbody : f.body = pre ++ sel :: rest) (hrne : rest ≠ [])
    (hsp : f.hasSpecial = true) (hentry : f.entry = []) (hexit : f.exit = [])
    (hpre : ∀ x ∈ pre, Clean x) (hrest : ∀ x ∈ rest, Clean x) (hsel : OnlyEntry sel pr)
    (hk : sel.kind = .block ∨ sel.kind = .loop ∨ sel.kind = .if_)
    (n n2 : Nat) (hd1 : depthAfter pre 1 = some n) (hd2 : depthAfter rest (n + 1) = some n2) :
    lower f = (toks pre ++ [sel.tok] ++ pr ++ toks rest, f.added) :=
  blockEntry_placed f pre rest sel pr hbody hrne hsp hentry hexit hpre hrest hsel hk n n2 hd1 hd2

/-- **a block-exit injection on a `block` / `loop` reaches the output**, in front of the construct's matching `end` -/
theorem c22_block_exit_reaches_output (f : Func) (pre region post : List Instr) (sel endI : Instr) (pr : List Tok)
    (hbody : f.body = pre ++ sel :: region ++ endI :: post) (hpne : post ≠ [])
    (hsp : f.hasSpecial = true) (hentry : f.entry = []) (hexit : f.exit = [])
    (hpre : ∀ x ∈ pre, Clean x) (hreg : ∀ x ∈ region, Clean x) (hend : Clean endI) (hpost : ∀ x ∈ post, Clean x)
    (hsel : OnlyExit sel pr) (hk : sel.kind = .block ∨ sel.kind = .loop) (hendk : endI.kind = .end_)
    (n n2 : Nat) (hd1 : depthAfter pre 1 = some n) (hd2 : depthAfter region 0 = some 0) (hd3 : depthAfter post n = some n2) :
    lower f = (toks pre ++ [sel.tok] ++ toks region ++ pr ++ [endI.tok] ++ toks post, f.added) :=
  blockExit_placed f pre region post sel endI pr hbody hpne hsp hentry hexit hpre hreg hend hpost hsel hk hendk n n2 hd1 hd2 hd3

/-- **a semantic-after injection on a `block` / `loop` / `if` reaches the output**, behind the construct's matching `end` -/
theorem c22_semantic_after_reaches_output (f : Func) (pre region post : List Instr) (sel endI : Instr) (pr : List Tok)
    (hbody : f.body = pre ++ sel :: region ++ endI :: post) (hpne : post ≠ [])
    (hsp : f.hasSpecial = true) (hentry : f.entry = []) (hexit : f.exit = [])
    (hpre : ∀ x ∈ pre, Clean x) (hreg : ∀ x ∈ region, Clean x) (hend : Clean endI) (hpost : ∀ x ∈ post, Clean x)
    (hsel : OnlySemAfter sel pr) (hk : sel.kind = .block ∨ sel.kind = .loop ∨ sel.kind = .if_) (hendk : endI.kind = .end_)
    (n n2 : Nat) (hd1 : depthAfter pre 1 = some n) (hd2 : depthAfter region 0 = some 0) (hd3 : depthAfter post n = some n2) :
    lower f = (toks pre ++ [sel.tok] ++ toks region ++ [endI.tok] ++ pr ++ toks post, f.added) :=
  semAfter_placed f pre region post sel endI pr hbody hpne hsp hentry hexit hpre hreg hend hpost hsel hk hendk n n2 hd1 hd2 hd3

/-- … on an `else`: block exit in front of, semantic-after behind the `end` of the `if` -/
theorem c22_else_probes_reach_output (f : Func) (pre region post : List Instr) (sel endI : Instr) (pr : List Tok)
    (hbody : f.body = pre ++ sel :: region ++ endI :: post) (hpne : post ≠ [])
    (hsp : f.hasSpecial = true) (hentry : f.entry = []) (hexit : f.exit = [])
    (hpre : ∀ x ∈ pre, Clean x) (hreg : ∀ x ∈ region, Clean x) (hend : Clean endI) (hpost : ∀ x ∈ post, Clean x)
    (hk : sel.kind = .else_) (hendk : endI.kind = .end_)
    (n n2 : Nat) (hd1 : depthAfter pre 1 = some (n + 1)) (hd2 : depthAfter region 0 = some 0) (hd3 : depthAfter post n = some n2) :
    (OnlyExit sel pr → lower f = (toks pre ++ [sel.tok] ++ toks region ++ pr ++ [endI.tok] ++ toks post, f.added))
    ∧ (OnlySemAfter sel pr → lower f = (toks pre ++ [sel.tok] ++ toks region ++ [endI.tok] ++ pr ++ toks post, f.added)) :=
  ⟨fun hsel => blockExit_placed_else f pre region post sel endI pr hbody hpne hsp hentry hexit hpre hreg hend hpost hsel hk hendk n n2 hd1 hd2 hd3,
   fun hsel => semAfter_placed_else f pre region post sel endI pr hbody hpne hsp hentry hexit hpre hreg hend hpost hsel hk hendk n n2 hd1 hd2 hd3⟩

/-! non-vacuity (decided): a loop nested in a block, probe `P` in each of the three modes on the loop -/
private def mkI (t : Tok) (k : Kind) : Instr := { tok := t, kind := k }
set_option maxRecDepth 8000 in
example :
    let body (sel : Instr) : List Instr :=
      [mkI "a" .other, mkI "block" .block, sel, mkI "b" .other, mkI "if" .if_, mkI "c" .other, mkI "end" .end_, mkI "end" .end_,
       mkI "d" .other, mkI "end" .end_, mkI "end" .end_]
    let go (sel : Instr) := (lower { body := body sel, hasSpecial := true }).1
    go { mkI "loop" .loop with blockEntry := ["P"] } = ["a", "block", "loop", "P", "b", "if", "c", "end", "end", "d", "end", "end"]
    ∧ go { mkI "loop" .loop with blockExit := ["P"] } = ["a", "block", "loop", "b", "if", "c", "end", "P", "end", "d", "end", "end"]
    ∧ go { mkI "loop" .loop with semAfter := ["P"] } = ["a", "block", "loop", "b", "if", "c", "end", "end", "P", "d", "end", "end"] := by
  decide

/-! ### every plan of block-level probes -/

/-- **The resolver is a stack machine.** For every function body and every plan that uses `before` / `after` anywhere and
    block-entry / block-exit / semantic-after on constructs — any number of probes, any nesting, several on one construct — the
    depth-keyed tables of `resolve_special_instrumentation` behave as a stack of frames, one per open construct, and the encoded body
    is the one the stack machine `specRun` defines: entry code behind the opener (behind its `after` code), exit code in front of the
    matching `end` (for an `if`: in front of its `else`, or of its `end` when there is none), semantic-after code behind the
    matching `end`, everything in injection order; no local is added. (`specRun … = some out` says the body is well nested.) -/
theorem c22_resolver_is_a_stack_machine (f : Func) (hsp : f.hasSpecial = true) (hentry : f.entry = []) (hexit : f.exit = [])
    (hp : ∀ x ∈ f.body, Plain x) (out : List Tok) (hs : specRun (f.body.length - 1) 0 [{}] f.body = some out) :
    lower f = (out, f.added) :=
  lower_eq_spec f hsp hentry hexit hp out hs

/-- **…and it loses nothing**: every token of every `before` list and of every block-entry, block-exit and semantic-after list on a
    construct is in the encoded function — the positive half of C22 for every plan in this scope, not only single probes. -/
theorem c22_no_block_level_probe_is_lost (f : Func) (hsp : f.hasSpecial = true) (hentry : f.entry = []) (hexit : f.exit = [])
    (hp : ∀ x ∈ f.body, Plain x) (out : List Tok) (hs : specRun (f.body.length - 1) 0 [{}] f.body = some out) :
    ∀ x ∈ f.body, (∀ t ∈ x.before, t ∈ (lower f).1)
      ∧ (x.kind.isBlockStyle = true → ∀ t, t ∈ x.blockEntry ∨ t ∈ x.blockExit ∨ t ∈ x.semAfter → t ∈ (lower f).1) :=
  lower_keeps_all f hsp hentry hexit hp out hs

/-! non-vacuity (decided): five probes of three modes on a block, an `if` and its `else`, nested; the stack machine accepts the body
    and says where each goes -/
set_option maxRecDepth 8000 in
example :
    let body : List Instr :=
      [{ mkI "block" .block with blockEntry := ["E1"], blockExit := ["X1"], semAfter := ["A1"] },
       { mkI "if" .if_ with blockExit := ["X2"], before := ["B"] },
       mkI "c" .other,
       { mkI "else" .else_ with blockEntry := ["E2"], blockExit := ["X3"] },
       mkI "d" .other, mkI "end" .end_, mkI "end" .end_, mkI "end" .end_]
    specRun 7 0 [{}] body
      = some ["block", "E1", "B", "if", "c", "X2", "else", "E2", "d", "X3", "end", "X1", "end", "A1", "end"]
    ∧ (lower { body := body, hasSpecial := true }).1
      = ["block", "E1", "B", "if", "c", "X2", "else", "E2", "d", "X3", "end", "X1", "end", "A1", "end"] := by
  decide

/-! ### every plan: the complete machine -/

/-- **The whole of `resolve_special_instrumentation` is a stack machine.** For every function body and every plan built from `before` /
    `after` code anywhere, block-entry / block-exit / semantic-after probes and block alternates on any constructs, semantic-after
    probes on any branches (the flag scheme: a fresh i32 local set in front of the branch and cleared behind it, the probe guarded by it
    behind the `end` of every construct the branch can leave to) and function entry / exit code — any number of each, in any
    combination —, the encoded body is what the machine `specRunF` (Lemmas/StackFull.lean) computes, and the lowering adds exactly the
    flag locals the machine counts. Instruction-level alternates are inside too: the resolver leaves them alone (a removed region empties
    them, a block alternate on the same opener is appended to them) and the machine writes them in place of the instruction. -/
theorem c22_resolver_is_the_complete_machine (f : Func) (hsp : f.hasSpecial = true) (hp : ∀ x ∈ f.body, PlainF x) (out : List Tok)
    (nlf : Nat) (hs : specRunF (f.body.length - 1) (entryToks f) f.exit 0 [{}] none f.nlocals f.body = some (out, nlf)) :
    lower f = (out, f.added + (nlf - f.nlocals)) :=
  lower_eq_specF f hsp hp out nlf hs

/-- **…from the API down**: any parsed function, **any** sequence of injection-API calls — the API itself keeps every plan inside the
    machine's scope (it panics on what would leave it), so what is encoded is what the machine says. -/
theorem c22_every_api_plan_lowers_as_the_machine (f0 f : Func) (ops : List ApiOp) (h0 : ∀ x ∈ f0.body, Pristine x)
    (ha : applyAll f0 ops = some f) (hsp : f.hasSpecial = true) (out : List Tok) (nlf : Nat)
    (hs : specRunF (f.body.length - 1) (entryToks f) f.exit 0 [{}] none f.nlocals f.body = some (out, nlf)) :
    lower f = (out, f.added + (nlf - f.nlocals)) :=
  api_plan_lowers_as_machine f0 f ops h0 ha hsp out nlf hs

/-- **…with no side condition**: the machine accepts every well-nested body (`okNest`: every `else` sits in a construct, every `end`
    closes something, the function body's frame is closed by the last instruction and by no earlier one), whatever the plan and the
    removal state; hence for every API history on a well-nested function the encoded body *is* the machine's output. -/
theorem c22_lowering_is_the_machine_on_every_well_nested_body (f0 f : Func) (ops : List ApiOp) (h0 : ∀ x ∈ f0.body, Pristine x)
    (ha : applyAll f0 ops = some f) (hsp : f.hasSpecial = true) (hn : okNest 1 f.body = true) :
    ∃ out nlf, specRunF (f.body.length - 1) (entryToks f) f.exit 0 [{}] none f.nlocals f.body = some (out, nlf)
      ∧ lower f = (out, f.added + (nlf - f.nlocals)) :=
  lower_is_machine f hsp (fun x hx => applyAll_inScope ops f0 f (fun y hy => (h0 y hy).inScope) ha x hx) hn

/-- **no function-level probe is lost, whatever else the plan contains** -/
theorem c22_no_function_level_probe_is_lost (f : Func) (hsp : f.hasSpecial = true) (hp : ∀ x ∈ f.body, PlainF x) (out : List Tok)
    (nlf : Nat) (hne : f.body ≠ [])
    (hs : specRunF (f.body.length - 1) (entryToks f) f.exit 0 [{}] none f.nlocals f.body = some (out, nlf)) :
    (∀ t ∈ f.entry, t ∈ (lower f).1) ∧ (∀ t ∈ f.exit, t ∈ (lower f).1) :=
  lower_keeps_fn f hsp hp out nlf hne hs

/-- **Nothing is lost, for every plan without block alternates**: each instruction's `before` code, each construct's block-entry,
    block-exit and semantic-after code and each branch's semantic-after code is in the encoded function (`KeptAll`, Lemmas/StackFull.lean)
    — with exactly one exception, which the statement names: an unconditional branch or `br_table` all of whose targets are the
    function's own label (finding F15, recorded in known-findings.txt). With `c22_no_function_level_probe_is_lost` this is the positive
    half of C22 for every such plan; inside a region removed by a block alternate probes are discarded on purpose (C21). -/
theorem c22_nothing_is_lost_except_F15 (f : Func) (hsp : f.hasSpecial = true) (hp : ∀ x ∈ f.body, PlainF x)
    (hna : ∀ x ∈ f.body, x.blockAlt = none) (out : List Tok) (nlf : Nat)
    (hs : specRunF (f.body.length - 1) (entryToks f) f.exit 0 [{}] none f.nlocals f.body = some (out, nlf)) :
    KeptAll 0 f.body (lower f).1 :=
  lower_keeps_all_F f hsp hp hna out nlf hs

/-- what `KeptAll` says about one instruction at nesting depth `d` (unfolded, so that the statement above can be read here) -/
theorem c22_kept_one_reads (d : Nat) (x : Instr) (out : List Tok) :
    keptOne d x out ↔
      ((∀ t ∈ x.before, t ∈ out)
       ∧ (x.kind.isBlockStyle = true → ∀ t, t ∈ x.blockEntry ∨ t ∈ x.blockExit ∨ t ∈ x.semAfter → t ∈ out)
       ∧ (flaggedBranch x = true → ((∃ n, x.kind = .brIf n) ∨ ∃ t ∈ branchTargets x.kind, t < d) → ∀ t ∈ x.semAfter, t ∈ out)) :=
  Iff.rfl

/-! non-vacuity (decided): entry and exit code, a block with entry and semantic-after probes, a loop replaced by a block alternate, a
    `br_if` with a semantic-after probe (flag local 3), a `return` -/
set_option maxRecDepth 20000 in
example :
    let body : List Instr :=
      [{ mkI "block" .block with blockEntry := ["E1"], semAfter := ["A1"] },
       { mkI "loop" .loop with blockAlt := some ["R"] }, { mkI "x" .other with before := ["Bx"] }, mkI "end" .end_,
       { mkI "br_if 0" (.brIf 0) with semAfter := ["S"] },
       mkI "return" .exitLike,
       mkI "end" .end_, mkI "end" .end_]
    let f : Func := { body := body, hasSpecial := true, entry := ["EN"], exit := ["EX"], nlocals := 3 }
    specRunF 7 (entryToks f) f.exit 0 [{}] none 3 body
      = some (["EN", "block:functype", "block", "E1", "R", "Bx", "i32.const:1", "local.set:3", "br_if 0", "i32.const:0", "local.set:3", "S",
               "EX", "return", "end", "local.get:3", "if", "S", "end", "A1", "end", "EX", "end"], 4)
    ∧ lower f = (["EN", "block:functype", "block", "E1", "R", "Bx", "i32.const:1", "local.set:3", "br_if 0", "i32.const:0", "local.set:3", "S",
               "EX", "return", "end", "local.get:3", "if", "S", "end", "A1", "end", "EX", "end"], 1) := by
  decide

/-! non-vacuity (decided): instruction-level alternates next to special modes — an opener that carries both an alternate `A` and a block
    alternate `R` (the code appends: `A R`), a `nop` replaced by `N1 N2` behind its `before` code, an instruction replaced by nothing
    inside a block with an exit probe; entry code in front -/
set_option maxRecDepth 20000 in
example :
    let body : List Instr :=
      [{ mkI "block" .block with alt := some ["A"], blockAlt := some ["R"] }, mkI "x" .other, mkI "end" .end_,
       { mkI "nop" .other with alt := some ["N1", "N2"], before := ["B"] },
       { mkI "block" .block with blockExit := ["X"] }, { mkI "y" .other with alt := some [] }, mkI "end" .end_, mkI "end" .end_]
    let f : Func := { body := body, hasSpecial := true, entry := ["EN"] }
    specRunF 7 (entryToks f) f.exit 0 [{}] none 0 body = some (["EN", "A", "R", "B", "N1", "N2", "block", "X", "end", "end"], 0)
    ∧ lower f = (["EN", "A", "R", "B", "N1", "N2", "block", "X", "end", "end"], 0) := by
  decide

end Orca.Lower

/-- **The tie to the source (regenerated on every run).** The skeleton of the driver `resolve_special_instrumentation` — the order of
    the steps of one iteration (function entry, function exit, the `match` on the operator with its removal paths and their
    `continue`s, then the three special lists under `has_instr()`, each followed by its `clear_instr_at`) — and of `resolve_bodies` are
    what `resolveSpecial` / `rstep` / `resolveBodies` were transcribed from. -/
theorem c22_resolver_code_reviewed :
    Orca.Gen.Outline.resolve_special_instrumentation = Orca.Lower.Outline.resolve_special_instrumentation
    ∧ Orca.Gen.Outline.resolve_bodies = Orca.Lower.Outline.resolve_bodies :=
  ⟨rfl, rfl⟩

/-- **The tie to the source (regenerated on every run).** Where an injection is accepted and marked (`FuncInstrFlag::add_instr` / `has_instr`, `InstrumentationFlag::add_instr`, the operator classes `is_block_style_op` / `is_branching_op`, `check_special_is_resolved`, `Instruction::empty_block_alt`, src/ir/types.rs), word for word. `c22_inject_marks`, `c22_function_level_marks`, `c22_empty_block_alt_marks` and `c22_reject_is_loud` are statements about M3's transcription of exactly these functions. -/
theorem c22_marking_code_reviewed :
    Orca.Gen.ApiOutline.func_flag_add_instr = Orca.ApiOutlineSpec.func_flag_add_instr
    ∧ Orca.Gen.ApiOutline.func_flag_has_instr = Orca.ApiOutlineSpec.func_flag_has_instr
    ∧ Orca.Gen.ApiOutline.flag_add_instr = Orca.ApiOutlineSpec.flag_add_instr
    ∧ Orca.Gen.ApiOutline.flag_is_block_style_op = Orca.ApiOutlineSpec.flag_is_block_style_op
    ∧ Orca.Gen.ApiOutline.flag_is_branching_op = Orca.ApiOutlineSpec.flag_is_branching_op
    ∧ Orca.Gen.ApiOutline.flag_check_special_is_resolved = Orca.ApiOutlineSpec.flag_check_special_is_resolved
    ∧ Orca.Gen.ApiOutline.instruction_empty_block_alt = Orca.ApiOutlineSpec.instruction_empty_block_alt :=
  ⟨rfl, rfl, rfl, rfl, rfl, rfl, rfl⟩

/-- **The tie to the source (regenerated on every run).** Selecting a function-level mode, emptying a block alternate and `LocalFunction::add_instr` (the place where a special mode marks its function for the resolver), word for word, for the function modifier and the module iterator. -/
theorem c22_location_api_code_reviewed :
    Orca.Gen.ApiOutline.modifier_set_func_instrument_mode = Orca.ApiOutlineSpec.modifier_set_func_instrument_mode
    ∧ Orca.Gen.ApiOutline.modifier_empty_block_alt_at = Orca.ApiOutlineSpec.modifier_empty_block_alt_at
    ∧ Orca.Gen.ApiOutline.moditer_set_func_instrument_mode = Orca.ApiOutlineSpec.moditer_set_func_instrument_mode
    ∧ Orca.Gen.ApiOutline.moditer_empty_block_alt_at = Orca.ApiOutlineSpec.moditer_empty_block_alt_at
    ∧ Orca.Gen.ApiOutline.localfn_add_instr = Orca.ApiOutlineSpec.localfn_add_instr :=
  ⟨rfl, rfl, rfl, rfl, rfl⟩
