import Orca.Lemmas.Lower
/-!
# C22 — special-mode injections are never silently lost

Model: `Orca.Lower` (M3). Every public injection path ends in one of the `ApiOp`s (`inject` for iterators and
`FunctionModifier::inject`, `injectAtRaw` for `FunctionModifier::inject_at`, `emptyBlockAlt`). The theorems say that
each of them either marks the function for `resolve_special_instrumentation` or rejects the call; that the marked
injections then reach the encoded module is checked per case by the correspondence oracle (every probe id must
appear in the output unless the plan itself removes the construct), with one known finding (F15: a branch to the
function label).
-/
namespace Orca.Lower

/-- an accepted special-mode injection at an instruction marks the function for resolution -/
theorem c22_inject_marks (f f' : Func) (idx : Nat) (t : Tok) (x : Instr) (hx : f.body[idx]? = some x) (hf : f.fmode = none)
    (hm : x.mode = some .semanticAfter ∨ x.mode = some .blockEntry ∨ x.mode = some .blockExit ∨ x.mode = some .blockAlt)
    (h : apply f (.inject idx t) = some f') : f'.hasSpecial = true :=
  inject_special_marks f f' idx t x hx hf hm h

/-- … also through `FunctionModifier::inject_at` (the path that used to drop the mark, F16) -/
theorem c22_inject_at_marks (f f' : Func) (idx : Nat) (m : Mode) (t : Tok)
    (hm : m = .semanticAfter ∨ m = .blockEntry ∨ m = .blockExit ∨ m = .blockAlt)
    (h : apply f (.injectAtRaw idx m t) = some f') : f'.hasSpecial = true :=
  injectAt_special_marks f f' idx m t hm h

/-- function entry / exit injections are recorded in the function-level list and mark the function -/
theorem c22_function_level_marks (f f' : Func) (idx : Nat) (t : Tok) (fm : FMode) (hf : f.fmode = some fm)
    (h : apply f (.inject idx t) = some f') :
    f'.hasSpecial = true ∧ (fm = .entry → f'.entry = f.entry ++ [t]) ∧ (fm = .exit → f'.exit = f.exit ++ [t]) :=
  funcLevel_inject_marks f f' idx t fm hf h

theorem c22_empty_block_alt_marks (f f' : Func) (idx : Nat) (h : apply f (.emptyBlockAlt idx) = some f') :
    f'.hasSpecial = true :=
  emptyBlockAlt_marks f f' idx h

/-- an injection that cannot be honoured (block modes on a non-block opcode, semantic-after on an opcode that is
    neither block-like nor a branch) is rejected at the call -/
theorem c22_reject_is_loud (f : Func) (idx : Nat) (t : Tok) (x : Instr) (hx : f.body[idx]? = some x)
    (hf : f.fmode = none) (hk : x.kind.isBlockStyle = false)
    (hm : x.mode = some .blockEntry ∨ x.mode = some .blockExit ∨ x.mode = some .blockAlt
          ∨ (x.mode = some .semanticAfter ∧ x.kind.isBranching = false)) :
    apply f (.inject idx t) = none :=
  special_rejected_on_other_opcode f idx t x hx hf hk hm

/-- selecting an instruction-level mode leaves the function-level mode (F12): a later injection goes to the instruction -/
theorem c22_instruction_mode_leaves_function_mode (f f' : Func) (idx : Nat) (m : Mode)
    (h : apply f (.setMode idx m) = some f') : f'.fmode = none := by
  simp only [apply] at h
  cases hx : f.body[idx]? with
  | none => simp [hx] at h
  | some x => simp only [hx, Option.some.injEq] at h; subst h; rfl

/-- non-vacuity and regression for F16 / F12: a block-entry probe through `inject_at`, an entry probe, then a before
    probe elsewhere -/
example :
    let f0 : Func := { body := [⟨"block", .block, none, [], [], none, [], [], [], none⟩, ⟨"nop", .other, none, [], [], none, [], [], [], none⟩,
                               ⟨"end", .end_, none, [], [], none, [], [], [], none⟩, ⟨"end", .end_, none, [], [], none, [], [], [], none⟩] }
    ((applyAll f0 [.injectAtRaw 0 .blockEntry "p", .setFMode .entry, .inject 0 "e", .setMode 1 .before, .inject 1 "b"]).map
        (fun f => (lower f).1)) = some ["e", "block", "p", "b", "nop", "end", "end"] := by decide

end Orca.Lower
