import Orca.Lemmas.Helpers
import Orca.Model.HelperSpec
/-!
# C24 — opcode helpers emit exactly the named instruction

Model: `Orca.Gen.Helpers` is regenerated from /repo/src/opcode.rs on every run (translator/gen_helpers.py): for each
of the helpers of `Opcode` / `MacroOpcode` the `Operator` variant it injects, its parameter types, and for every field
of the variant the parameter and conversion that fill it. The specification is the committed dictionary
`Orca.Spec.denotes` (helper name ↦ instruction) and "the i-th parameter is the i-th immediate of the instruction
(wasmparser's declaration order), bit for bit".
-/
namespace Orca.Gen
open Orca.Helpers

/-- **Variant.** Every helper injects the instruction its name denotes. -/
theorem c24_variant : ∀ h : Helper, h.variant = Orca.Spec.denotes h := by
  intro h; cases h <;> rfl

/-- **Wiring.** For every helper: the injected variant has exactly as many immediates as the helper has parameters, the
    i-th immediate is filled from the i-th parameter, and the conversion used is one that applies to the parameter's type. -/
theorem c24_wired : ∀ h : Helper, h.wired = true := by
  intro h; cases h <;> rfl

/-- **Conversions.** Each conversion keeps the bit pattern: identity for `u32` / `i32` / `i64` parameters and id
    newtypes, `to_bits` for floats (NaN payloads included: the pattern is the value), two's-complement reinterpretation
    for `u32 as i32` / `u64 as i64`, whose result is moreover in the signed range. -/
theorem c24_conversions (c : Conv) (t : PTy) (n : Nat) (hfit : c.fits t = true) (hb : t.width ≠ 0 → n < 2 ^ t.width) :
    fieldBits c t (fieldVal c t n) = n :=
  fieldBits_fieldVal c t n hfit hb

theorem c24_unsigned_const_reinterprets (n : Nat) :
    (n < 2 ^ 32 → bitsOf 32 (fieldVal .asI32 .u32 n) = n
        ∧ -(2147483648 : Int) ≤ fieldVal .asI32 .u32 n ∧ fieldVal .asI32 .u32 n < 2147483648)
    ∧ (n < 2 ^ 64 → bitsOf 64 (fieldVal .asI64 .u64 n) = n
        ∧ -(9223372036854775808 : Int) ≤ fieldVal .asI64 .u64 n ∧ fieldVal .asI64 .u64 n < 9223372036854775808) := by
  constructor
  · intro h
    have r := toSigned_range 32 n (by decide) h
    exact ⟨bitsOf_toSigned 32 n (by decide) h, by simpa [fieldVal, signedField] using r.1, by simpa [fieldVal, signedField] using r.2⟩
  · intro h
    have r := toSigned_range 64 n (by decide) h
    exact ⟨bitsOf_toSigned 64 n (by decide) h, by simpa [fieldVal, signedField] using r.1, by simpa [fieldVal, signedField] using r.2⟩

theorem map_pairs_range {l : List Assign} {n : Nat}
    (h : l.map (fun a => (a.fieldPos, a.param)) = (List.range n).map (fun i => (i, i))) :
    l.length = n ∧ ∀ i (hi : i < l.length), (l[i]).param = i := by
  have hl : l.length = n := by simpa using congrArg List.length h
  refine ⟨hl, fun i hi => ?_⟩
  have hi' : i < n := hl ▸ hi
  have := congrArg (fun m => m[i]?) h
  simp only [List.getElem?_map, List.getElem?_eq_getElem hi, List.getElem?_range hi', Option.map_some, Option.some.injEq,
    Prod.mk.injEq] at this
  exact this.2

/-- **Exactness.** Calling helper `h` with arguments whose bit patterns are `args` (one per parameter, each within the
    width of its type) injects the instruction `denotes h` whose immediates, in order, carry exactly the patterns `args`. -/
theorem c24_exact (h : Helper) (args : List Nat) (hl : args.length = h.params.length)
    (hb : ∀ (i : Nat) (t : PTy) (n : Nat), h.params[i]? = some t → args[i]? = some n → t.width ≠ 0 → n < 2 ^ t.width) :
    (h.emit args).1 = Orca.Spec.denotes h
    ∧ (h.emit args).2.length = args.length
    ∧ ∀ i (hi : i < args.length), ∃ a v, h.wiring[i]? = some a ∧ (h.emit args).2[i]? = some (some v)
        ∧ h.bitsAt a v = some args[i] := by
  have hw := c24_wired h
  simp only [Helper.wired, Bool.and_eq_true, beq_iff_eq, List.all_eq_true] at hw
  obtain ⟨⟨hpairs, _⟩, hfits⟩ := hw
  obtain ⟨hlen, hparam⟩ := map_pairs_range hpairs
  refine ⟨c24_variant h, by simp [Helper.emit, hlen, hl], fun i hi => ?_⟩
  have hiw : i < h.wiring.length := by omega
  have hip : i < h.params.length := by omega
  have hpa : (h.wiring[i]).param = i := hparam i hiw
  have hmem : h.wiring[i] ∈ h.wiring := List.getElem_mem hiw
  have hfit := hfits _ hmem
  rw [hpa] at hfit
  simp only [List.getElem?_eq_getElem hip] at hfit
  refine ⟨h.wiring[i], fieldVal (h.wiring[i]).conv h.params[i] args[i], List.getElem?_eq_getElem hiw, ?_, ?_⟩
  · simp [Helper.emit, hiw, Helper.immOf, hpa, hip, hi]
  · simp only [Helper.bitsAt, hpa, List.getElem?_eq_getElem hip, Option.map_some]
    congr 1
    exact fieldBits_fieldVal _ _ _ hfit (hb i _ _ (List.getElem?_eq_getElem hip) (List.getElem?_eq_getElem hi))

/-- non-vacuity: `u32_const(0xFFFF_FFFE)` injects `i32.const -2`; `memory_copy(1, 0)` keeps destination and source apart;
    `f32_const` of a signalling-NaN pattern keeps it -/
example : Helper.h_u32_const.emit [4294967294] = (.I32Const, [some (-2)]) := by decide
example : Helper.h_memory_copy.emit [1, 0] = (.MemoryCopy, [some 1, some 0]) := by decide
example : Helper.h_f32_const.emit [0x7FA00001] = (.F32Const, [some 0x7FA00001]) := by decide
example : Helper.h_struct_get.emit [7, 3] = (.StructGet, [some 7, some 3]) := by decide

end Orca.Gen
