import Orca.Lemmas.Roundtrip
import Orca.Lemmas.Types
import Orca.Lemmas.Locals
import Orca.Props.C30
import Orca.Lemmas.Sections
/-!
# C02 — unmodified round trip preserves module content

`parse` keeps most payloads as wasmparser values and `encode` re-emits them through wasm-encoder's `RoundtripReencoder`
(instructions, tables, elements, tags, memories, imports, exports, data bytes: trusted, compared per case on the printed
text). What wirm converts itself is modelled, from tables regenerated from the source on every run:
value types (`Orca.Gen.ValTypes`), constant expressions (`Orca.Gen.ConstExpr`), the type section with its recursion
groups (M5), local declarations (M6), names (M13, C29), custom sections (M8, C28).
-/
namespace Orca.C02
open Orca.Gen

/-- **value types** in every position (parameters, results, locals, globals, fields, block results): parse followed by
    encode is the identity on the represented profile -/
theorem c02_valtype_roundtrip (v : VT) (h : represented v = true) : (fromVal v).bind toEnc = some v :=
  valtype_roundtrip v h

/-- **constant expressions** of globals and data offsets: every operator `eval` accepts is re-encoded as the same operator,
    through a conversion that undoes the one applied when parsing; with `c30_v128_exact` and `c30_float_bits` the payload
    bits are the input's -/
theorem c02_constexpr_roundtrip :
    evalTable.all (fun r => (encTable r.2.1).1 == r.1 && inverse r.2.2 (encTable r.2.1).2) = true :=
  constexpr_roundtrip

theorem c02_v128_bits (bs : List Nat) (hl : bs.length = 16) (h : ∀ b ∈ bs, b < 256) :
    Orca.C30.toLe 16 (Orca.Helpers.bitsOf 128 (Orca.Helpers.toSigned 128 (Orca.C30.ofLe bs))) = bs :=
  Orca.C30.c30_v128_exact bs hl h

/-- **types.** The type section comes out type by type as it went in, with its groups, whatever the hash iteration order -/
theorem c02_types_roundtrip {τ : Type} [DecidableEq τ] (groups : List (List Nat × Bool)) (types : List τ) (order : List Nat)
    (hall : ∀ i, i < types.length → i ∈ order) (hgroups : groups.flatMap (·.1) = List.range types.length) :
    Orca.Types.encoded (Orca.Types.new groups types order) = types.map some
    ∧ (Orca.Types.new groups types order).groups = groups :=
  ⟨Orca.Types.encoded_eq _ (Orca.Types.new_wf groups types order hall hgroups), rfl⟩

/-- **locals.** The run-length declarations are stored and emitted verbatim: the declared sequence is the input's -/
theorem c02_locals_roundtrip (nparams : Nat) (decls : Orca.Locals.Decls) :
    (Orca.Locals.parsed nparams decls).decls = decls ∧ (Orca.Locals.parsed nparams decls).numLocals = (Orca.Locals.expand decls).length :=
  ⟨rfl, rfl⟩

/-- a type outside the profile really does not survive (kept to show that `represented` is not vacuous padding):
    a shared reference loses `shared`, a nullable continuation reference its nullability -/
example : (fromVal (.ref true true .Any)).bind toEnc = some (.ref true false .Any) := rfl
example : (fromVal (.ref true false .Cont)).bind toEnc = some (.ref false false .Cont) := rfl
/-- … and the types the exception proposal needs do (after the repair of F1) -/
example : (fromVal (.ref true false .Exn)).bind toEnc = some (.ref true false .Exn) := rfl

open Orca.Sections in
/-- **no content-bearing section is dropped, none is invented** (M15, tied to the source by `c01_section_writes_reviewed` and per case
    by the `roundtrip` family, which compares the section ids of every output with `plan`): a section is written exactly when the
    vector it is made from is non-empty — types, imports, tables, tags, exports, elements, data; functions, memories and globals
    count their imported entities too, so a module that only imports a memory gets an (empty) memory section; the start section
    exactly when there is a start function; the data-count section exactly when the input had one. -/
theorem c02_sections_kept (s : Shape) :
    (1 ∈ plan s ↔ s.typeGroups > 0) ∧ (2 ∈ plan s ↔ s.imports > 0) ∧ (3 ∈ plan s ↔ s.funcs > 0) ∧ (4 ∈ plan s ↔ s.tables > 0)
    ∧ (5 ∈ plan s ↔ s.mems > 0) ∧ (13 ∈ plan s ↔ s.tags > 0) ∧ (6 ∈ plan s ↔ s.globals > 0) ∧ (7 ∈ plan s ↔ s.exports > 0)
    ∧ (8 ∈ plan s ↔ s.start = true) ∧ (9 ∈ plan s ↔ s.elems > 0) ∧ (12 ∈ plan s ↔ s.dataCount = true) ∧ (11 ∈ plan s ↔ s.datas > 0) := by
  have h0 : ∀ n : Nat, ∀ x : Nat, x ≠ 0 → x ∉ List.replicate n 0 := by
    intro n x hx hm; exact hx (List.eq_of_mem_replicate hm)
  refine ⟨?_, ?_, ?_, ?_, ?_, ?_, ?_, ?_, ?_, ?_, ?_, ?_⟩ <;>
    simp only [plan, List.mem_append, List.mem_ite_nil_right, List.mem_singleton, List.mem_cons, List.not_mem_nil] <;>
    simp [h0]

open Orca.Sections in
/-- the name section and then the custom sections other than `name` follow everything else, as many as were stored (their order: C28) -/
theorem c02_customs_last (s : Shape) : ∃ pre, plan s = pre ++ [0] ++ List.replicate s.customs 0 ∧ pre = core s := by
  refine ⟨_, rfl, ?_⟩
  rw [core_eq]

end Orca.C02
