import Orca.Lemmas.SemSim
import Orca.Lemmas.Bridge
import Orca.Gen.ResolverOutline
import Orca.Model.ResolverOutlineSpec
import Orca.Lemmas.SemBranch
import Orca.Lemmas.StackFull
/-!
# C17 — function entry/exit probes fire once per call on every normal path

Monitor semantics of one activation (`runFunc … true`): the entry probes fire first; the exit probes fire when the body
falls off its end, when a branch reaches the function's label from any depth, immediately before a `return`, and
immediately before an explicit `unreachable`; they do not fire on other traps. `lowerF` is what the code emits: entry
probes, a wrapper block typed with the results around the body (only when there are exit probes), the exit probes behind
the wrapper's `end`, and the exit probes in front of every `return` / `unreachable`.
-/
namespace Orca.Sem

/-- the monitor's definition of "once per call on every normal path" -/
theorem c17_monitor_finish (F : Func) (base : List Nat) (s : St) :
    finish true F base (.normal s) = .returned (s.stack.take F.nres) ((s.fire F.endBefore).fire F.exit)
    ∧ (∀ pd, finish true F base (.br 0 pd s)
          = .returned (s.stack.take F.nres) (((s.exitTo base F.nres).fire (saPs pd)).fire F.exit))
    ∧ finish true F base (.ret s) = .returned (s.stack.take F.nres) s
    ∧ finish true F base (.trap s) = .trapped s := by
  simp [finish]

/-- `return` and `unreachable` fire the exit probes themselves, right after their own `before` probes -/
theorem c17_monitor_return (fns : List Callee) (fx b a : List Nat) (s : St) (f : Nat) :
    runOne fns true fx (f + 1) (.ret b a) s = .ret ((s.fire b).fire fx)
    ∧ runOne fns true fx (f + 1) (.unreachable b a) s = .trap ((s.fire b).fire fx) := by
  simp [runOne]

/-- the entry probes are the first events of the activation -/
theorem c17_monitor_entry (fns : List Callee) (F : Func) (s : St) (f : Nat) :
    runFunc fns true f F s = finish true F s.stack (run fns true F.exit f F.body (s.fire F.entry)) := by
  simp [runFunc]

/-- **C17.** For every function whose body has no semantic-after on branches, every activation (empty operand stack)
    and every terminating monitored run: the lowered function, run with the monitor off, returns the same results or
    traps alike, with the same globals, memory and locals, and the same trace — entry probes once first, exit probes
    once on fall-through, on `return`, on a branch to the function label from any depth, and once before `unreachable`. -/
theorem c17_entry_exit (fns : List Callee) (F : Func) (hns : noSAL F.body = true) (s : St) (hs : s.stack = []) (f : Nat)
    (ok : (runFunc fns true f F s).ok = true) :
    ∃ g, runFunc fns false g (lowerF F) s = runFunc fns true f F s :=
  lowerF_sim F hns s hs f ok

/-- the same with semantic-after probes on branches in the function (scope of C20's branch theorem: annotated `br` /
    `br_if`, targets not in loops, not the function label; distinct flag locals, untouched by the program, 0 on entry):
    the lowered function reproduces results, traps, globals, memory and the whole trace — entry and exit probes at their defining
    moments included — and differs at most in the flag locals -/
theorem c17_entry_exit_with_branch_probes (fns : List Callee) (Fl : List Nat) (F : Func)
    (hsc : scopedL Fl F.body = true) (hnd : (flagsL F.body).Nodup) (hF : ∀ x ∈ flagsL F.body, x ∈ Fl)
    (hnoesc : ∀ d, pendingL d F.body = []) (s s' : St) (hs : s.stack = []) (hfe : FlagEq Fl s s')
    (hz : ∀ x ∈ flagsL F.body, flagIs s' x 0) (f : Nat) (ok : (runFunc fns true f F s).ok = true) :
    ∃ g, FOutRel Fl (runFunc fns true f F s) (runFunc fns false g (lowerF F) s') :=
  branch_lowerF_sim (fns := fns) Fl F hsc hnd hF hnoesc s s' hs hfe hz f ok

/-! non-vacuity, decided in the kernel. `exF k`: entry probe 1001, exit probe 1002, one result;
    k = 0 falls through, k = 1 returns from inside a block, k = 2 branches to the function label from depth 2,
    k = 3 hits `unreachable`. Each time the lowered code reports entry once and exit once. -/
def exF (k : Nat) : Func :=
  { entry := [1001], exit := [1002], nres := 1,
    body :=
      [ .probe 5,
        .block [] {} 0 "block"
          [ .block [] {} 0 "block"
              (if k = 1 then [.op [] [] (.const 11), .ret [] []]
               else if k = 2 then [.op [] [] (.const 12), .br [] [] none 2]
               else if k = 3 then [.unreachable [] []]
               else [.op [] [] .nop]) ],
        .probe 6, .op [] [] (.const 10) ] }
def exSt : St := { stack := [], locals := [], globals := [], mem := [], trace := [] }

def view : FOut → Option (List Nat × List Nat)
  | .returned r s => some (r, s.trace)
  | .trapped s => some ([], s.trace)
  | .stuck _ => none

example : view (runFunc [] false 50 (lowerF (exF 0)) exSt) = some ([10], [1001, 5, 6, 1002]) := by decide
example : view (runFunc [] false 50 (lowerF (exF 1)) exSt) = some ([11], [1001, 5, 1002]) := by decide
example : view (runFunc [] false 50 (lowerF (exF 2)) exSt) = some ([12], [1001, 5, 1002]) := by decide
example : view (runFunc [] false 50 (lowerF (exF 3)) exSt) = some ([], [1001, 5, 1002]) := by decide
example : view (runFunc [] true 50 (exF 2) exSt) = some ([12], [1001, 5, 1002]) := by decide
example : noSAL (exF 2).body = true ∧ (runFunc [] true 50 (exF 2) exSt).ok = true := by decide

end Orca.Sem

namespace Orca.Lower

/-- **Function entry / exit code in every plan (flat).** Whatever else is injected into the function — block-level probes, block
    alternates, semantic-after probes on branches, any number, anywhere —, the encoded body is the one the complete machine `specRunF`
    computes, in which (`fnPre`) the entry code stands in front of instruction 0 (directly behind that instruction's own `before` code,
    followed by the opener of the wrapper block when there is exit code), and the exit code stands in front of every instruction that
    leaves the function (`return`, `return_call*`, `unreachable`, `throw*`) and — behind the `end` that closes the wrapper — in front
    of the function's final `end`. -/
theorem c17_function_code_placed_in_every_plan (f : Func) (hsp : f.hasSpecial = true) (hp : ∀ x ∈ f.body, PlainF x) (out : List Tok)
    (nlf : Nat) (hs : specRunF (f.body.length - 1) (entryToks f) f.exit 0 [{}] none f.nlocals f.body = some (out, nlf)) :
    lower f = (out, f.added + (nlf - f.nlocals)) :=
  lower_eq_specF f hsp hp out nlf hs

/-- where exactly: the function-level code in front of instruction `idx` (the definition the theorem above refers to, unfolded) -/
theorem c17_function_code_positions (last : Nat) (E X : List Tok) (idx : Nat) (i : Instr) :
    fnPre last E X idx i
      = (if idx = 0 then E else [])
        ++ (if X.isEmpty then [] else if i.kind = .exitLike then X else if idx = last then tEnd :: X else []) := rfl

/-- **…and none of it is ever dropped**: every token of the entry code and of the exit code is in the encoded body, for every plan -/
theorem c17_entry_exit_code_never_lost (f : Func) (hsp : f.hasSpecial = true) (hp : ∀ x ∈ f.body, PlainF x) (out : List Tok)
    (nlf : Nat) (hne : f.body ≠ [])
    (hs : specRunF (f.body.length - 1) (entryToks f) f.exit 0 [{}] none f.nlocals f.body = some (out, nlf)) :
    (∀ t ∈ f.entry, t ∈ (lower f).1) ∧ (∀ t ∈ f.exit, t ∈ (lower f).1) :=
  lower_keeps_fn f hsp hp out nlf hne hs

/-! non-vacuity (decided): exit code in front of a `return` inside a block and in front of the final `end`; entry code and the wrapper
    opener in front of instruction 0, behind its own `before` code -/
private def mkI17 (t : Tok) (k : Kind) : Instr := { tok := t, kind := k }
set_option maxRecDepth 20000 in
example :
    let body : List Instr :=
      [{ mkI17 "block" .block with before := ["B0"], blockExit := ["X1"] }, mkI17 "return" .exitLike, mkI17 "end" .end_, mkI17 "end" .end_]
    let f : Func := { body := body, hasSpecial := true, entry := ["EN"], exit := ["EX"] }
    specRunF 3 (entryToks f) f.exit 0 [{}] none 0 body
      = some (["B0", "EN", "block:functype", "block", "EX", "return", "X1", "end", "end", "EX", "end"], 0)
    ∧ (lower f).1 = ["B0", "EN", "block:functype", "block", "EX", "return", "X1", "end", "end", "EX", "end"] := by
  decide

end Orca.Lower

/-- **The tie to the source (regenerated on every run).** The skeletons of `resolve_function_entry`,
    `resolve_function_exit_with_block_wrapper` and `resolve_function_exit` — which operators count as leaving the function, where the
    exit code goes, the early `return`, the `end` of the wrapper at the last instruction — are what `rpre` / `entryToks` were
    transcribed from. -/
theorem c17_function_level_code_reviewed :
    Orca.Gen.Outline.resolve_function_entry = Orca.Lower.Outline.resolve_function_entry
    ∧ Orca.Gen.Outline.resolve_function_exit_with_block_wrapper = Orca.Lower.Outline.resolve_function_exit_with_block_wrapper
    ∧ Orca.Gen.Outline.resolve_function_exit = Orca.Lower.Outline.resolve_function_exit :=
  ⟨rfl, rfl, rfl⟩

/-- **From the tree model to the code model.** The theorems above are about the tree lowering `lowerF` (function entry / exit: `c17_entry_exit` is about `lowerF F`). This one closes the gap to
    M3, the transcription of the code's lowering on flat instruction lists: flatten the annotated structured function to the instructions
    and instrumentation lists the API would have built, let M3 lower it (`resolve_special_instrumentation` + emission, proved to be the
    stack machine in Lemmas/StackFull.lean), and the tokens are exactly `flattenF (lowerF F)` — what the sem driver prints for the tree model — and the locals added exactly its flags
    (Lemmas/Bridge.lean, by mutual induction over the program with the machine's frames as the context). Scope: at most two flag-guarded
    bodies behind one `end` (beyond that the code's chain is ill-formed: F27), no flagged branch to a loop, non-empty branch probes, branch
    depths inside the function, flags numbered in program order, no `before` code on the first instruction next to function-level code
    (there the code puts the entry code behind it). -/
theorem c17_code_lowering_is_tree_lowering (F : Orca.Sem.Func) (nl : Nat) (hok : Orca.Bridge.okL F.body = true)
    (hd : Orca.Bridge.depthOkL 1 F.body = true)
    (hnum : Orca.Sem.flagsL F.body = List.range' nl (Orca.Sem.flagsL F.body).length)
    (hfirst : (F.entry = [] ∧ F.exit = []) ∨ ((Orca.Bridge.flatF F nl).body.head?.map (·.before)) = some []) :
    Orca.Lower.lower (Orca.Bridge.flatF F nl)
      = (Orca.SemTree.flattenF (Orca.Sem.lowerF F), (Orca.Sem.flagsL F.body).length) :=
  Orca.Bridge.code_lowering_is_flattened_tree_lowering F nl hok hd hnum hfirst
