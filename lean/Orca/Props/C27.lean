import Orca.Lemmas.Comp
/-!
# C27 — component round trip preserves structure at any nesting depth

Model M10 (`Orca.Comp`). Two mechanisms of wirm's own decide the structure of the encoded component; both are modelled
and proved for **every** component tree, of any width and depth:

* which of the payloads streamed by `parse_all` belong to the component being parsed (`loop`, the stack discipline after
  the repair of F21), and
* the record / replay of the section order (`add_to_sections`, the per-kind vectors and cursors of `encode_comp`).

The conversion of the *contents* of component-level sections (types, canonical functions, aliases, instances, …) goes
through wasm-encoder's re-encoder and hand-written conversions in component.rs / wrappers.rs; it is modelled as the
identity and compared per case on the printed text (that is how F22 — `stream` encoded as `future` — was found).
-/
namespace Orca.Comp

/-- **ownership.** Parsing a component whose items are `items` (each nested module / component streaming its own payloads
    and `End`, nested to any depth) records exactly its own sections and its direct children, in order — nothing of what is
    nested deeper, nothing twice. -/
theorem c27_owns_exactly (items : List Item) : loop 0 (streamL items ++ [.end_]) = items.map ownEv := by
  rw [loop_owns items [.end_]]
  simp [loop]

/-- **order.** The sections recorded while parsing, replayed with one cursor per kind, give back the items in their
    original order, whatever the cut into sections was and however `add_to_sections` merged adjacent sections of one kind -/
theorem c27_replay_restores_order {κ α : Type} [DecidableEq κ] (items : List (κ × α)) (secs : List (Nat × κ))
    (h : expandRuns secs = items.map (·.1)) :
    replay (store items) secs (fun _ => 0) = items :=
  replay_spec items secs [] items (fun _ => 0) rfl h (fun _ => rfl)

/-- `add_to_sections` describes the same sequence of kinds whether it merges or appends -/
theorem c27_add_to_sections {κ : Type} [DecidableEq κ] (secs : List (Nat × κ)) (k : κ) (n : Nat) :
    expandRuns (addToSections secs k n) = expandRuns secs ++ List.replicate n k :=
  expandRuns_addToSections secs k n

/-! non-vacuity (decided): depth 3 — the shape of the repaired defect F21: the root owns the outer component only; the
    sections that follow the innermost module are not the root's -/
def exDeep : List Item :=
  [ .section_ 1,
    .component 2 [ .section_ 3, .component 4 [ .module 5 [6, 7], .section_ 8, .component 9 [.module 10 []] ], .section_ 11 ],
    .module 12 [13], .section_ 14 ]
example : loop 0 (streamL exDeep ++ [.end_]) = [.payload 1, .componentStart 2, .moduleStart 12, .payload 14] := by decide
example : replay (store [(0, 10), (1, 11), (0, 12), (0, 13), (2, 14), (0, 15)]) [(1, 0), (1, 1), (2, 0), (1, 2), (1, 0)] (fun _ => 0)
    = [(0, 10), (1, 11), (0, 12), (0, 13), (2, 14), (0, 15)] := by decide

end Orca.Comp
