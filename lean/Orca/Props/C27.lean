import Orca.Lemmas.Comp
import Orca.Gen.DefTypes
/-!
# C27 — component round trip preserves structure at any nesting depth

Model M10 (`Orca.Comp`). Two mechanisms of wirm's own decide the structure of the encoded component; both are modelled
and proved for **every** component tree, of any width and depth:

* which of the payloads streamed by `parse_all` belong to the component being parsed (`loop`, the stack discipline after
  the repair of F21), and
* the record / replay of the section order (`add_to_sections`, the per-kind vectors and cursors of `encode_comp`).

The conversion of the *contents* of component-level sections (types, canonical functions, aliases, instances, …) goes
through wasm-encoder's re-encoder and hand-written conversions in component.rs / wrappers.rs; it is modelled as the
identity and compared per case on the printed text (that is how F22 — `stream` encoded as `future` — was found).
-/
namespace Orca.Comp

/-- **ownership.** Parsing a component whose items are `items` (each nested module / component streaming its own payloads
    and `End`, nested to any depth) records exactly its own sections and its direct children, in order — nothing of what is
    nested deeper, nothing twice. -/
theorem c27_owns_exactly (items : List Item) : loop 0 (streamL items ++ [.end_]) = items.map ownEv := by
  rw [loop_owns items [.end_]]
  simp [loop]

/-- **order.** The sections recorded while parsing, replayed with one cursor per kind, give back the items in their
    original order, whatever the cut into sections was and however `add_to_sections` merged adjacent sections of one kind -/
theorem c27_replay_restores_order {κ α : Type} [DecidableEq κ] (items : List (κ × α)) (secs : List (Nat × κ))
    (h : expandRuns secs = items.map (·.1)) :
    replay (store items) secs (fun _ => 0) = items :=
  replay_spec items secs [] items (fun _ => 0) rfl h (fun _ => rfl)

/-- `add_to_sections` describes the same sequence of kinds whether it merges or appends -/
theorem c27_add_to_sections {κ : Type} [DecidableEq κ] (secs : List (Nat × κ)) (k : κ) (n : Nat) :
    expandRuns (addToSections secs k n) = expandRuns secs ++ List.replicate n k :=
  expandRuns_addToSections secs k n

/-- what parsing records for a sequence of sections, each of one kind with its items: one `add_to_sections` per section -/
def record {κ α : Type} [DecidableEq κ] (sections : List (κ × List α)) : List (Nat × κ) :=
  sections.foldl (fun secs (p : κ × List α) => addToSections secs p.1 p.2.length) []

/-- the items of the component in order, each with its kind -/
def itemsOf {κ α : Type} (sections : List (κ × List α)) : List (κ × α) :=
  sections.flatMap (fun (p : κ × List α) => p.2.map (fun a => (p.1, a)))

theorem expandRuns_record {κ α : Type} [DecidableEq κ] (sections : List (κ × List α)) :
    ∀ (acc : List (Nat × κ)),
      expandRuns (sections.foldl (fun secs (p : κ × List α) => addToSections secs p.1 p.2.length) acc)
        = expandRuns acc ++ (itemsOf sections).map (·.1) := by
  induction sections with
  | nil => intro acc; simp [itemsOf]
  | cons s rest ih =>
    intro acc
    simp only [List.foldl_cons]
    rw [ih, expandRuns_addToSections]
    simp [itemsOf, List.map_flatMap, Function.comp_def, List.append_assoc, List.map_const']

/-- **record, then replay, is the identity** — for every sequence of sections (any kinds, any sizes, empty sections included,
    any number of adjacent sections of one kind): parsing them into the per-kind vectors with the run-length list and encoding
    from those gives back the items in their original order. -/
theorem c27_record_replay_roundtrip {κ α : Type} [DecidableEq κ] (sections : List (κ × List α)) :
    replay (store (itemsOf sections)) (record sections) (fun _ => 0) = itemsOf sections := by
  apply c27_replay_restores_order
  have := expandRuns_record sections []
  simpa [record, expandRuns] using this

example : record [(0, [10]), (1, [11]), (0, [12]), (0, [13, 16]), (2, ([] : List Nat)), (0, [15])]
    = [(1, 0), (1, 1), (3, 0), (0, 2), (1, 0)] := by decide

/-! ### the hand-written re-encoding of defined types -/

/-- the encoder method each variant of `wasmparser::ComponentDefinedType` has to be re-encoded with (reviewed by hand against
    wasm-encoder's `ComponentDefinedTypeEncoder`) -/
def specDefMethod : String → String
  | "Primitive" => "primitive" | "Record" => "record" | "Variant" => "variant" | "List" => "list" | "Tuple" => "tuple"
  | "Flags" => "flags" | "Enum" => "enum_type" | "Option" => "option" | "Result" => "result" | "Own" => "own" | "Borrow" => "borrow"
  | "Future" => "future" | "Stream" => "stream" | "FixedSizeList" => "fixed_size_list" | _ => "?"

/-- **every arm re-encodes its own variant**: in both places where wirm re-encodes a component defined type by hand (`encode_comp`
    for the component's own type section, `convert_component_type` for types nested in component / instance type declarations), each
    arm over `ComponentDefinedType` calls the encoder method of that variant and no other (the arms are regenerated from the source
    on every run; F22 — a `stream` written as a `future` — was an arm that did not), and both places cover all fourteen variants. -/
theorem c27_defined_type_arms :
    Orca.Gen.definedTypeArms.all (fun a => !a.2.2.isEmpty && a.2.2.all (· == specDefMethod a.2.1)) = true
    ∧ ["component.rs", "wrappers.rs"].all (fun s =>
        ["Primitive", "Record", "Variant", "List", "Tuple", "Flags", "Enum", "Option", "Result", "Own", "Borrow", "Future", "Stream",
         "FixedSizeList"].all (fun v => Orca.Gen.definedTypeArms.any (fun a => a.1 == s && a.2.1 == v))) = true := by
  decide

/-! non-vacuity (decided): depth 3 — the shape of the repaired defect F21: the root owns the outer component only; the
    sections that follow the innermost module are not the root's -/
def exDeep : List Item :=
  [ .section_ 1,
    .component 2 [ .section_ 3, .component 4 [ .module 5 [6, 7], .section_ 8, .component 9 [.module 10 []] ], .section_ 11 ],
    .module 12 [13], .section_ 14 ]
example : loop 0 (streamL exDeep ++ [.end_]) = [.payload 1, .componentStart 2, .moduleStart 12, .payload 14] := by decide
example : replay (store [(0, 10), (1, 11), (0, 12), (0, 13), (2, 14), (0, 15)]) [(1, 0), (1, 1), (2, 0), (1, 2), (1, 0)] (fun _ => 0)
    = [(0, 10), (1, 11), (0, 12), (0, 13), (2, 14), (0, 15)] := by decide

end Orca.Comp
