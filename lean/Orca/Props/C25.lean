import Orca.Lemmas.Iter
import Orca.Gen.ApiOutline
import Orca.Model.ApiOutlineSpec
/-!
# C25 — the module iterator visits every instruction exactly once, in order

Model: `Orca.Iter` (M7) — `FuncSubIterator`, `ModuleSubIterator` and the `curr_op`/`next`/`reset`
protocol of `ModuleIterator`, as they are after the repair recorded in known-findings.txt
(`fixed: property=C25 …`). `md` is `get_func_metadata()`, `skip` the list of skipped function ids.
`AllNonEmpty md` says every function body has at least one instruction (its final `end`), which holds for
every function wirm parses from a valid module or builds with the function builder.
-/
namespace Orca.Iter

/-- The client loop `loop { visit curr_loc; if next().is_none() { break } }` reports exactly the
    instructions of the non-skipped functions, in function and instruction order, each with its
    end-of-function flag; on a module without (non-skipped) local functions it reports nothing. -/
theorem c25_visits (md : List (Nat × Nat)) (skip : List Nat) (hne : AllNonEmpty md) :
    (ModIt.new md skip).trace (totalInstrs md) = visits skip md := by
  rcases new_spec md skip hne with ⟨hv, hnil⟩ | ⟨f, n, g, hr⟩
  · rw [hnil]; unfold ModIt.trace; rw [hv]
  · rw [← hr]
    apply trace_good _ hne g
    rw [hr]
    have := visits_length_le skip md
    omega

/-- more fuel changes nothing: the loop has stopped -/
theorem c25_visits_any_fuel (md : List (Nat × Nat)) (skip : List Nat) (hne : AllNonEmpty md) (k : Nat) :
    (ModIt.new md skip).trace (totalInstrs md + k) = visits skip md := by
  rcases new_spec md skip hne with ⟨hv, hnil⟩ | ⟨f, n, g, hr⟩
  · rw [hnil]; unfold ModIt.trace; rw [hv]
  · rw [← hr]
    apply trace_good _ hne g
    rw [hr]
    have := visits_length_le skip md
    omega

/-- the specification in closed form: filter out the skipped functions, then every instruction index
    `0 … n-1`, flagged at `n-1` -/
theorem c25_spec_closed_form (md : List (Nat × Nat)) (skip : List Nat) :
    visits skip md =
      (md.filter (fun p => !skipped skip p.1)).flatMap
        (fun p => (List.range p.2).map (fun i => (p.1, i, decide (i + 1 ≥ p.2)))) := by
  induction md with
  | nil => rfl
  | cons p md ih =>
    by_cases h : skipped skip p.1 = true
    · simp [visits, h, ih]
    · have h' : skipped skip p.1 = false := by simpa using h
      simp [visits, h', ih, funcVisits, List.range_eq_range']

/-- "exactly once": with distinct function ids no location is reported twice -/
theorem c25_no_duplicates (md : List (Nat × Nat)) (skip : List Nat) (hd : (md.map (·.1)).Nodup) :
    (visits skip md).Nodup := by
  induction md with
  | nil => simp [visits]
  | cons p md ih =>
    simp only [List.map_cons, List.nodup_cons] at hd
    have hrest := ih hd.2
    simp only [visits]
    have hf : (funcVisits p.1 p.2 0).Nodup := by
      unfold funcVisits
      apply List.Pairwise.map _ _ (List.nodup_range' (s := 0) (n := p.2 - 0))
      intro a b hab heq; simp only [Prod.mk.injEq] at heq; exact hab heq.2.1
    have hdisj : ∀ v ∈ funcVisits p.1 p.2 0, v ∉ visits skip md := by
      intro v hv hin
      have h1 : v.1 = p.1 := by
        unfold funcVisits at hv; simp only [List.mem_map] at hv
        obtain ⟨i, _, rfl⟩ := hv; rfl
      have h2 : v.1 ∈ md.map (·.1) := by
        clear hrest ih hf hv h1 hd
        induction md with
        | nil => simp [visits] at hin
        | cons q md ih2 =>
          simp only [visits, List.mem_append] at hin
          rcases hin with h | h
          · split at h
            · simp at h
            · unfold funcVisits at h; simp only [List.mem_map] at h
              obtain ⟨i, _, rfl⟩ := h; simp
          · simp only [List.map_cons, List.mem_cons]; right; exact ih2 h
      rw [h1] at h2; exact hd.1 h2
    split
    · simpa using hrest
    · rw [List.nodup_append]
      exact ⟨hf, hrest, fun a ha b hb hab => hdisj a ha (hab ▸ hb)⟩

/-- `k` calls of `next` -/
def steps : Nat → ModIt → ModIt
  | 0, it => it
  | k + 1, it => steps k it.next.1

theorem steps_preserve (k : Nat) : ∀ it : ModIt, (steps k it).md = it.md ∧ (steps k it).skip = it.skip := by
  induction k with
  | zero => intro it; exact ⟨rfl, rfl⟩
  | succ k ih =>
    intro it
    obtain ⟨a, b⟩ := ih it.next.1
    obtain ⟨c, d⟩ := next_preserves it
    exact ⟨a.trans c, b.trans d⟩

/-- wherever the iteration stands (also after it has finished), `reset` puts the iterator back into its
    initial state, so the whole visit sequence is reported again from the first instruction -/
theorem c25_reset_restarts (md : List (Nat × Nat)) (skip : List Nat) (hne : AllNonEmpty md) (k : Nat) :
    (steps k (ModIt.new md skip)).reset = ModIt.new md skip
    ∧ ((steps k (ModIt.new md skip)).reset).trace (totalInstrs md) = visits skip md := by
  have h := steps_preserve k (ModIt.new md skip)
  have hr : (steps k (ModIt.new md skip)).reset = ModIt.new md skip := by
    rw [reset_eq_new, h.1, h.2]; rfl
  exact ⟨hr, by rw [hr]; exact c25_visits md skip hne⟩

/-- construction, `curr_op` and `next` are total on every metadata and skip list: the only index into
    the metadata (`get_curr_func`) is guarded — `curr_op` answers `None` exactly when there is no current
    function (no local functions, or all skipped), never the index panic -/
theorem c25_total (it : ModIt) : (it.visit = none ↔ it.atEnd = true) := by
  unfold ModIt.visit
  cases h : it.atEnd with
  | true => simp
  | false =>
    simp only [Bool.false_eq_true, if_false, iff_false]
    have hlt : it.idx < it.md.length := by simp [ModIt.atEnd] at h; exact h
    simp [ModIt.currLoc, List.getElem?_eq_getElem hlt]

/-- non-vacuity / regression for the repaired defects: function 0 skipped (F17), empty module (F18),
    everything skipped (F19) -/
example : (ModIt.new [(0, 3), (1, 2), (2, 1)] [0]).trace 6
    = [(1, 0, false), (1, 1, true), (2, 0, true)] := by decide
example : (ModIt.new [] []).trace 5 = [] := by decide
example : (ModIt.new [(4, 2), (5, 1)] [5, 4]).trace 5 = [] := by decide
example : (ModIt.new [(0, 2), (1, 2)] [1]).trace 4 = [(0, 0, false), (0, 1, true)] := by decide
example : AllNonEmpty [(0, 3), (1, 2), (2, 1)] := by intro p hp; simp at hp; rcases hp with rfl | rfl | rfl <;> simp

end Orca.Iter

/-- **The tie to the source (regenerated on every run).** The control-and-call skeletons of the functions this property rests on:
    `ModuleSubIterator::next` / `handle_skips` are what M7 was transcribed from. A step moved, an early exit, guard, call or assignment added or removed breaks this obligation; renaming, comments and
    formatting do not. -/
theorem c25_subiterator_code_reviewed :
    Orca.Gen.ApiOutline.module_subiterator_next = Orca.ApiOutlineSpec.module_subiterator_next
    ∧ Orca.Gen.ApiOutline.module_subiterator_handle_skips = Orca.ApiOutlineSpec.module_subiterator_handle_skips :=
  ⟨rfl, rfl⟩
