import Orca.Lemmas.Ops
import Orca.Gen.ApiOutline
import Orca.Model.ApiOutlineSpec
import Orca.Lemmas.Redirect
/-!
# C11 — converting a local function to an import redirects all its uses
-/
namespace Orca.Edit
open Orca.Reindex

/-- after `convert_local_fn_to_import(id, …)`: the id designates a new imported entity whose import entry is appended
    to the import list; every other function keeps its id and identity -/
theorem c11_convert_redirects (s : St) (id uid : Nat) (x : Item) (hx : s.f.items[id]? = some x) (hloc : x.imp = false) :
    let r := localToImport s id uid
    r.2 = Ret.bool true
    ∧ r.1.f.items[id]? = some { id := id, imp := true, del := false, uid := uid, impId := s.imports.length }
    ∧ (∀ j, j ≠ id → r.1.f.items[j]? = s.f.items[j]?)
    ∧ r.1.imports = s.imports ++ [{ sp := some Sp.F, del := false, uid := uid }]
    ∧ r.1.f.items.length = s.f.items.length :=
  localToImport_spec s id uid x hx hloc

/-- … and at encode the converted functions are laid out in the order of their import entries, whatever the order
    of the conversions: the imported prefix of the re-indexed vector is sorted by import position -/
theorem c11_import_prefix_in_import_order (orig : Nat) (xs : List Item) (h : orig ≤ xs.length) :
    orderImports (reorganise orig xs)
      = sortImports (xs.filter keepImp) ++ ((xs.drop orig).filter keepLoc ++ (xs.take orig).filter keepLoc) :=
  closed_layout orig xs h

/-- regression for F5: convert function 1, then function 0; encode; both exports still designate their functions -/
example :
    let s0 : St := { f := { items := [⟨0, false, false, 10, 0⟩, ⟨1, false, false, 11, 0⟩] },
                     exports := [(⟨100, Sp.F, 0⟩, false), (⟨101, Sp.F, 1⟩, false)] }
    let s1 := (localToImport (localToImport s0 1 21).1 0 20).1
    (match (encode s1).2 with
     | Ret.encoded F _ _ res _ => (F, res.map (fun r => (r.site, F[r.idx]?)))
     | _ => ([], [])) = ([21, 20], [(100, some 20), (101, some 21)]) := by decide

/-- **End to end, for every earlier and later history.** Take any state reached from a parsed module (`StInv`), convert the local
    function `id` to an import `uid`, continue with any history that does not delete that function, does not replace the new
    import again (and does not encode), then encode. Either the encoder fails loudly because some stored reference designates a
    deleted entity, or: every emitted reference whose stored id was `id` designates the new import `uid` in the encoded
    module, and every reference at all designates the live entity its id designated. -/
theorem c11_uses_refer_to_new_import (s0 : St) (h0 : StInv s0) (id uid : Nat) (x : Item)
    (hx : s0.f.items[id]? = some x) (hloc : x.imp = false)
    (ops : List Op) (hs : ∀ op ∈ ops, op ≠ .encode ∧ op ≠ .deleteFunc id ∧ ∀ u c, op ≠ .replaceImport s0.imports.length u c) :
    let s := (run (localToImport s0 id uid).1 ops).1
    (∃ s' F G M res st, encode s = (s', Ret.encoded F G M res st)
        ∧ (∀ r' ∈ res ++ st.toList, ∃ r ∈ allRefs s, r'.site = r.site ∧ r'.sp = r.sp
            ∧ (∃ u, PointsTo s r u ∧ designated F G M r' = some u)
            ∧ (r.sp = .F → r.idx = id → designated F G M r' = some uid)))
    ∨ (∃ s' why, encode s = (s', Ret.panic why) ∧ ∃ r ∈ allRefs s, Dangling s r) := by
  have hspec := localToImport_spec s0 id uid x hx hloc
  have h1 : StInv (localToImport s0 id uid).1 := stInv_step s0 (.localToImport id uid) (by intro h; cases h) h0
  refine encode_redirects _ h1 id { id := id, imp := true, del := false, uid := uid, impId := s0.imports.length } hspec.2.1 ops ?_
  intro op ho
  obtain ⟨a, b, c⟩ := hs op ho
  cases op with
  | deleteFunc i => exact fun h => b (by subst h; rfl)
  | localToImport i u => exact .inr rfl
  | replaceImport k u c' => exact .inr (fun h => c u c' (by rw [← h]))
  | encode => exact absurd rfl a
  | _ => exact True.intro

/-- **Every other function keeps its identity through the conversion and whatever follows.** -/
theorem c11_other_functions_keep_identity (s0 : St) (h0 : StInv s0) (id uid : Nat) (j : Nat) (y : Item)
    (hy : s0.f.items[j]? = some y) (hother : j ≠ id)
    (ops : List Op) (hs : SparedBy j y ops) :
    let s := (run s0 (.localToImport id uid :: ops)).1
    (∃ s' F G M res st, encode s = (s', Ret.encoded F G M res st)
        ∧ (∀ r' ∈ res ++ st.toList, ∃ r ∈ allRefs s, r'.site = r.site ∧ r'.sp = r.sp
            ∧ (∃ u, PointsTo s r u ∧ designated F G M r' = some u)
            ∧ (r.sp = .F → r.idx = j → designated F G M r' = some y.uid)))
    ∨ (∃ s' why, encode s = (s', Ret.panic why) ∧ ∃ r ∈ allRefs s, Dangling s r) := by
  refine encode_redirects s0 h0 j y hy _ ?_
  intro op ho
  rcases List.mem_cons.mp ho with rfl | ho
  · exact .inl (Ne.symm hother)
  · exact hs op ho

end Orca.Edit

/-- **The tie to the source (regenerated on every run).** The control-and-call skeletons of the functions this property rests on:
    `convert_local_fn_to_import_with_tag` is what M2's conversion was transcribed from. A step moved, an early exit, guard, call or assignment added or removed breaks this obligation; renaming, comments and
    formatting do not. -/
theorem c11_conversion_code_reviewed :
    Orca.Gen.ApiOutline.convert_local_fn_to_import_with_tag = Orca.ApiOutlineSpec.convert_local_fn_to_import_with_tag :=
  rfl
