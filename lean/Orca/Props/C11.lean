import Orca.Lemmas.Ops
/-!
# C11 — converting a local function to an import redirects all its uses
-/
namespace Orca.Edit
open Orca.Reindex

/-- after `convert_local_fn_to_import(id, …)`: the id designates a new imported entity whose import entry is appended
    to the import list; every other function keeps its id and identity -/
theorem c11_convert_redirects (s : St) (id uid : Nat) (x : Item) (hx : s.f.items[id]? = some x) (hloc : x.imp = false) :
    let r := localToImport s id uid
    r.2 = Ret.bool true
    ∧ r.1.f.items[id]? = some { id := id, imp := true, del := false, uid := uid, impId := s.imports.length }
    ∧ (∀ j, j ≠ id → r.1.f.items[j]? = s.f.items[j]?)
    ∧ r.1.imports = s.imports ++ [{ sp := some Sp.F, del := false, uid := uid }]
    ∧ r.1.f.items.length = s.f.items.length :=
  localToImport_spec s id uid x hx hloc

/-- … and at encode the converted functions are laid out in the order of their import entries, whatever the order
    of the conversions: the imported prefix of the re-indexed vector is sorted by import position -/
theorem c11_import_prefix_in_import_order (orig : Nat) (xs : List Item) (h : orig ≤ xs.length) :
    orderImports (reorganise orig xs)
      = sortImports (xs.filter keepImp) ++ ((xs.drop orig).filter keepLoc ++ (xs.take orig).filter keepLoc) :=
  closed_layout orig xs h

/-- regression for F5: convert function 1, then function 0; encode; both exports still designate their functions -/
example :
    let s0 : St := { f := { items := [⟨0, false, false, 10, 0⟩, ⟨1, false, false, 11, 0⟩] },
                     exports := [(⟨100, Sp.F, 0⟩, false), (⟨101, Sp.F, 1⟩, false)] }
    let s1 := (localToImport (localToImport s0 1 21).1 0 20).1
    (match (encode s1).2 with
     | Ret.encoded F _ _ res _ => (F, res.map (fun r => (r.site, F[r.idx]?)))
     | _ => ([], [])) = ([21, 20], [(100, some 20), (101, some 21)]) := by decide

end Orca.Edit
