import Orca.Lemmas.Iter
import Orca.Gen.ApiOutline
import Orca.Model.ApiOutlineSpec
import Orca.Props.C25
/-!
# C26 — component iteration matches module-level iteration

Model: `Orca.Iter` (M7) — `ComponentSubIterator` over per-module metadata and per-module skip lists
(absent map entries are empty lists). The second half of the property (injections through the component
iterator produce the same encoded modules as through module iterators) is a statement about two Rust
call paths into the same `LocalFunction` operations; it is decided by the correspondence family
`compiter` (same plan through both iterators, encoded modules compared byte for byte), not by a theorem.
-/
namespace Orca.Iter

def totalAll (mds : List (List (Nat × Nat))) : Nat := (mds.map totalInstrs).sum

theorem compVisitsFrom_length_le (skips : List (List Nat)) : ∀ (mds : List (List (Nat × Nat))) (m : Nat),
    (compVisitsFrom skips m mds).length ≤ totalAll mds := by
  intro mds
  induction mds with
  | nil => intro m; simp [compVisitsFrom, totalAll]
  | cons md mds ih =>
    intro m
    have h1 := visits_length_le (skips[m]?.getD []) md
    have h2 := ih (m + 1)
    simp only [compVisitsFrom, totalAll, List.map_cons, List.sum_cons, List.length_append, List.length_map] at *
    omega

/-- the component iterator's client loop reports, module after module in module order, exactly what the
    specification of C25 prescribes for each module with that module's skip list -/
theorem c26_visits (mds : List (List (Nat × Nat))) (skips : List (List Nat)) (hne : AllModsNonEmpty mds) :
    (CompIt.new mds skips).trace (totalAll mds) = compVisits mds skips := by
  rcases comp_new_spec mds skips hne with ⟨hv, hnil⟩ | ⟨f, n, g, hmds, hr⟩
  · rw [hnil]; unfold CompIt.trace; rw [hv]
  · rw [← hr]
    apply comp_trace_good _ (by rw [hmds]; exact hne) g
    rw [hr]
    have := compVisitsFrom_length_le skips mds 0
    unfold compVisits; omega

/-- … which is exactly what a module iterator over each module reports (C25), tagged with the module index -/
theorem c26_matches_module_iterators (mds : List (List (Nat × Nat))) (skips : List (List Nat))
    (hne : AllModsNonEmpty mds) : ∀ m : Nat,
    compVisitsFrom skips m mds =
      (mds.zipIdx m).flatMap (fun p =>
        ((ModIt.new p.1 (skips[p.2]?.getD [])).trace (totalInstrs p.1)).map (fun v => (p.2, v))) := by
  induction mds with
  | nil => intro m; rfl
  | cons md mds ih =>
    intro m
    have h1 : AllNonEmpty md := hne md (by simp)
    have h2 : AllModsNonEmpty mds := fun x hx => hne x (by simp [hx])
    simp only [compVisitsFrom, List.zipIdx_cons, List.flatMap_cons]
    rw [ih h2 (m + 1), c25_visits md _ h1]

/-- regression for F20: the last function of module 0 is skipped — the iteration moves on to module 1;
    an empty first module and an all-skipped middle module are passed over -/
example : (CompIt.new [[(0, 2), (1, 1)], [(0, 1)]] [[1], []]).trace 4
    = [(0, (0, 0, false)), (0, (0, 1, true)), (1, (0, 0, true))] := by decide
example : (CompIt.new [[], [(3, 1)], [(0, 2)]] [[], [3], []]).trace 3
    = [(2, (0, 0, false)), (2, (0, 1, true))] := by decide
example : (CompIt.new [] []).trace 3 = [] := by decide

end Orca.Iter

/-- **The tie to the source (regenerated on every run).** The control-and-call skeletons of the functions this property rests on:
    `ComponentSubIterator::next` / `next_module` are what M7's component half was transcribed from. A step moved, an early exit, guard, call or assignment added or removed breaks this obligation; renaming, comments and
    formatting do not. -/
theorem c26_subiterator_code_reviewed :
    Orca.Gen.ApiOutline.component_subiterator_next = Orca.ApiOutlineSpec.component_subiterator_next
    ∧ Orca.Gen.ApiOutline.component_subiterator_next_module = Orca.ApiOutlineSpec.component_subiterator_next_module :=
  ⟨rfl, rfl⟩

/-- **The tie to the source (regenerated on every run).** The component iterator's injection API, word for word: every function addresses `comp.modules[mod_idx]` and then does what the module iterator does. -/
theorem c26_injection_api_code_reviewed :
    Orca.Gen.ApiOutline.compiter_inject = Orca.ApiOutlineSpec.compiter_inject
    ∧ Orca.Gen.ApiOutline.compiter_inject_at = Orca.ApiOutlineSpec.compiter_inject_at
    ∧ Orca.Gen.ApiOutline.compiter_set_instrument_mode_at = Orca.ApiOutlineSpec.compiter_set_instrument_mode_at
    ∧ Orca.Gen.ApiOutline.compiter_set_func_instrument_mode = Orca.ApiOutlineSpec.compiter_set_func_instrument_mode
    ∧ Orca.Gen.ApiOutline.compiter_clear_instr_at = Orca.ApiOutlineSpec.compiter_clear_instr_at
    ∧ Orca.Gen.ApiOutline.compiter_add_instr_at = Orca.ApiOutlineSpec.compiter_add_instr_at
    ∧ Orca.Gen.ApiOutline.compiter_empty_alternate_at = Orca.ApiOutlineSpec.compiter_empty_alternate_at
    ∧ Orca.Gen.ApiOutline.compiter_empty_block_alt_at = Orca.ApiOutlineSpec.compiter_empty_block_alt_at :=
  ⟨rfl, rfl, rfl, rfl, rfl, rfl, rfl, rfl⟩
