import Orca.Gen.RefTables
import Orca.Gen.ApiOutline
import Orca.Model.ApiOutlineSpec
import Orca.Lemmas.Ops
import Orca.Lemmas.Preserve
import Orca.Lemmas.Redirect
import Orca.Gen.MapSites
/-!
# C07 — global references stay bound to the same global across edits
Shares the index-space theorems of C06 (`Orca.Edit.encode_spec`); this file adds the global-specific parts:
the operator tables, and the ids reported by the three ways of adding a global.
-/
namespace Orca.Gen

/-- `refers_to_global` recognises exactly the operators with a global immediate (`global.get/set` and the eleven
    atomic global operators), and `update_global_instr` rewrites it -/
theorem c07_global_ref_ops_complete : ∀ op : Op, wirmRefersGlobal op = specGlobal op
    ∧ wirmUpdatedGlobalFields op = (if specGlobal op then 1 else 0) := by
  intro op; cases op <;> exact ⟨rfl, rfl⟩

example : wirmRefersGlobal .GlobalAtomicRmwCmpxchg = true ∧ wirmRefersGlobal .LocalGet = false := by decide

end Orca.Gen

namespace Orca.Edit
open Orca.Reindex

/-- every emitted global reference (code, injected code, global exports, `global.get` in global, data, element and
    table initialisers) designates the live global its stored id designated, or encoding fails loudly -/
theorem c07_global_refs (s : St) (hf : SpaceInv s.f s.imports .F) (hg : SpaceInv s.g s.imports .G)
    (hm : SpaceInv s.m s.imports .M) :
    (∃ s' F G M res st, encode s = (s', Ret.encoded F G M res st)
        ∧ (∀ r' ∈ res, r'.sp = Sp.G → ∃ r ∈ allRefs s, r'.site = r.site ∧ r.sp = Sp.G
            ∧ ∃ u, PointsTo s r u ∧ G[r'.idx]? = some u))
    ∨ (∃ s' why, encode s = (s', Ret.panic why) ∧ ∃ r ∈ allRefs s, Dangling s r) := by
  rcases encode_spec s hf hg hm with ⟨s', F, G, M, res, st, he, h⟩ | h
  · left
    refine ⟨s', F, G, M, res, st, he, ?_⟩
    intro r' hr' hsp
    obtain ⟨r, hr, a, b, u, c, d⟩ := h r' (by simp [hr'])
    refine ⟨r, hr, a, by rw [← b]; exact hsp, u, c, ?_⟩
    simpa [designated, hsp] using d
  · right; exact h

/-- the id reported by each way of adding a global — `add_global`, the iterators' `add_global`,
    `add_imported_global` — is the position at which the global is stored, whatever was added before and however -/
theorem c07_added_global_ids (s : St) (uid : Nat) (sites : List Ref) :
    (addGlobal s uid sites).2 = Ret.id s.g.items.length
    ∧ (iterAddGlobal s uid sites).2 = Ret.id s.g.items.length
    ∧ (addImportedGlobal s uid).2 = Ret.id2 s.g.items.length s.imports.length
    ∧ (addImportedGlobal s uid).1.g.items[s.g.items.length]?
        = some { id := s.g.items.length, imp := true, del := false, uid := uid, impId := s.imports.length } := by
  refine ⟨rfl, (iterAddGlobal_spec s uid sites).1, (addImportedGlobal_spec s uid).1, ?_⟩
  rw [(addImportedGlobal_spec s uid).2]; simp

/-- **a reported id is new.** With stored ids equal to positions (`IdsFresh`, a clause of the state invariant of every state reached
    from a parsed module before an encode), the id reported for an added global - the length of the vector - is held by no entity of
    the space, live or deleted: the caller never ends up with one id for two globals. (The `edit` family judges exactly this on the
    crate: signature `G-returned-id-already-in-use`.) -/
theorem c07_reported_id_is_new (s : St) (hf : IdsFresh s.g.items) (it : Item) (hit : it ∈ s.g.items) :
    it.id ≠ s.g.items.length := by
  obtain ⟨i, hi⟩ := List.mem_iff_getElem?.mp hit
  have hid := hf i it hi
  have hlt : i < s.g.items.length := by
    rcases List.getElem?_eq_some_iff.mp hi with ⟨h, _⟩
    exact h
  omega

/-- regression for F10: an iterator-added global followed by an imported global -/
example : let s0 : St := { g := { items := [⟨0, false, false, 7, 0⟩] } }
    ((addImportedGlobal (iterAddGlobal s0 8 []).1 9).2 matches Ret.id2 2 0) = true := by decide

/-- `c07_global_refs` after **any** history of edits on a parsed module (the state invariant is inductive:
    `stInv_step`, Lemmas/Preserve.lean) -/
theorem c07_global_refs_after_any_history (s0 : St) (h0 : StInv s0) (ops : List Op) (hn : NoEncode ops) :
    let s := (run s0 ops).1
    (∃ s' F G M res st, encode s = (s', Ret.encoded F G M res st)
        ∧ (∀ r' ∈ res, r'.sp = Sp.G → ∃ r ∈ allRefs s, r'.site = r.site ∧ r.sp = Sp.G
            ∧ ∃ u, PointsTo s r u ∧ G[r'.idx]? = some u))
    ∨ (∃ s' why, encode s = (s', Ret.panic why) ∧ ∃ r ∈ allRefs s, Dangling s r) :=
  let h := spaceInv_after s0 h0 ops hn
  c07_global_refs _ h.1 h.2.1 h.2.2

/-- **the uses of the global map inside `encode_internal` this model was written against** (see `c06_function_map_uses_reviewed`):
    table initialisers, global initialisers, global exports, element expressions and offsets, the code loop, data offsets,
    the global names -/
theorem c07_global_map_uses_reviewed :
    Orca.Gen.mapUsesGlobal = ["resolve-special:global:pass", "tables:global:pass", "globals:global:pass", "exports:global:get", "elements:global:pass", "elements:global:pass", "code:global:pass", "code:global:pass", "code:global:pass", "code:global:pass", "code:global:use", "code:global:use", "data:global:pass", "names:global:get"] := by decide

/-- **an id keeps designating its global through every operation except its own deletion**, for every history: if position `j`
    of the global vector holds `x`, then after any history that does not delete `j` (and does not encode) every emitted global
    reference whose stored id is `j` designates `x.uid` in the encoded module, or the encoder fails loudly on a dangling reference.
    With `c30_returned_ids_designate` this covers the ids handed out by the additions. -/
theorem c07_ids_are_stable (s0 : St) (h0 : StInv s0) (j : Nat) (x : Item) (hx : s0.g.items[j]? = some x)
    (ops : List Op) (hs : ∀ o ∈ ops, o ≠ .encode ∧ o ≠ .deleteGlobal j) :
    let s := (run s0 ops).1
    (∃ s' F G M res st, encode s = (s', Ret.encoded F G M res st)
        ∧ (∀ r' ∈ res ++ st.toList, ∃ r ∈ allRefs s, r'.site = r.site ∧ r'.sp = r.sp
            ∧ (∃ u, PointsTo s r u ∧ designated F G M r' = some u)
            ∧ (r.sp = .G → r.idx = j → designated F G M r' = some x.uid)))
    ∨ (∃ s' why, encode s = (s', Ret.panic why) ∧ ∃ r ∈ allRefs s, Dangling s r) :=
  encode_designates s0 h0 .G j x hx ops (fun o ho => ⟨fun id h e => (hs o ho).2 (by rw [h, e]), (hs o ho).1⟩)

end Orca.Edit

/-- **The tie to the source (regenerated on every run).** The control-and-call skeletons of the functions this property rests on:
    `add_import` and `add_imported_global_with_tag` (where the reported id comes from) are what M2's additions were transcribed from. A step moved, an early exit, guard, call or assignment added or removed breaks this obligation; renaming, comments and
    formatting do not. -/
theorem c07_import_addition_code_reviewed :
    Orca.Gen.ApiOutline.add_import = Orca.ApiOutlineSpec.add_import
    ∧ Orca.Gen.ApiOutline.add_imported_global_with_tag = Orca.ApiOutlineSpec.add_imported_global_with_tag :=
  ⟨rfl, rfl⟩
