import Orca.Lemmas.SemSim
import Orca.Lemmas.Bridge
import Orca.Lemmas.SemErase
import Orca.Lemmas.SemBranch
/-!
# C16 — instrumentation with neutral probes preserves program behaviour

A probe is an event report (`Instr.probe id`: it appends `id` to the trace and touches nothing else — in the emitted
code `i32.const id; call $report`). The annotated program run with the monitor **off** is the original program; run with
the monitor **on** it is the original plus the events the properties define; `lowerF` is the instrumented code.

* `c16_instrumented_equals_monitored`: the instrumented function, executed, yields exactly the monitored outcome —
  results, trap, globals, memory, locals, and the trace with every probe at its defining moment;
* `c16_behaviour_preserved`: …hence, forgetting the trace, exactly what the original yields;
* `c16_before_after_moments`: the monitor's definition of "about to execute" / "completed without branching away".

Scope of the theorems: terminating runs (any fuel), all programs of the fragment whose branches carry no
semantic-after annotation; with such annotations, on the scope of C20's branch theorem
(`c16_behaviour_preserved_with_branch_probes`). That the instrumented module *validates* is not a theorem (there is no
typing model): wasmparser's validator decides it on every generated case of the `sem` family.
-/
namespace Orca.Sem

/-- **before / after.** For a non-structural instruction the monitor fires the `before` probes, executes the instruction,
    and fires the `after` probes only if it completed normally (not on a trap). -/
theorem c16_before_after_moments (fns : List Callee) (fx fx' : List Nat) (f : Nat) (b a : List Nat) (k : OpK) (s : St) :
    runOne fns true fx (f + 1) (.op b a k) s
      = (runOne fns false fx' (f + 1) (.op [] [] k) (s.fire b)).onNormal (·.fire a) :=
  runOne_op_monitor fx fx' f b a k s

/-- … for the function's final `end`: its `before` probes fire when the body falls through to it, in front of the function-exit
    probes; a branch to the function label, a `return` and a trap leave the function without executing that `end` -/
theorem c16_before_final_end (F : Func) (base : List Nat) (s : St) (pd : Option SA) :
    finish true F base (.normal s) = .returned (s.stack.take F.nres) ((s.fire F.endBefore).fire F.exit)
    ∧ finish true F base (.br 0 pd s) = .returned (s.stack.take F.nres) (((s.exitTo base F.nres).fire (saPs pd)).fire F.exit)
    ∧ finish true F base (.ret s) = .returned (s.stack.take F.nres) s
    ∧ finish true F base (.trap s) = .trapped s := by
  simp [finish]

/-- … for branches: `before` fires when the branch is about to execute; `after` only when a conditional branch is not
    taken; never for `br`, `br_table`, `return`, `unreachable` (their `after` code is dead) -/
theorem c16_before_after_branches (fns : List Callee) (fx b a : List Nat) (n : Nat) (ts : List Nat) (d : Nat) (s : St) (f : Nat) :
    runOne fns true fx (f + 1) (.br b a none n) s = .br n none (s.fire b)
    ∧ runOne fns true fx (f + 1) (.ret b a) s = .ret ((s.fire b).fire fx)
    ∧ runOne fns true fx (f + 1) (.unreachable b a) s = .trap ((s.fire b).fire fx)
    ∧ (∀ v st, s.stack = v :: st →
        runOne fns true fx (f + 1) (.brIf b a none n) s
          = (if v ≠ 0 then .br n none { (s.fire b) with stack := st } else .normal (({ (s.fire b) with stack := st } : St).fire a))
        ∧ runOne fns true fx (f + 1) (.brTable b a none ts d) s = .br ((ts[v]?).getD d) none { (s.fire b) with stack := st }) := by
  refine ⟨by simp [runOne], by simp [runOne], by simp [runOne], fun v st hs => ⟨?_, ?_⟩⟩
  · simp only [runOne, if_true, St.fire_stack, hs, saPs, St.fire_nil]
  · simp only [runOne, if_true, St.fire_stack, hs]

/-- **C16, trace half.** The instrumented function executes to exactly the monitored outcome. -/
theorem c16_instrumented_equals_monitored (fns : List Callee) (F : Func) (hns : noSAL F.body = true) (s : St)
    (hs : s.stack = []) (f : Nat) (ok : (runFunc fns true f F s).ok = true) :
    ∃ g, runFunc fns false g (lowerF F) s = runFunc fns true f F s :=
  lowerF_sim F hns s hs f ok

/-- **C16, behaviour half.** The instrumented function returns the same results, traps in the same cases, and leaves the
    same globals and memory as the original (the same function with every annotation ignored). -/
theorem c16_behaviour_preserved (fns : List Callee) (F : Func) (hns : noSAL F.body = true) (s : St)
    (hs : s.stack = []) (f : Nat) (ok : (runFunc fns true f F s).ok = true) :
    ∃ g, (runFunc fns false g (lowerF F) s).abs = (runFunc fns false f F s).abs := by
  obtain ⟨g, e⟩ := lowerF_sim (fns := fns) F hns s hs f ok
  exact ⟨g, by rw [e, runFunc_erase]⟩

/-- **C16 with semantic-after probes on branches** (scope of `c20_function_partial`): the instrumented function — flag
    locals, flag code and checks included — returns the same results, traps in the same cases and leaves the same globals
    and memory as the original, from every state that differs from the original's in the (zeroed) flag locals only. -/
theorem c16_behaviour_preserved_with_branch_probes (fns : List Callee) (Fl : List Nat) (F : Func)
    (hsc : scopedL Fl F.body = true) (hnd : (flagsL F.body).Nodup) (hF : ∀ x ∈ flagsL F.body, x ∈ Fl)
    (hnoesc : ∀ d, pendingL d F.body = []) (s s' : St) (hs : s.stack = []) (hfe : FlagEq Fl s s')
    (hz : ∀ x ∈ flagsL F.body, flagIs s' x 0) (f : Nat) (ok : (runFunc fns true f F s).ok = true) :
    ∃ g, (runFunc fns false g (lowerF F) s').abs = (runFunc fns false f F s).abs := by
  obtain ⟨g, h⟩ := branch_lowerF_sim (fns := fns) Fl F hsc hnd hF hnoesc s s' hs hfe hz f ok
  exact ⟨g, by rw [h.abs, runFunc_erase]⟩

/-- monitoring is neutral for every program, annotated branches included -/
theorem c16_monitor_neutral (fns : List Callee) (F : Func) (s : St) (f : Nat) :
    (runFunc fns true f F s).abs = (runFunc fns false f F s).abs :=
  runFunc_erase F s f

/-! non-vacuity, decided in the kernel: a function with a loop, a memory store, a global write, a division that traps for
    one argument, before/after probes on the division, entry/exit probes; argument 3 returns, argument 0 traps. -/
def exF : Func :=
  { entry := [1001], exit := [1002], nres := 1,
    body :=
      [ .op [] [] (.const 16), .op [] [] (.const 99), .op [] [] (.store 0),
        .op [] [] (.const 100), .op [] [] (.localGet 0), .op [1003] [1004] .divU,
        .op [] [] (.globalSet 0), .op [] [] (.globalGet 0) ] }
def exSt (x : Nat) : St := { stack := [], locals := [x], globals := [0], mem := [], trace := [] }

def view : FOut → Option (List Nat × List Nat × List Nat)
  | .returned r s => some (r, s.globals, s.trace)
  | .trapped s => some ([4294967295], s.globals, s.trace)
  | .stuck _ => none

example : view (runFunc [] false 50 (lowerF exF) (exSt 3)) = some ([33], [33], [1001, 1003, 1004, 1002]) := by decide
example : view (runFunc [] true 50 exF (exSt 3)) = some ([33], [33], [1001, 1003, 1004, 1002]) := by decide
example : view (runFunc [] false 50 exF (exSt 3)) = some ([33], [33], []) := by decide
example : view (runFunc [] false 50 (lowerF exF) (exSt 0)) = some ([4294967295], [0], [1001, 1003]) := by decide
example : noSAL exF.body = true ∧ (runFunc [] true 50 exF (exSt 0)).ok = true := by decide

end Orca.Sem

/-- **From the tree model to the code model.** The theorems above are about the tree lowering `lowerF` (neutral probes: `c16_*` prove that running `lowerF F` without the monitor behaves as the monitored original). This one closes the gap to
    M3, the transcription of the code's lowering on flat instruction lists: flatten the annotated structured function to the instructions
    and instrumentation lists the API would have built, let M3 lower it (`resolve_special_instrumentation` + emission, proved to be the
    stack machine in Lemmas/StackFull.lean), and the tokens are exactly `flattenF (lowerF F)` — what the sem driver prints for the tree model — and the locals added exactly its flags
    (Lemmas/Bridge.lean, by mutual induction over the program with the machine's frames as the context). Scope: at most two flag-guarded
    bodies behind one `end` (beyond that the code's chain is ill-formed: F27), no flagged branch to a loop, non-empty branch probes, branch
    depths inside the function, flags numbered in program order, no `before` code on the first instruction next to function-level code
    (there the code puts the entry code behind it). -/
theorem c16_code_lowering_is_tree_lowering (F : Orca.Sem.Func) (nl : Nat) (hok : Orca.Bridge.okL F.body = true)
    (hd : Orca.Bridge.depthOkL 1 F.body = true)
    (hnum : Orca.Sem.flagsL F.body = List.range' nl (Orca.Sem.flagsL F.body).length)
    (hfirst : (F.entry = [] ∧ F.exit = []) ∨ ((Orca.Bridge.flatF F nl).body.head?.map (·.before)) = some []) :
    Orca.Lower.lower (Orca.Bridge.flatF F nl)
      = (Orca.SemTree.flattenF (Orca.Sem.lowerF F), (Orca.Sem.flagsL F.body).length) :=
  Orca.Bridge.code_lowering_is_flattened_tree_lowering F nl hok hd hnum hfirst
