import Orca.Lemmas.SemSim
import Orca.Lemmas.Bridge
import Orca.Gen.ResolverOutline
import Orca.Model.ResolverOutlineSpec
import Orca.Lemmas.SemBranch
import Orca.Lemmas.SpecialFlat
import Orca.Lemmas.StackSpec
/-!
# C19 — block exit probes fire when the block or arm falls through

Monitor semantics: the `exit` slot of a body (block, loop, then-arm, else-arm) fires when that body *falls through to
its end* (`leaveBlock … (.normal s)`, the `.normal` case of a loop) — never when the construct is left by a branch, a
return or a trap. `lower` places the probes in front of the body's own `else` / `end`, which is where the code places
them (after the repair of F13 the pending bodies of an `if` are keyed by its block id).
-/
namespace Orca.Sem

/-- the monitor's definition: falling through fires `exit` (then the construct's semantic-after); a branch out of the
    construct, a branch to its label, `return` and traps do not fire `exit` -/
theorem c19_monitor_exit (ann : Ann) (base : List Nat) (a : Nat) (s : St) :
    leaveBlock true ann base a (.normal s) = .normal ((s.fire ann.exit).fire ann.after)
    ∧ (∀ pd, leaveBlock true ann base a (.br 0 pd s) = .normal (((s.exitTo base a).fire (saPs pd)).fire ann.after))
    ∧ (∀ n pd, leaveBlock true ann base a (.br (n + 1) pd s) = .br n pd s)
    ∧ leaveBlock true ann base a (.ret s) = .ret s
    ∧ leaveBlock true ann base a (.trap s) = .trap s := by
  simp [leaveBlock]

/-- an `if` applies that rule to the arm that runs, with the exit probes *of that arm* -/
theorem c19_monitor_if (fns : List Callee) (fx b : List Nat) (annT annE : Ann) (a : Nat) (tk : Tok) (t e : List Instr) (he : Bool)
    (s : St) (v : Nat) (st : List Nat) (f : Nat) (hs : s.stack = v :: st) :
    runOne fns true fx (f + 1) (.ite b annT annE a tk t e he) s =
      if v ≠ 0 then
        leaveBlock true { annT with after := annT.after ++ annE.after } st a
          (run fns true fx f t (({ (s.fire b) with stack := st } : St).fire annT.entry))
      else
        leaveBlock true { annE with after := annT.after ++ annE.after } st a
          (run fns true fx f e (({ (s.fire b) with stack := st } : St).fire annE.entry)) := by
  simp only [runOne, if_true, St.fire_stack, hs]

/-- **C19.** The lowered program, monitor off, reproduces the monitored outcome and trace: every block-exit probe fires
    exactly when its body falls through, at no other place. (Programs without semantic-after on branches; those are C20.) -/
theorem c19_block_exit (fns : List Callee) (fx : List Nat) (f : Nat) (p : List Instr) (s : St) (o : Out)
    (hns : noSAL p = true) (h : run fns true fx f p s = o) (ok : o.ok = true) :
    ∃ g, run fns false [] g (lowerL fx p) s = o := by
  obtain ⟨⟨g, e, _⟩, _⟩ := lower_sim (fns := fns) hns h ok
  exact ⟨g, e⟩

/-- the same with semantic-after probes on branches in the function (scope of C20's branch theorem: annotated `br` /
    `br_if`, targets not in loops, not the function label; distinct flag locals, untouched by the program, 0 on entry):
    the lowered function reproduces results, traps, globals, memory and the whole trace — block exit probes at their defining
    moments included — and differs at most in the flag locals -/
theorem c19_exit_with_branch_probes (fns : List Callee) (Fl : List Nat) (F : Func)
    (hsc : scopedL Fl F.body = true) (hnd : (flagsL F.body).Nodup) (hF : ∀ x ∈ flagsL F.body, x ∈ Fl)
    (hnoesc : ∀ d, pendingL d F.body = []) (s s' : St) (hs : s.stack = []) (hfe : FlagEq Fl s s')
    (hz : ∀ x ∈ flagsL F.body, flagIs s' x 0) (f : Nat) (ok : (runFunc fns true f F s).ok = true) :
    ∃ g, FOutRel Fl (runFunc fns true f F s) (runFunc fns false g (lowerF F) s') :=
  branch_lowerF_sim (fns := fns) Fl F hsc hnd hF hnoesc s s' hs hfe hz f ok

/-! non-vacuity, decided in the kernel: an `if` whose then-arm contains a nested block (the shape of the repaired defect
    F13): the exit probe 1002 fires once, after the nested block *and* the rest of the arm; when the arm is left by a
    branch it does not fire -/
def exNested (leave : Bool) : List Instr :=
  [ .op [] [] (.const 1),
    .ite [] { exit := [1002] } {} 0 "if"
      ([ .block [] {} 0 "block" [.op [] [] .nop], .probe 7 ] ++ (if leave then [.br [] [] none 0] else []))
      [] false,
    .probe 8 ]
def exSt : St := { stack := [], locals := [], globals := [], mem := [], trace := [] }

example : (match run [] false [] 50 (lowerL [] (exNested false)) exSt with | .normal s => s.trace | _ => [0]) = [7, 1002, 8] := by decide
example : (match run [] false [] 50 (lowerL [] (exNested true)) exSt with | .normal s => s.trace | _ => [0]) = [7, 8] := by decide
example : (match run [] true [] 50 (exNested true) exSt with | .normal s => s.trace | _ => [0]) = [7, 8] := by decide

/-- the flat-code statement for M3, the transcription of the resolver (every body; `Lemmas/SpecialFlat.lean`): a block-exit probe on
    a `block` / `loop` is encoded in front of the construct's matching `end` (for an `else`: `c22_else_probes_reach_output`) -/
theorem c19_flat_block_exit_placed (f : Orca.Lower.Func) (pre region post : List Orca.Lower.Instr) (sel endI : Orca.Lower.Instr)
    (pr : List Orca.Lower.Tok) (hbody : f.body = pre ++ sel :: region ++ endI :: post) (hpne : post ≠ [])
    (hsp : f.hasSpecial = true) (hentry : f.entry = []) (hexit : f.exit = [])
    (hpre : ∀ x ∈ pre, Orca.Lower.Clean x) (hreg : ∀ x ∈ region, Orca.Lower.Clean x) (hend : Orca.Lower.Clean endI)
    (hpost : ∀ x ∈ post, Orca.Lower.Clean x) (hsel : Orca.Lower.OnlyExit sel pr) (hk : sel.kind = .block ∨ sel.kind = .loop)
    (hendk : endI.kind = .end_) (n n2 : Nat) (hd1 : Orca.Lower.depthAfter pre 1 = some n)
    (hd2 : Orca.Lower.depthAfter region 0 = some 0) (hd3 : Orca.Lower.depthAfter post n = some n2) :
    Orca.Lower.lower f = (Orca.Lower.toks pre ++ [sel.tok] ++ Orca.Lower.toks region ++ pr ++ [endI.tok] ++ Orca.Lower.toks post, f.added) :=
  Orca.Lower.blockExit_placed f pre region post sel endI pr hbody hpne hsp hentry hexit hpre hreg hend hpost hsel hk hendk n n2 hd1 hd2 hd3

/-- … and on an `if` (every body): in front of the `else` of that `if`, or of its `end` when it has no `else`, whatever is nested
    in the then-arm (the repaired defect F13 was exactly a nested construct in the then-arm) -/
theorem c19_flat_block_exit_placed_if (f : Orca.Lower.Func) (pre arm rest : List Orca.Lower.Instr) (sel closer : Orca.Lower.Instr)
    (pr : List Orca.Lower.Tok) (hbody : f.body = pre ++ sel :: arm ++ closer :: rest) (hrne : rest ≠ [])
    (hsp : f.hasSpecial = true) (hentry : f.entry = []) (hexit : f.exit = [])
    (hpre : ∀ x ∈ pre, Orca.Lower.Clean x) (harm : ∀ x ∈ arm, Orca.Lower.Clean x) (hcl : Orca.Lower.Clean closer)
    (hrest : ∀ x ∈ rest, Orca.Lower.Clean x) (hsel : Orca.Lower.OnlyExit sel pr) (hk : sel.kind = .if_)
    (hck : closer.kind = .else_ ∨ closer.kind = .end_)
    (n n2 : Nat) (hd1 : Orca.Lower.depthAfter pre 1 = some n) (hd2 : Orca.Lower.depthAfterE arm 0 = some 0)
    (hd3 : Orca.Lower.depthAfter rest (if closer.kind = .else_ then n + 1 else n) = some n2) :
    Orca.Lower.lower f = (Orca.Lower.toks pre ++ [sel.tok] ++ Orca.Lower.toks arm ++ pr ++ [closer.tok] ++ Orca.Lower.toks rest, f.added) :=
  Orca.Lower.blockExit_placed_if f pre arm rest sel closer pr hbody hrne hsp hentry hexit hpre harm hcl hrest hsel hk hck n n2 hd1 hd2 hd3

end Orca.Sem

namespace Orca.Lower

/-- **flat code, every plan.** Not only a single probe (`…_placed` above): for any number of block-exit probes, together with any other
    block-level probes and `before` / `after` code, on any constructs nested in any way, the encoded function is what the stack machine
    `specRun` defines (Lemmas/StackSpec.lean), which puts block-exit code in front of the matching `end`; of an `if`: in front of its own `else`, or of its `end` when it has none (`specStep`: the frame's `ifExit` / `exitB` lists are emitted in front of the `else` / `end` that pops or continues the frame). -/
theorem c19_flat_every_plan (f : Func) (hsp : f.hasSpecial = true) (hentry : f.entry = []) (hexit : f.exit = [])
    (hp : ∀ x ∈ f.body, Plain x) (out : List Tok) (hs : specRun (f.body.length - 1) 0 [{}] f.body = some out) :
    lower f = (out, f.added) :=
  lower_eq_spec f hsp hentry hexit hp out hs

end Orca.Lower

/-- **The tie to the source (regenerated on every run).** The skeletons of `plan_resolution_block_exit` and of the two functions that
    park an unflagged body are what the second stage of `planSpecial` (`stageExit`, `addFlat`) was transcribed from. -/
theorem c19_block_exit_code_reviewed :
    Orca.Gen.Outline.plan_resolution_block_exit = Orca.Lower.Outline.plan_resolution_block_exit
    ∧ Orca.Gen.Outline.save_not_flagged_body_to_resolve = Orca.Lower.Outline.save_not_flagged_body_to_resolve
    ∧ Orca.Gen.Outline.save_not_flagged_body_to_resolve_inner = Orca.Lower.Outline.save_not_flagged_body_to_resolve_inner :=
  ⟨rfl, rfl, rfl⟩

/-- **From the tree model to the code model.** The theorems above are about the tree lowering `lowerF` (block exit: the simulation theorem is about `lowerF F`). This one closes the gap to
    M3, the transcription of the code's lowering on flat instruction lists: flatten the annotated structured function to the instructions
    and instrumentation lists the API would have built, let M3 lower it (`resolve_special_instrumentation` + emission, proved to be the
    stack machine in Lemmas/StackFull.lean), and the tokens are exactly `flattenF (lowerF F)` — what the sem driver prints for the tree model — and the locals added exactly its flags
    (Lemmas/Bridge.lean, by mutual induction over the program with the machine's frames as the context). Scope: at most two flag-guarded
    bodies behind one `end` (beyond that the code's chain is ill-formed: F27), no flagged branch to a loop, non-empty branch probes, branch
    depths inside the function, flags numbered in program order, no `before` code on the first instruction next to function-level code
    (there the code puts the entry code behind it). -/
theorem c19_code_lowering_is_tree_lowering (F : Orca.Sem.Func) (nl : Nat) (hok : Orca.Bridge.okL F.body = true)
    (hd : Orca.Bridge.depthOkL 1 F.body = true)
    (hnum : Orca.Sem.flagsL F.body = List.range' nl (Orca.Sem.flagsL F.body).length)
    (hfirst : (F.entry = [] ∧ F.exit = []) ∨ ((Orca.Bridge.flatF F nl).body.head?.map (·.before)) = some []) :
    Orca.Lower.lower (Orca.Bridge.flatF F nl)
      = (Orca.SemTree.flattenF (Orca.Sem.lowerF F), (Orca.Sem.flagsL F.body).length) :=
  Orca.Bridge.code_lowering_is_flattened_tree_lowering F nl hok hd hnum hfirst
