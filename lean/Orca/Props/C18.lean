import Orca.Lemmas.SemSim
import Orca.Lemmas.Bridge
import Orca.Gen.ResolverOutline
import Orca.Model.ResolverOutlineSpec
import Orca.Lemmas.SemBranch
import Orca.Lemmas.SpecialFlat
import Orca.Lemmas.StackSpec
/-!
# C18 — block entry probes fire on every entry into the block

Model: `Orca.Sem` (M4). In the monitor semantics (`run … true`) the `entry` slot of a block, a loop, the then-arm or the
else-arm of an `if` fires *by definition* each time control enters that body — for a loop on the first entry and on
every `br` to its label — and at no other time. `lower` places the probes as the code does (behind the opener / the
`else`). The theorem says that the lowered code, run with the monitor off, produces exactly the monitor's outcome,
trace included. Tie to the code: `sem` family (tree lowering = decoded output of the crate; both executed).
-/
namespace Orca.Sem

/-- the monitor's definition, spelled out for one construct: entering a block fires its entry probes first -/
theorem c18_monitor_block (fns : List Callee) (fx b : List Nat) (ann : Ann) (a : Nat) (tk : Tok) (body : List Instr) (s : St) (f : Nat) :
    runOne fns true fx (f + 1) (.block b ann a tk body) s
      = leaveBlock true ann s.stack a (run fns true fx f body ((s.fire b).fire ann.entry)) := by
  simp [runOne]

/-- … and every iteration of a loop fires them again: a `br` to the loop's label re-enters through the same rule -/
theorem c18_monitor_loop_again (fns : List Callee) (fx b : List Nat) (ann : Ann) (tk : Tok) (body : List Instr) (s s' : St) (pd) (f : Nat)
    (h : run fns true fx f body ((s.fire b).fire ann.entry) = .br 0 pd s') :
    runOne fns true fx (f + 1) (.loop b ann tk body) s
      = runOne fns true fx f (.loop [] ann tk body) { s' with stack := s.stack } := by
  simp only [runOne, if_true, h]
  rfl

/-- **C18 (with C16, C19, C20-blocks).** For every program without semantic-after annotations on branches, every state
    and every terminating monitored run: the lowered program, monitor off, ends in the same outcome — same control
    (normal / branch depth / return / trap), same stack, locals, globals, memory, and the same trace, i.e. every
    block-entry probe fired exactly at the entries the monitor defines. -/
theorem c18_block_entry (fns : List Callee) (fx : List Nat) (f : Nat) (p : List Instr) (s : St) (o : Out)
    (hns : noSAL p = true) (h : run fns true fx f p s = o) (ok : o.ok = true) :
    ∃ g, run fns false [] g (lowerL fx p) s = o := by
  obtain ⟨⟨g, e, _⟩, _⟩ := lower_sim (fns := fns) hns h ok
  exact ⟨g, e⟩

/-- the same with semantic-after probes on branches in the function (scope of C20's branch theorem: annotated `br` /
    `br_if`, targets not in loops, not the function label; distinct flag locals, untouched by the program, 0 on entry):
    the lowered function reproduces results, traps, globals, memory and the whole trace — block entry probes at their defining
    moments included — and differs at most in the flag locals -/
theorem c18_entry_with_branch_probes (fns : List Callee) (Fl : List Nat) (F : Func)
    (hsc : scopedL Fl F.body = true) (hnd : (flagsL F.body).Nodup) (hF : ∀ x ∈ flagsL F.body, x ∈ Fl)
    (hnoesc : ∀ d, pendingL d F.body = []) (s s' : St) (hs : s.stack = []) (hfe : FlagEq Fl s s')
    (hz : ∀ x ∈ flagsL F.body, flagIs s' x 0) (f : Nat) (ok : (runFunc fns true f F s).ok = true) :
    ∃ g, FOutRel Fl (runFunc fns true f F s) (runFunc fns false g (lowerF F) s') :=
  branch_lowerF_sim (fns := fns) Fl F hsc hnd hF hnoesc s s' hs hfe hz f ok

/-! non-vacuity (decided in the kernel): a loop of two iterations with entry probe 1001 and exit probe 1002; an `if`
    whose then-arm is taken, with entry probes on both arms -/
def exLoop : List Instr :=
  [ .op [] [] (.const 2), .op [] [] (.localSet 0),
    .loop [] { entry := [1001], exit := [1002] } "loop"
      [ .op [] [] (.localGet 0), .op [] [] (.const 1), .op [] [] .sub, .op [] [] (.localTee 0), .brIf [] [] none 0 ] ]
def exSt : St := { stack := [], locals := [0], globals := [], mem := [], trace := [] }

example : noSAL exLoop = true := by decide
example : (match run [] true [] 50 exLoop exSt with | .normal s => s.trace | _ => [0]) = [1001, 1001, 1002] := by decide
example : (match run [] false [] 50 (lowerL [] exLoop) exSt with | .normal s => s.trace | _ => [0]) = [1001, 1001, 1002] := by decide

def exIf : List Instr :=
  [ .op [] [] (.const 1), .ite [] { entry := [1001] } { entry := [1002] } 0 "if" [.op [] [] .nop] [.op [] [] .nop] true ]
example : (match run [] false [] 50 (lowerL [] exIf) exSt with | .normal s => s.trace | _ => [0]) = [1001] := by decide

/-- the flat-code statement for M3, the transcription of the resolver (every body; `Lemmas/SpecialFlat.lean`): a block-entry probe
    on a `block` / `loop` / `if` is encoded right behind the opening instruction -/
theorem c18_flat_block_entry_placed (f : Orca.Lower.Func) (pre rest : List Orca.Lower.Instr) (sel : Orca.Lower.Instr) (pr : List Orca.Lower.Tok)
    (hbody : f.body = pre ++ sel :: rest) (hrne : rest ≠ [])
    (hsp : f.hasSpecial = true) (hentry : f.entry = []) (hexit : f.exit = [])
    (hpre : ∀ x ∈ pre, Orca.Lower.Clean x) (hrest : ∀ x ∈ rest, Orca.Lower.Clean x) (hsel : Orca.Lower.OnlyEntry sel pr)
    (hk : sel.kind = .block ∨ sel.kind = .loop ∨ sel.kind = .if_)
    (n n2 : Nat) (hd1 : Orca.Lower.depthAfter pre 1 = some n) (hd2 : Orca.Lower.depthAfter rest (n + 1) = some n2) :
    Orca.Lower.lower f = (Orca.Lower.toks pre ++ [sel.tok] ++ pr ++ Orca.Lower.toks rest, f.added) :=
  Orca.Lower.blockEntry_placed f pre rest sel pr hbody hrne hsp hentry hexit hpre hrest hsel hk n n2 hd1 hd2

end Orca.Sem

namespace Orca.Lower

/-- **flat code, every plan.** Not only a single probe (`…_placed` above): for any number of block-entry probes, together with any other
    block-level probes and `before` / `after` code, on any constructs nested in any way, the encoded function is what the stack machine
    `specRun` defines (Lemmas/StackSpec.lean), which puts block-entry code behind the opener (`specStep`: the opener's final `after` list is `after ++ blockEntry`; for an `else`, behind the `else`). -/
theorem c18_flat_every_plan (f : Func) (hsp : f.hasSpecial = true) (hentry : f.entry = []) (hexit : f.exit = [])
    (hp : ∀ x ∈ f.body, Plain x) (out : List Tok) (hs : specRun (f.body.length - 1) 0 [{}] f.body = some out) :
    lower f = (out, f.added) :=
  lower_eq_spec f hsp hentry hexit hp out hs

end Orca.Lower

/-- **The tie to the source (regenerated on every run).** The skeleton of `resolve_block_entry` is what the first stage of
    `planSpecial` was transcribed from: on the four block-structured operators the probe becomes `after` code of the opener, with no
    guard and no other exit. -/
theorem c18_block_entry_code_reviewed :
    Orca.Gen.Outline.resolve_block_entry = Orca.Lower.Outline.resolve_block_entry := rfl

/-- **From the tree model to the code model.** The theorems above are about the tree lowering `lowerF` (block entry: the simulation theorem is about `lowerF F`). This one closes the gap to
    M3, the transcription of the code's lowering on flat instruction lists: flatten the annotated structured function to the instructions
    and instrumentation lists the API would have built, let M3 lower it (`resolve_special_instrumentation` + emission, proved to be the
    stack machine in Lemmas/StackFull.lean), and the tokens are exactly `flattenF (lowerF F)` — what the sem driver prints for the tree model — and the locals added exactly its flags
    (Lemmas/Bridge.lean, by mutual induction over the program with the machine's frames as the context). Scope: at most two flag-guarded
    bodies behind one `end` (beyond that the code's chain is ill-formed: F27), no flagged branch to a loop, non-empty branch probes, branch
    depths inside the function, flags numbered in program order, no `before` code on the first instruction next to function-level code
    (there the code puts the entry code behind it). -/
theorem c18_code_lowering_is_tree_lowering (F : Orca.Sem.Func) (nl : Nat) (hok : Orca.Bridge.okL F.body = true)
    (hd : Orca.Bridge.depthOkL 1 F.body = true)
    (hnum : Orca.Sem.flagsL F.body = List.range' nl (Orca.Sem.flagsL F.body).length)
    (hfirst : (F.entry = [] ∧ F.exit = []) ∨ ((Orca.Bridge.flatF F nl).body.head?.map (·.before)) = some []) :
    Orca.Lower.lower (Orca.Bridge.flatF F nl)
      = (Orca.SemTree.flattenF (Orca.Sem.lowerF F), (Orca.Sem.flagsL F.body).length) :=
  Orca.Bridge.code_lowering_is_flattened_tree_lowering F nl hok hd hnum hfirst
