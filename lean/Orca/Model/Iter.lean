/-
M7 `Iter` — `FuncSubIterator`, `ModuleSubIterator`, `ComponentSubIterator`
(src/subiterator/*.rs) and the `curr_op`/`next` protocol of `ModuleIterator` /
`ComponentIterator` (src/iterator/*.rs), transcribed field by field.

Metadata is `get_func_metadata()`: one `(function id, number of instructions)` per local function.
-/
namespace Orca.Iter

/-- a visited location: function id, instruction index, end-of-function flag -/
abbrev Visit := Nat × Nat × Bool

structure FuncIt where
  curr : Nat
  n : Nat
deriving Repr, DecidableEq

def FuncIt.hasNext (f : FuncIt) : Bool := f.curr + 1 < f.n
def FuncIt.isEnd (f : FuncIt) (pc : Nat) : Bool := pc + 1 ≥ f.n

structure ModIt where
  idx : Nat
  md : List (Nat × Nat)
  fit : FuncIt
  skip : List Nat
deriving Repr, DecidableEq

/-- `skip_funcs.contains(&fid)` -/
def skipped (skip : List Nat) (f : Nat) : Bool := skip.contains f

/-- number of leading entries whose function id is in the skip list -/
def skipCount (skip : List Nat) : List (Nat × Nat) → Nat
  | [] => 0
  | p :: rest => if skipped skip p.1 then skipCount skip rest + 1 else 0

/-- `handle_skips`: `while idx < len && skip.contains(md[idx].0) { idx += 1 }` -/
def handleSkips (md : List (Nat × Nat)) (skip : List Nat) (idx : Nat) : Nat :=
  idx + skipCount skip (md.drop idx)

def numInstrsAt (md : List (Nat × Nat)) (idx : Nat) : Nat :=
  match md[idx]? with
  | some p => p.2
  | none => 0

def ModIt.new (md : List (Nat × Nat)) (skip : List Nat) : ModIt :=
  let idx := handleSkips md skip 0
  { idx := idx, md := md, fit := ⟨0, numInstrsAt md idx⟩, skip := skip }

def ModIt.atEnd (it : ModIt) : Bool := it.idx ≥ it.md.length

/-- `curr_loc`; `none` stands for the index panic of `get_curr_func` -/
def ModIt.currLoc (it : ModIt) : Option Visit :=
  match it.md[it.idx]? with
  | some p => some (p.1, it.fit.curr, it.fit.isEnd it.fit.curr)
  | none => none

def ModIt.reset (it : ModIt) : ModIt :=
  let idx := handleSkips it.md it.skip 0
  { it with idx := idx, fit := ⟨0, numInstrsAt it.md idx⟩ }

def ModIt.hasNextFunction (it : ModIt) : Bool :=
  (it.md.drop (it.idx + 1)).any (fun p => !skipped it.skip p.1)

def ModIt.nextFunction (it : ModIt) : ModIt × Bool :=
  if !it.hasNextFunction then (it, false)
  else
    let idx := handleSkips it.md it.skip (it.idx + 1)
    ({ it with idx := idx, fit := ⟨0, numInstrsAt it.md idx⟩ }, true)

def ModIt.hasNext (it : ModIt) : Bool := it.fit.hasNext || it.hasNextFunction

def ModIt.next (it : ModIt) : ModIt × Bool :=
  if it.fit.hasNext then ({ it with fit := { it.fit with curr := it.fit.curr + 1 } }, true)
  else it.nextFunction

/-- what `ModuleIterator::curr_op` reports: nothing when there is nothing to visit -/
def ModIt.visit (it : ModIt) : Option Visit := if it.atEnd then none else it.currLoc

/-- the canonical client loop: `loop { use curr_op / curr_loc; if next().is_none() { break } }` -/
def ModIt.trace : Nat → ModIt → List Visit
  | fuel, it =>
    match it.visit with
    | none => []
    | some v =>
      match fuel with
      | 0 => [v]
      | k + 1 =>
        let r := it.next
        if r.2 then v :: ModIt.trace k r.1 else [v]

/-! ### components -/

structure CompIt where
  cur : Nat
  num : Nat
  mit : ModIt
  mds : List (List (Nat × Nat))
  skips : List (List Nat)
deriving Repr

def modItFor (mds : List (List (Nat × Nat))) (skips : List (List Nat)) (m : Nat) : ModIt :=
  ModIt.new (mds[m]?.getD []) (skips[m]?.getD [])

/-- the `while` loop of `next_module`, with the number of remaining modules as fuel -/
def nextModuleAux (mds : List (List (Nat × Nat))) (skips : List (List Nat)) (num : Nat) :
    Nat → Nat → ModIt → Nat × ModIt × Bool
  | 0, cur, mit => (cur, mit, false)
  | k + 1, cur, mit =>
    if cur < num then
      let cur' := cur + 1
      if cur' < num then
        let m := modItFor mds skips cur'
        if !m.atEnd then (cur', m, true) else nextModuleAux mds skips num k cur' m
      else nextModuleAux mds skips num k cur' mit
    else (cur, mit, false)

def CompIt.nextModule (c : CompIt) : CompIt × Bool :=
  let r := nextModuleAux c.mds c.skips c.num (c.num - c.cur + 1) c.cur c.mit
  ({ c with cur := r.1, mit := r.2.1 }, r.2.2)

def CompIt.new (mds : List (List (Nat × Nat))) (skips : List (List Nat)) : CompIt :=
  let c : CompIt := { cur := 0, num := mds.length, mit := modItFor mds skips 0, mds := mds, skips := skips }
  if c.mit.atEnd then c.nextModule.1 else c

def CompIt.reset (c : CompIt) : CompIt :=
  let c' : CompIt := { c with cur := 0, mit := modItFor c.mds c.skips 0 }
  if c'.mit.atEnd then c'.nextModule.1 else c'

def CompIt.atEnd (c : CompIt) : Bool := c.cur == c.num

def CompIt.next (c : CompIt) : CompIt × Bool :=
  if c.mit.hasNext then
    let r := c.mit.next
    ({ c with mit := r.1 }, r.2)
  else c.nextModule

/-- `ComponentIterator::curr_op`/`curr_loc`: module index and the module-level location -/
def CompIt.visit (c : CompIt) : Option (Nat × Visit) :=
  if c.atEnd then none else (c.mit.currLoc).map (fun v => (c.cur, v))

def CompIt.trace : Nat → CompIt → List (Nat × Visit)
  | fuel, c =>
    match c.visit with
    | none => []
    | some v =>
      match fuel with
      | 0 => [v]
      | k + 1 =>
        let r := c.next
        if r.2 then v :: CompIt.trace k r.1 else [v]

/-! ### specification -/

/-- instructions `c, c+1, …, n-1` of function `f` -/
def funcVisits (f n c : Nat) : List Visit :=
  (List.range' c (n - c)).map (fun i => (f, i, decide (i + 1 ≥ n)))

/-- every instruction of every non-skipped function, in order -/
def visits (skip : List Nat) : List (Nat × Nat) → List Visit
  | [] => []
  | p :: rest => (if skipped skip p.1 then [] else funcVisits p.1 p.2 0) ++ visits skip rest

def compVisitsFrom (skips : List (List Nat)) : Nat → List (List (Nat × Nat)) → List (Nat × Visit)
  | _, [] => []
  | m, md :: rest => (visits (skips[m]?.getD []) md).map (fun v => (m, v)) ++ compVisitsFrom skips (m + 1) rest

def compVisits (mds : List (List (Nat × Nat))) (skips : List (List Nat)) : List (Nat × Visit) :=
  compVisitsFrom skips 0 mds

def totalInstrs (md : List (Nat × Nat)) : Nat := (md.map (·.2)).sum

end Orca.Iter
