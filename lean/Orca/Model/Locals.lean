/-
M6 `Locals` — model of `add_local` / `add_locals` (src/ir/module/module_functions.rs:243-279)
and of the run-length local declarations of a function body.

A value type is an opaque code (`Nat`); the harness maps every `DataType` it uses to a code.
The model imports nothing outside core Lean so that the driver links as a `lean_exe`.
-/
namespace Orca.Locals

/-- local declarations as stored in `Body.locals`: run-length pairs `(count, type)` -/
abbrev Decls := List (Nat × Nat)

structure LState where
  nparams : Nat
  numLocals : Nat
  decls : Decls
deriving Repr, DecidableEq

/-- what the encoded function declares, local by local (the code section stores the pairs verbatim;
    a decoder expands them) -/
def expand : Decls → List Nat
  | [] => []
  | (c, t) :: ds => List.replicate c t ++ expand ds

/-- `add_local`: returns the new state and the returned `LocalID` -/
def addLocal (s : LState) (ty : Nat) : LState × Nat :=
  let index := s.nparams + s.numLocals
  let decls' :=
    match s.decls.getLast? with
    | some (c, t) => if t = ty then s.decls.dropLast ++ [(c + 1, t)] else s.decls ++ [(1, ty)]
    | none => s.decls ++ [(1, ty)]
  ({ s with numLocals := s.numLocals + 1, decls := decls' }, index)

/-- a sequence of additions, collecting the returned ids -/
def addLocals (s : LState) : List Nat → LState × List Nat
  | [] => (s, [])
  | t :: ts =>
    let (s1, i) := addLocal s t
    let (s2, is) := addLocals s1 ts
    (s2, i :: is)

/-- state of a parsed function: `num_locals` is the sum of the counts -/
def parsed (nparams : Nat) (decls : Decls) : LState :=
  { nparams := nparams, numLocals := (expand decls).length, decls := decls }

end Orca.Locals
