/-
M9 `Helpers` — the vocabulary in which translator/gen_helpers.py describes the instruction helpers of
`Opcode` / `MacroOpcode` (/repo/src/opcode.rs): parameter types, the conversion applied to a parameter before it is
stored in a field of the `Operator`, and the meaning of those conversions on bit patterns.
-/
namespace Orca.Helpers

/-- parameter types of the helpers (`id32` = the `u32` newtypes FunctionID, LocalID, GlobalID, TypeID, FieldID, …) -/
inductive PTy where
  | u32 | i32 | i64 | u64 | f32 | f64 | id32 | memarg | blockTy | heapTy
deriving DecidableEq, Repr

/-- expression shapes the helpers use to fill a field from a parameter `p`:
    `p`, `*p`, `Ieee32::from(p)`, `Ieee64::from(p)`, `p as i32`, `p as i64`, `BlockType::from(p)`, `HeapType::from(p)` -/
inductive Conv where
  | same | deref | ieee32 | ieee64 | asI32 | asI64 | blockTy | heapTy
deriving DecidableEq, Repr

/-- one field of the injected operator: its position in wasmparser's declaration of the operator, the parameter that
    feeds it, the conversion applied -/
structure Assign where
  fieldPos : Nat
  param : Nat
  conv : Conv
deriving Repr, DecidableEq

/-- width in bits of the pattern a parameter carries (`0` = structured value, compared as an opaque code) -/
def PTy.width : PTy → Nat
  | .u32 | .i32 | .f32 | .id32 => 32
  | .i64 | .u64 | .f64 => 64
  | .memarg | .blockTy | .heapTy => 0

/-- two's-complement reading of a `w`-bit pattern -/
def toSigned (w : Nat) (n : Nat) : Int := if n < 2 ^ (w - 1) then (n : Int) else (n : Int) - (2 ^ w : Nat)

/-- the `w`-bit pattern of an integer -/
def bitsOf (w : Nat) (i : Int) : Nat := (i % ((2 ^ w : Nat) : Int)).toNat

/-- does the conversion apply to a parameter of this type? (`x as i32` only on `u32`, `Ieee32::from` only on `f32`, …) -/
def Conv.fits : Conv → PTy → Bool
  | .same, t => t == .u32 || t == .i32 || t == .i64 || t == .memarg
  | .deref, t => t == .id32
  | .ieee32, t => t == .f32
  | .ieee64, t => t == .f64
  | .asI32, t => t == .u32
  | .asI64, t => t == .u64
  | .blockTy, t => t == .blockTy
  | .heapTy, t => t == .heapTy

/-- is the stored field a signed integer (printed / encoded as one)? -/
def signedField (c : Conv) (t : PTy) : Option Nat :=
  match c, t with
  | .asI32, _ => some 32
  | .asI64, _ => some 64
  | .same, .i32 => some 32
  | .same, .i64 => some 64
  | _, _ => none

/-- the value stored in the field, as an integer, when the parameter has bit pattern `n`:
    `u32 as i32` and `u64 as i64` reinterpret, `i32` / `i64` parameters are already signed, the rest is the pattern
    (`Ieee32::from(f32)` is `to_bits`, `*id` is the wrapped `u32`; structured values are carried as codes) -/
def fieldVal (c : Conv) (t : PTy) (n : Nat) : Int :=
  match signedField c t with
  | some w => toSigned w n
  | none => (n : Int)

/-- the bit pattern of a stored field -/
def fieldBits (c : Conv) (t : PTy) (v : Int) : Nat :=
  match signedField c t with
  | some w => bitsOf w v
  | none => v.toNat

end Orca.Helpers
