/-
M5 `Types` — the type section of a module as wirm keeps it (src/ir/module/module_types.rs): `types : TypeID ↦ Types`
(ids are `0 .. n-1`), the dedup map `types_map : Types ↦ TypeID` (key equality ignores the tag), the recursion groups
`groups`, `ModuleTypes::new` (which builds the dedup map by iterating a `HashMap`: the iteration order is an explicit
parameter here), `add_type`, and the emission of the type section by groups (src/ir/module/mod.rs:1202-1236).
`τ` is the content of a type without its tag.
-/
namespace Orca.Types

variable {τ : Type} [DecidableEq τ]

structure TState (τ : Type) where
  types : List τ                       -- position = TypeID
  map : List (τ × Nat)                 -- `types_map`, as an association list (first match wins; keys are unique)
  groups : List (List Nat × Bool)      -- member ids, `is_explicit`
deriving Repr

def lookup : List (τ × Nat) → τ → Option Nat
  | [], _ => none
  | (k, v) :: rest, t => if k = t then some v else lookup rest t

/-- `HashMap::insert`: replaces the value of an existing key (the unrepaired `ModuleTypes::new`) -/
def insertMap : List (τ × Nat) → τ → Nat → List (τ × Nat)
  | [], t, id => [(t, id)]
  | (k, v) :: rest, t, id => if k = t then (k, id) :: rest else (k, v) :: insertMap rest t id

/-- the repaired `ModuleTypes::new`: among equal types the smallest id is kept, whatever the iteration order -/
def insertMin : List (τ × Nat) → τ → Nat → List (τ × Nat)
  | [], t, id => [(t, id)]
  | (k, v) :: rest, t, id => if k = t then (k, min v id) :: rest else (k, v) :: insertMin rest t id

def buildStep (ins : List (τ × Nat) → τ → Nat → List (τ × Nat)) (types : List τ) (m : List (τ × Nat)) (id : Nat) : List (τ × Nat) :=
  match types[id]? with
  | some t => ins m t id
  | none => m

def buildMap (ins : List (τ × Nat) → τ → Nat → List (τ × Nat)) (types : List τ) (order : List Nat) : List (τ × Nat) :=
  order.foldl (buildStep ins types) []

/-- `ModuleTypes::new(groups, types)`: `order` is the order in which the `HashMap` of types is iterated -/
def new (groups : List (List Nat × Bool)) (types : List τ) (order : List Nat) : TState τ :=
  { types := types, groups := groups, map := buildMap insertMin types order }

/-- `ModuleTypes::add_type(ty, self.types.len())` -/
def addType (s : TState τ) (t : τ) : TState τ × Nat :=
  match lookup s.map t with
  | some id => (s, id)
  | none =>
    let id := s.types.length
    ({ types := s.types ++ [t], map := s.map ++ [(t, id)], groups := s.groups ++ [([id], false)] }, id)

def addAll (s : TState τ) : List τ → TState τ × List Nat
  | [] => (s, [])
  | t :: ts =>
    let (s1, id) := addType s t
    let (s2, ids) := addAll s1 ts
    (s2, id :: ids)

/-- the ids in the order the type section lists them (implicit groups contribute their members one by one, explicit
    groups as one `rec`; in both cases the members occupy consecutive indices) -/
def emitted (s : TState τ) : List Nat := s.groups.flatMap (·.1)

/-- the content at each index of the encoded type section -/
def encoded (s : TState τ) : List (Option τ) := (emitted s).map (fun id => s.types[id]?)

end Orca.Types
