/-
M1 `Reindex` — `Module::reorganise_generic` and `get_mapping_generic`
(src/ir/module/mod.rs:980-1047): the loop, transcribed literally.

An `Item` is a function / global / memory entry: its stored id (`GetID::get_id`), whether it is an
import, whether it is marked deleted, and a ghost `uid` naming the entity for the specification.
-/
namespace Orca.Reindex

structure Item where
  id : Nat
  imp : Bool
  del : Bool
  uid : Nat
  /-- position of the import entry in `ModuleImports` (imported items only) -/
  impId : Nat := 0
deriving Repr, DecidableEq

/-- loop state of `reorganise_generic` -/
structure RS where
  live : List Item
  numImported : Nat
  numDeleted : Nat
deriving Repr

/-- one iteration of the `for (idx, val) in items_read_only.enumerate()` loop (deletion is tested first) -/
def rstep (orig : Nat) (st : RS) (idx : Nat) (val : Item) : RS :=
  if idx < orig then
    if val.del then
      { live := st.live.eraseIdx (idx - st.numDeleted), numImported := st.numImported - 1, numDeleted := st.numDeleted + 1 }
    else if !val.imp then
      let p := idx - st.numDeleted
      match st.live[p]? with
      | some f => { live := st.live.eraseIdx p ++ [f], numImported := st.numImported - 1, numDeleted := st.numDeleted + 1 }
      | none => st   -- Vec::remove would panic; see `rstepOk`
    else st
  else
    if val.del then
      { st with live := st.live.eraseIdx (idx - st.numDeleted), numDeleted := st.numDeleted + 1 }
    else if val.imp then
      let p := idx - st.numDeleted
      match st.live[p]? with
      | some i => { st with live := (st.live.eraseIdx p).insertIdx st.numImported i, numImported := st.numImported + 1 }
      | none => st
    else st

def rloop (orig : Nat) : RS → Nat → List Item → RS
  | st, _, [] => st
  | st, idx, v :: vs => rloop orig (rstep orig st idx v) (idx + 1) vs

def reorganise (orig : Nat) (xs : List Item) : List Item :=
  (rloop orig { live := xs, numImported := orig, numDeleted := 0 } 0 xs).live

def keepImp (x : Item) : Bool := x.imp && !x.del
def keepLoc (x : Item) : Bool := !x.imp && !x.del

/-- the result in closed form: kept original imports, imports found among the locals, kept locals, former imports that
    became local — everything marked deleted is gone -/
def closed (orig : Nat) (xs : List Item) : List Item :=
  (xs.take orig).filter keepImp ++ (xs.drop orig).filter keepImp
    ++ (xs.drop orig).filter keepLoc ++ (xs.take orig).filter keepLoc


/-- does iteration `idx` index the live vector in range? (`Vec::remove` / `Vec::insert` panic otherwise) -/
def rstepOk (orig : Nat) (st : RS) (idx : Nat) (val : Item) : Bool :=
  if idx < orig then
    if val.del || !val.imp then decide (idx - st.numDeleted < st.live.length) else true
  else
    if val.del then decide (idx - st.numDeleted < st.live.length)
    else if val.imp then decide (idx - st.numDeleted < st.live.length) && decide (st.numImported ≤ st.live.length - 1)
    else true

def rloopOk (orig : Nat) : RS → Nat → List Item → Bool
  | _, _, [] => true
  | st, idx, v :: vs => rstepOk orig st idx v && rloopOk orig (rstep orig st idx v) (idx + 1) vs

/-- `get_mapping_generic`: a `HashMap` filled by `insert(old_id, new_position)` over the whole vector, so the
    last position carrying a stored id wins -/
def mappingFrom : List Item → Nat → Nat → Option Nat
  | [], _, _ => none
  | x :: rest, pos, key =>
    match mappingFrom rest (pos + 1) key with
    | some p => some p
    | none => if x.id = key then some pos else none

def mapping (ys : List Item) (key : Nat) : Option Nat := mappingFrom ys 0 key

/-- number of distinct keys of the map (`mapping.len()`), for the `assert_eq!(items.len(), mapping.len())` -/
def distinctIds (ys : List Item) : Nat := (ys.map (·.id)).eraseDups.length

/-- insertion point of `order_imports_generic`: after every entry whose import id is `≤` (stable) -/
def insertSorted (x : Item) : List Item → List Item
  | [] => [x]
  | y :: ys => if y.impId ≤ x.impId then y :: insertSorted x ys else x :: y :: ys

def sortImports (l : List Item) : List Item := l.foldl (fun acc x => insertSorted x acc) []

/-- `order_imports_generic`: the imported prefix, stably sorted by the position of the import entry -/
def orderImports (ys : List Item) : List Item :=
  sortImports (ys.takeWhile (fun i => i.imp)) ++ ys.dropWhile (fun i => i.imp)

/-- `recalculate_ids`: reorganise, order the imports, build the map, assert that no two entries share a stored id -/
def recalculate (orig : Nat) (xs : List Item) : Option (List Item) :=
  if !rloopOk orig { live := xs, numImported := orig, numDeleted := 0 } 0 xs then none
  else
    let ys := orderImports (reorganise orig xs)
    if distinctIds ys = ys.length then some ys else none

end Orca.Reindex
