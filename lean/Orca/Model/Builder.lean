import Orca.Model.Locals
import Orca.Model.Lower
/-
M14 `Builder` — `FunctionBuilder` (src/ir/function.rs:19-160): `new`, `inject` (appends to the body), `add_local`
(the run-length grouping of M6), `set_name`, and `finish_module`, which appends one `end` and hands signature, locals,
body and name to `Module::add_local_func_with_tag` (src/ir/module/mod.rs:1890-1909).
-/
namespace Orca.Builder
open Orca.Locals

structure B where
  params : List Nat
  results : List Nat
  name : Option String := none
  locals : LState
  ops : List Lower.Tok := []
deriving Repr

def new (params results : List Nat) : B :=
  { params := params, results := results, locals := parsed params.length [] }

def inject (b : B) (t : Lower.Tok) : B := { b with ops := b.ops ++ [t] }
def injectAll (b : B) (ts : List Lower.Tok) : B := ts.foldl inject b
def setName (b : B) (n : String) : B := { b with name := some n }
def addLocal (b : B) (ty : Nat) : B × Nat :=
  let r := Locals.addLocal b.locals ty
  ({ b with locals := r.1 }, r.2)

/-- what `finish_module` passes to the module -/
structure Built where
  params : List Nat
  results : List Nat
  decls : Decls
  body : List Lower.Tok
  name : Option String
deriving Repr

def finish (b : B) : Built :=
  { params := b.params, results := b.results, decls := b.locals.decls, body := b.ops ++ ["end"], name := b.name }

/-- the function as the code section emits it when nothing has been injected into it since -/
def plain (body : List Lower.Tok) : Lower.Func :=
  { body := body.map fun t => { tok := t, kind := .other } }

end Orca.Builder
