import Orca.Model.Edit
/-
M13 `Names` — the function names of a module on top of the index-space model M2, and where the stored name maps of
locals and globals land (src/ir/module/mod.rs:99-108, 1239-1250, 1677-1679, 1743-1769, 2076-2087;
module_imports.rs:130; module_functions.rs:536-556).

* a local function's name is stored on the function (`Function.name` / `Body.name`) and emitted at its new index;
* an imported function's name is the `custom_name` of its import entry, emitted with a counter over the emitted
  function imports;
* the names of locals and globals are kept as parsed, keyed by the input function / global index (= the id of the entity),
  and re-keyed with the id mapping when the name section is emitted (names of deleted entities are dropped).
-/
namespace Orca.Names
open Orca.Edit Orca.Reindex

structure NSt where
  e : Edit.St
  fname : List (Nat × String) := []        -- local function uid ↦ name
  impName : List (Nat × String) := []      -- import position ↦ custom name
  lnames : List ((Nat × Nat) × String) := []  -- (input function index, local index) ↦ name, as parsed
  gnames : List (Nat × String) := []       -- input global index ↦ name, as parsed
deriving Repr

def setName : List (Nat × String) → Nat → String → List (Nat × String)
  | [], k, v => [(k, v)]
  | (k', v') :: rest, k, v => if k' = k then (k, v) :: rest else (k', v') :: setName rest k v

def getName : List (Nat × String) → Nat → Option String
  | [], _ => none
  | (k, v) :: rest, q => if k = q then some v else getName rest q

/-- `Module::set_fn_name(id, name)`; `none` = a panic (an id outside the function vector). The *kind* of the function decides
    (since the repair of F38; before it the id range `id < num_funcs` did, which counts imports added after parsing): a local
    function carries its name itself, an imported one in the import-name table, at the position of the import entry it records -/
def setFnName (s : NSt) (id : Nat) (name : String) : Option NSt :=
  match s.e.f.items[id]? with
  | none => none
  | some it =>
    if it.imp then some { s with impName := setName s.impName it.impId name }
    else some { s with fname := setName s.fname it.uid name }

/-- names of the function section of the name section: (output index, name), in index order -/
def emittedFnames (s : NSt) (fspaceLocals : List Nat) : List (Nat × String) :=
  -- imports: a counter over the emitted function imports
  let imps := (s.e.imports.zipIdx.filter (fun (p : ImpEntry × Nat) => p.1.sp == some Sp.F && !p.1.del))
  let impNames := imps.zipIdx.filterMap (fun (p : (ImpEntry × Nat) × Nat) => (getName s.impName p.1.2).map (fun n => (p.2, n)))
  let nimp := imps.length
  let locNames := fspaceLocals.zipIdx.filterMap (fun (p : Nat × Nat) => (getName s.fname p.1).map (fun n => (nimp + p.2, n)))
  impNames ++ locNames

def insertByKey {α : Type} (key : α → Nat) (x : α) : List α → List α
  | [] => [x]
  | y :: ys => if key x < key y then x :: y :: ys else y :: insertByKey key x ys

def sortByKey {α : Type} (key : α → Nat) (l : List α) : List α := l.foldl (fun acc x => insertByKey key x acc) []

/-- the local names of the name section, after `encode` (the vectors of `s.e` are the reorganised ones): each function's
    group moves to the function's new index; groups are emitted in index order -/
def emittedLnames (s : NSt) : List ((Nat × Nat) × String) :=
  let groups := s.lnames.filterMap (fun (p : (Nat × Nat) × String) => (mapping s.e.f.items p.1.1).map (fun n => ((n, p.1.2), p.2)))
  -- stable: the locals of one function keep their parsed order
  sortByKey (fun (p : (Nat × Nat) × String) => p.1.1) groups

def emittedGnames (s : NSt) : List (Nat × String) :=
  sortByKey (fun (p : Nat × String) => p.1) (s.gnames.filterMap (fun (p : Nat × String) => (mapping s.e.g.items p.1).map (fun n => (n, p.2))))

/-- `FunctionBuilder::replace_import_in_module(ImportsID)`: the index-space part is M2's `replaceImport`; the new local function is
    named after the *field name* of the import it replaces (`local_func.body.name = Some(imp.name)`), whatever custom name the import
    had; nothing happens to the names when the import is not a live function import (M2: panic / silent no-op) -/
def replaceImportNamed (s : NSt) (impId uid : Nat) (field : String) : NSt × Ret :=
  let r := replaceImport s.e impId uid []
  let found := (match s.e.imports[impId]? with | some e => e.sp == some Sp.F | none => false)
    && (s.e.f.items.findIdx? (fun (it : Item) => !it.del && it.imp && it.impId == impId)).isSome
  ({ s with e := r.1, fname := if found then setName s.fname uid field else s.fname }, r.2)

end Orca.Names
