import Orca.Model.Edit
/-
M12 `SideFx` — what `Module::pull_side_effects` (= `encode_internal(true)`, src/ir/module/mod.rs:1184-1856,
src/ir/module/side_effects.rs, `add_injections` in src/ir/types.rs and module_functions.rs:236-258) reports.

Every vector the encoder walks is modelled with the tag each entry carries (`none` for what the parser built); the
index spaces and id maps are M2's (`ed`), driven in lock-step. `pull` walks the vectors the way the encoder does and
emits one record wherever the encoder calls `add_injection`.

Plain probe modes (before / after / alternate) and function entry / exit are modelled; where the special block modes
are lowered to is M3's business and is not repeated here (their tags never reach a record: finding F25).
-/
namespace Orca.SideFx
open Orca.Reindex Orca.Edit

abbrev Tag := List Nat

/-- an operator of an injected body: a marker constant (`i32.const; drop`), a call, a `global.get; drop` -/
inductive RefTok where
  | const (n : Nat)
  | call (site id : Nat)
  | gget (site id : Nat)
deriving Repr, DecidableEq

/-- an entry of the function / global / memory vector -/
structure Ent where
  uid : Nat
  /-- the stored id (`GetID::get_id`): the position at which the entry was created -/
  id : Nat
  imp : Bool
  tag : Option Tag
  del : Bool := false
  /-- position of the import entry (imported entries) -/
  impPos : Nat := 0
  sig : Nat := 0
  body : List RefTok := []
  get : Option RefTok := none
deriving Repr

structure Imp where
  uid : Nat
  kind : Sp
  tag : Option Tag
  del : Bool := false
deriving Repr

structure Exp where
  pos : Nat
  idx : Nat
  tag : Option Tag
  del : Bool := false
deriving Repr

structure Dat where
  passive : Bool
  bytes : String
  tag : Option Tag
deriving Repr

/-- where a probe list hangs: an instruction and one of the modes 0 = before, 1 = after, 2 = alternate
    (3..6 = semantic_after, block_entry, block_exit, block_alt), or the function's entry / exit -/
inductive PKey where
  | loc (idx mode : Nat)
  | fn (exit : Bool)
deriving Repr, DecidableEq

structure Probe where
  /-- the id of the function as the caller holds it (= its position in the vector) -/
  fid : Nat
  key : PKey
  body : List RefTok
  tag : Option Tag
deriving Repr

structure St where
  ed : Edit.St := {}
  types : List (Nat × Option Tag) := []
  imports : List Imp := []
  funcs : List Ent := []
  globals : List Ent := []
  mems : List Ent := []
  exports : List Exp := []
  datas : List Dat := []
  probes : List Probe := []
deriving Repr

inductive Op where
  | addType (sig : Nat) (tag : Option Tag)
  | addImport (k : Sp) (uid : Nat) (tag : Tag)
  | addFunc (uid sig : Nat) (tag : Tag) (body : List RefTok)
  | addGlobal (uid : Nat) (tag : Tag) (get : Option RefTok)
  | addMem (uid : Nat) (tag : Tag)
  | addExport (site idx : Nat) (tag : Option Tag)
  | addData (passive : Bool) (bytes : String) (tag : Option Tag)
  | delFunc (id : Nat)
  | delGlobal (id : Nat)
  | delExport (pos : Nat)
  | probe (fid : Nat) (key : PKey) (tag : Option Tag) (body : List RefTok)
deriving Repr

/-- `ModuleTypes::add_type`: equality ignores the tag, so an existing type keeps the tag (or the absence of one) it has -/
def addType (ts : List (Nat × Option Tag)) (sig : Nat) (tag : Option Tag) : List (Nat × Option Tag) :=
  if ts.any (·.1 == sig) then ts else ts ++ [(sig, tag)]

def refOf : RefTok → Option Ref
  | .const _ => none
  | .call site id => some { site := site, sp := .F, idx := id }
  | .gget site id => some { site := site, sp := .G, idx := id }

def refsOf (b : List RefTok) : List Ref := b.filterMap refOf

def markDel (l : List Ent) (i : Nat) : List Ent :=
  match l[i]? with
  | some e => l.set i { e with del := true }
  | none => l

def markImpDel (l : List Imp) (i : Nat) : List Imp :=
  match l[i]? with
  | some e => l.set i { e with del := true }
  | none => l

/-- deleting an entity deletes the import entry of an imported one -/
def delEnt (v : List Ent) (imports : List Imp) (id : Nat) : List Ent × List Imp :=
  match v[id]? with
  | some e => (markDel v id, if e.imp then markImpDel imports e.impPos else imports)
  | none => (v, imports)

def appendTag (old : Option Tag) (t : Option Tag) : Option Tag :=
  match t with
  | none => old
  | some t => some (old.getD [] ++ t)

/-- a later injection into the same list extends its body; `append_to_tag` extends its tag -/
def addProbe : List Probe → Probe → List Probe
  | [], p => [p]
  | q :: qs, p =>
    if q.fid = p.fid ∧ q.key = p.key then { q with body := q.body ++ p.body, tag := appendTag q.tag p.tag } :: qs
    else q :: addProbe qs p

def vecOf (s : St) : Sp → List Ent
  | .F => s.funcs | .G => s.globals | .M => s.mems

def setVec (s : St) (k : Sp) (v : List Ent) : St :=
  match k with
  | .F => { s with funcs := v } | .G => { s with globals := v } | .M => { s with mems := v }

def edOp (s : St) (op : Edit.Op) : Edit.St := (Edit.step s.ed op).1

def step (s : St) : Op → St
  | .addType sig tag => { s with types := addType s.types sig tag }
  | .addImport k uid tag =>
    let v := vecOf s k
    let e : Ent := { uid := uid, id := v.length, imp := true, tag := some tag, impPos := s.imports.length }
    let s1 := setVec s k (v ++ [e])
    { s1 with imports := s.imports ++ [{ uid := uid, kind := k, tag := some tag }],
              ed := edOp s (match k with | .F => .addImportFunc uid | .G => .addImportedGlobal uid | .M => .addImportMem uid) }
  | .addFunc uid sig tag body =>
    -- `add_local_func_with_tag` registers the signature under the function's tag first
    { s with types := addType s.types sig (some tag),
             funcs := s.funcs ++ [{ uid := uid, id := s.funcs.length, imp := false, tag := some tag, sig := sig, body := body }],
             ed := edOp s (.addLocalFunc uid (refsOf body)) }
  | .addGlobal uid tag get =>
    { s with globals := s.globals ++ [{ uid := uid, id := s.globals.length, imp := false, tag := some tag, get := get }],
             ed := edOp s (.addGlobal uid (refsOf get.toList)) }
  | .addMem uid tag =>
    { s with mems := s.mems ++ [{ uid := uid, id := s.mems.length, imp := false, tag := some tag }],
             ed := edOp s (.addLocalMem uid) }
  | .addExport site idx tag =>
    { s with exports := s.exports ++ [{ pos := s.exports.length, idx := idx, tag := tag }],
             ed := edOp s (.addExport { site := site, sp := .F, idx := idx }) }
  | .addData p b tag => { s with datas := s.datas ++ [{ passive := p, bytes := b, tag := tag }] }
  | .delFunc id =>
    let r := delEnt s.funcs s.imports id
    { s with funcs := r.1, imports := r.2, ed := edOp s (.deleteFunc id) }
  | .delGlobal id =>
    let r := delEnt s.globals s.imports id
    { s with globals := r.1, imports := r.2, ed := edOp s (.deleteGlobal id) }
  | .delExport pos =>
    { s with exports := (match s.exports[pos]? with | some e => s.exports.set pos { e with del := true } | none => s.exports),
             ed := edOp s (.deleteExport pos) }
  | .probe fid key tag body =>
    { s with probes := addProbe s.probes { fid := fid, key := key, body := body, tag := tag },
             ed := edOp s (.inject fid (refsOf body)) }

def run (s : St) (ops : List Op) : St := ops.foldl step s

/-! ### the report -/

/-- the id maps of one encode: old id ↦ position in the encoded module -/
structure Maps where
  f : Nat → Option Nat
  g : Nat → Option Nat

/-- `recalculate_ids` / `get_mapping_generic` on M2's vectors; `none` = the encoder panics -/
def mapsOf (ed : Edit.St) : Option Maps :=
  match remap ed.f, remap ed.g with
  | some fi, some gi => some { f := mapping fi, g := mapping gi }
  | _, _ => none

/-- an operator as it is emitted: references through the maps (`fix_op_id_mapping`) -/
inductive Tok where
  | const (n : Nat)
  | drop
  | call (id : Nat)
  | gget (id : Nat)
  | unmapped
deriving Repr, DecidableEq

def emitTok (m : Maps) : RefTok → List Tok
  | .const n => [.const n, .drop]
  | .call _ id => [match m.f id with | some p => .call p | none => .unmapped]
  | .gget _ id => [match m.g id with | some p => .gget p | none => .unmapped, .drop]

def emitBody (m : Maps) (b : List RefTok) : List Tok := b.flatMap (emitTok m)

/-- the ids as the caller wrote them (what a `Func` record holds: it is taken before the code loop renumbers) -/
def rawTok : RefTok → List Tok
  | .const n => [.const n, .drop]
  | .call _ id => [.call id]
  | .gget _ id => [.gget id, .drop]

inductive Rec where
  | type (sig : Nat) (tag : Tag)
  | import (uid : Nat) (kind : Sp) (tag : Tag)
  | export (pos idx : Nat) (tag : Tag)
  | memory (uid id : Nat) (tag : Tag)
  | data (passive : Bool) (bytes : String) (tag : Tag)
  | global (uid id : Nat) (init : Option (List Tok)) (tag : Tag)
  | func (uid id sig : Nat) (body : List Tok) (tag : Tag)
  | funcProbe (fid : Option Nat) (exit : Bool) (body : List Tok) (tag : Tag)
  | locProbe (fid : Option Nat) (idx mode : Nat) (body : List Tok) (tag : Tag)
deriving Repr, DecidableEq

def Rec.tag : Rec → Tag
  | .type _ t | .import _ _ t | .export _ _ t | .memory _ _ t | .data _ _ t | .global _ _ _ t | .func _ _ _ _ t
  | .funcProbe _ _ _ t | .locProbe _ _ _ _ t => t

def typeRec? (p : Nat × Option Tag) : Option Rec := p.2.map (Rec.type p.1)
def typeRecs (s : St) : List Rec := s.types.filterMap typeRec?

/-- the import loop: deleted entries are skipped -/
def importRec? (i : Imp) : Option Rec := if i.del then none else i.tag.map (Rec.import i.uid i.kind)
def importRecs (s : St) : List Rec := s.imports.filterMap importRec?

def exportRec? (e : Exp) : Option Rec := if e.del then none else e.tag.map (Rec.export e.pos e.idx)
def exportRecs (s : St) : List Rec := s.exports.filterMap exportRec?

def dataRec? (d : Dat) : Option Rec := d.tag.map (Rec.data d.passive d.bytes)
def dataRecs (s : St) : List Rec := s.datas.filterMap dataRec?

/-- the function-section loop: local functions that are not deleted, in vector order -/
def funcRec? (e : Ent) : Option Rec :=
  if e.imp || e.del then none else e.tag.map (Rec.func e.uid e.id e.sig (e.body.flatMap rawTok))
def funcRecs (s : St) : List Rec := s.funcs.filterMap funcRec?

/-- the global loop fixes the initialiser in place before the record is taken -/
def globalRec? (m : Maps) (e : Ent) : Option Rec :=
  if e.imp || e.del then none else e.tag.map (Rec.global e.uid e.id (e.get.map (emitTok m)))
def globalRecs (m : Maps) (s : St) : List Rec := s.globals.filterMap (globalRec? m)

def memRec? (e : Ent) : Option Rec := if e.imp then none else e.tag.map (Rec.memory e.uid e.id)
def memRecs (s : St) : List Rec := s.mems.filterMap memRec?

def isFn : PKey → Bool
  | .fn _ => true
  | .loc .. => false

/-- rank of a probe list in the order of the report: function-level lists first (entry, then exit; the resolve pass
    runs before the sections), then by function, instruction, mode -/
def rank (p : Probe) : Nat × Nat × Nat × Nat :=
  match p.key with
  | .fn exit => (0, p.fid, if exit then 1 else 0, 0)
  | .loc idx mode => (1, p.fid, idx, mode)

def rankLe (a b : Nat × Nat × Nat × Nat) : Bool :=
  a.1 < b.1 || (a.1 == b.1 && (a.2.1 < b.2.1 || (a.2.1 == b.2.1 && (a.2.2.1 < b.2.2.1 || (a.2.2.1 == b.2.2.1 && a.2.2.2 ≤ b.2.2.2)))))

def insertProbe (p : Probe) : List Probe → List Probe
  | [] => [p]
  | q :: qs => if rankLe (rank p) (rank q) then p :: q :: qs else q :: insertProbe p qs

def sortProbes (ps : List Probe) : List Probe := ps.foldr insertProbe []

/-- is this a list the report shows? plain modes and function entry / exit with a non-empty body -/
def reported (p : Probe) : Bool :=
  !p.body.isEmpty && (match p.key with | .fn _ => true | .loc _ mode => mode ≤ 2)

def probeRec (m : Maps) (p : Probe) : Rec :=
  match p.key with
  | .fn exit => .funcProbe (m.f p.fid) exit (emitBody m p.body) (p.tag.getD [])
  | .loc idx mode => .locProbe (m.f p.fid) idx mode (emitBody m p.body) (p.tag.getD [])

def probeRecs (m : Maps) (s : St) : List Rec :=
  ((sortProbes s.probes).filter reported).map (probeRec m)

structure Report where
  types : List Rec
  imports : List Rec
  exports : List Rec
  mems : List Rec
  datas : List Rec
  globals : List Rec
  funcs : List Rec
  probes : List Rec
deriving Repr

def pullWith (m : Maps) (s : St) : Report :=
  { types := typeRecs s, imports := importRecs s, exports := exportRecs s, mems := memRecs s, datas := dataRecs s,
    globals := globalRecs m s, funcs := funcRecs s, probes := probeRecs m s }

def pull (s : St) : Option Report := (mapsOf s.ed).map (pullWith · s)

/-! ### the code a function is emitted with (plain modes), for the index-space statement -/

def listAt (ps : List Probe) (fid idx mode : Nat) : List RefTok :=
  match ps.find? (fun p => p.fid = fid ∧ p.key = .loc idx mode) with
  | some p => p.body
  | none => []

def hasAlt (ps : List Probe) (fid idx : Nat) : Bool := ps.any (fun p => p.fid = fid ∧ p.key = .loc idx 2)

/-- one instruction of the code loop: before, then the alternate or the instruction itself, then after -/
def emitInstr (m : Maps) (ps : List Probe) (fid : Nat) (idx : Nat) (op : List Tok) : List Tok :=
  emitBody m (listAt ps fid idx 0) ++ (if hasAlt ps fid idx then emitBody m (listAt ps fid idx 2) else op)
    ++ emitBody m (listAt ps fid idx 1)

def emitFrom (m : Maps) (ps : List Probe) (fid : Nat) : Nat → List (List Tok) → List Tok
  | _, [] => []
  | idx, op :: ops => emitInstr m ps fid idx op ++ emitFrom m ps fid (idx + 1) ops

/-- the body of function `fid` as encoded: `ops` are its own instructions (already renumbered), all but the final `end` -/
def emitFunc (m : Maps) (ps : List Probe) (fid : Nat) (ops : List (List Tok)) : List Tok := emitFrom m ps fid 0 ops

/-! ### the parsed module -/

/-- what the parser built: counts of imported / local entities of each space, the signatures of the type section,
    the function index of every export, the number of data segments. Nothing of it carries a tag. -/
structure Base where
  nif : Nat
  nlf : Nat
  nig : Nat
  nlg : Nat
  nim : Nat
  nlm : Nat
  types : List Nat
  exports : List Nat
  ndata : Nat
deriving Repr

def mkEnts (idStart uidStart n : Nat) (imp : Bool) (impBase : Nat) : List Ent :=
  (List.range n).map fun k => { uid := uidStart + k, id := idStart + k, imp := imp, tag := none, impPos := impBase + k }

def toItem (e : Ent) : Item := { id := e.id, imp := e.imp, del := e.del, uid := e.uid, impId := e.impPos }

def mkSpace (v : List Ent) (nimp : Nat) : Space := { items := v.map toItem, recalc := false, numImp := nimp, numImpAdded := 0 }

def mkImps (uidStart n : Nat) (k : Sp) : List Imp := (List.range n).map fun i => { uid := uidStart + i, kind := k, tag := none }

/-- uids number the parsed entities: functions, then globals, then memories; the import section lists function,
    global, memory imports in this order -/
def init (b : Base) : St :=
  let funcs := mkEnts 0 0 b.nif true 0 ++ mkEnts b.nif b.nif b.nlf false 0
  let g0 := b.nif + b.nlf
  let globals := mkEnts 0 g0 b.nig true b.nif ++ mkEnts b.nig (g0 + b.nig) b.nlg false 0
  let m0 := g0 + b.nig + b.nlg
  let mems := mkEnts 0 m0 b.nim true (b.nif + b.nig) ++ mkEnts b.nim (m0 + b.nim) b.nlm false 0
  let imports := mkImps 0 b.nif .F ++ mkImps g0 b.nig .G ++ mkImps m0 b.nim .M
  let exports : List Exp := b.exports.zipIdx.map fun p => { pos := p.2, idx := p.1, tag := none }
  { ed := { f := mkSpace funcs b.nif, g := mkSpace globals b.nig, m := mkSpace mems b.nim,
            imports := imports.map fun i => { sp := some i.kind, del := false, uid := i.uid },
            exports := exports.map fun e => ({ site := 1000000 + e.pos, sp := .F, idx := e.idx }, false) },
    types := b.types.map (·, none), imports := imports, funcs := funcs, globals := globals, mems := mems,
    exports := exports, datas := (List.range b.ndata).map fun _ => { passive := false, bytes := "", tag := none } }

end Orca.SideFx
