/-
M4 `Sem` — a structured core of WebAssembly (i32 values; locals, globals, one memory, calls, `block` / `loop` /
`if`-`else`, `br` / `br_if` / `br_table` / `return` / `unreachable`) with *annotation slots* for every
instrumentation mode, an executable semantics with a monitor switch, and the lowering of the annotations to code as
wirm places it (src/ir/module/mod.rs:648-977, 2226-2700).

With the monitor **on**, the slots fire by definition at the moments properties C16-C20 name; with the monitor
**off** the slots are ignored. `lowerL` turns an annotated program into an un-annotated one; the property theorems
(Orca/Props/C16-C20) say that running the lowered program with the monitor off gives what the annotated program gives
with the monitor on.
-/
namespace Orca.Sem

abbrev Tok := String

/-- semantic-after on a branch: the flag local the lowering uses, and the probes -/
structure SA where
  flag : Nat
  ps : List Nat
deriving Repr, DecidableEq

/-- block-level annotations of one body (a block, a loop, or one arm of an `if`) -/
structure Ann where
  entry : List Nat := []
  exit : List Nat := []     -- fires when the body / arm falls through
  after : List Nat := []    -- semantic after: fires when control reaches the instruction after the construct
deriving Repr, DecidableEq

/-- the non-structural instructions of the fragment, decoded (the driver parses tokens into these; `other` is anything
    else and cannot be executed) -/
inductive OpK where
  | nop | const (v : Nat) | drop | localGet (i : Nat) | localSet (i : Nat) | localTee (i : Nat)
  | globalGet (i : Nat) | globalSet (i : Nat)
  | add | sub | mul | and_ | or_ | xor_ | eq | ne | ltU | gtU | divU | remU | eqz | select
  | load (off : Nat) | store (off : Nat) | call (f : Nat)
  | other (t : Tok)
deriving Repr, DecidableEq

inductive Instr where
  /-- a non-structural, non-branching instruction (opaque token) with its before / after probes -/
  | op (before after : List Nat) (k : OpK)
  | probe (id : Nat)
  | block (before : List Nat) (ann : Ann) (arity : Nat) (tok : Tok) (body : List Instr)
  | loop (before : List Nat) (ann : Ann) (tok : Tok) (body : List Instr)
  | ite (before : List Nat) (annT annE : Ann) (arity : Nat) (tok : Tok) (t e : List Instr) (hasElse : Bool)
  /-- `after` lists of unconditional branches, `return` and `unreachable` are dead code: emitted, never fired -/
  | br (before after : List Nat) (sa : Option SA) (n : Nat)
  | brIf (before after : List Nat) (sa : Option SA) (n : Nat)
  | brTable (before after : List Nat) (sa : Option SA) (ts : List Nat) (d : Nat)
  | ret (before after : List Nat)
  | unreachable (before after : List Nat)
deriving Repr

structure St where
  stack : List Nat
  locals : List Nat
  globals : List Nat
  mem : List (Nat × Nat)      -- byte address ↦ byte, latest first
  trace : List Nat
deriving Repr, DecidableEq

inductive Out where
  | normal (s : St)
  | br (n : Nat) (pend : Option SA) (s : St)
  | ret (s : St)
  | trap (s : St)
  | stuck (why : String)     -- ill-typed code or fuel exhausted: never the outcome of a terminating valid program
deriving Repr

def St.fire (s : St) (ps : List Nat) : St := { s with trace := s.trace ++ ps }
def St.exitTo (s : St) (base : List Nat) (a : Nat) : St := { s with stack := s.stack.take a ++ base }

/-! ### the opaque instructions of the executable instance -/

def W : Nat := 4294967296

def memRead (m : List (Nat × Nat)) (a : Nat) : Nat :=
  match m.find? (·.1 == a) with
  | some p => p.2
  | none => 0

def load32 (m : List (Nat × Nat)) (a : Nat) : Nat :=
  memRead m a + 256 * memRead m (a + 1) + 65536 * memRead m (a + 2) + 16777216 * memRead m (a + 3)

def store32 (m : List (Nat × Nat)) (a v : Nat) : List (Nat × Nat) :=
  (a, v % 256) :: (a + 1, v / 256 % 256) :: (a + 2, v / 65536 % 256) :: (a + 3, v / 16777216 % 256) :: m

def memSize : Nat := 65536

/-- the part of the state an instruction can read or write (everything but the trace) -/
structure Core where
  stack : List Nat
  locals : List Nat
  globals : List Nat
  mem : List (Nat × Nat)
deriving Repr, DecidableEq

/-- result of a non-structural instruction: next state, a trap, a call, or stuck (does not type-check against the stack) -/
inductive CoreR where
  | ok (c : Core)
  | trap
  | call (f : Nat)
  | stuck
deriving Repr

def setNth (l : List Nat) (i v : Nat) : List Nat := if i < l.length then l.set i v else l

def stepCore (k : OpK) (s : Core) : CoreR :=
  let bin (f : Nat → Nat → Option Nat) : CoreR :=
    match s.stack with
    | b :: a :: st => match f a b with
      | some v => .ok { s with stack := v :: st }
      | none => .trap
    | _ => .stuck
  match k with
  | .nop => .ok s
  | .const v => .ok { s with stack := (v % W) :: s.stack }
  | .drop => match s.stack with
    | _ :: st => .ok { s with stack := st }
    | _ => .stuck
  | .localGet i => match s.locals[i]? with
    | some v => .ok { s with stack := v :: s.stack }
    | none => .stuck
  | .localSet i => match s.stack with
    | v :: st => if i < s.locals.length then .ok { s with stack := st, locals := setNth s.locals i v } else .stuck
    | _ => .stuck
  | .localTee i => match s.stack with
    | v :: _ => if i < s.locals.length then .ok { s with locals := setNth s.locals i v } else .stuck
    | _ => .stuck
  | .globalGet i => match s.globals[i]? with
    | some v => .ok { s with stack := v :: s.stack }
    | none => .stuck
  | .globalSet i => match s.stack with
    | v :: st => if i < s.globals.length then .ok { s with stack := st, globals := setNth s.globals i v } else .stuck
    | _ => .stuck
  | .add => bin (fun a b => some ((a + b) % W))
  | .sub => bin (fun a b => some ((a + W - b) % W))
  | .mul => bin (fun a b => some ((a * b) % W))
  | .and_ => bin (fun a b => some (Nat.land a b))
  | .or_ => bin (fun a b => some (Nat.lor a b))
  | .xor_ => bin (fun a b => some (Nat.xor a b))
  | .eq => bin (fun a b => some (if a = b then 1 else 0))
  | .ne => bin (fun a b => some (if a = b then 0 else 1))
  | .ltU => bin (fun a b => some (if a < b then 1 else 0))
  | .gtU => bin (fun a b => some (if a > b then 1 else 0))
  | .divU => bin (fun a b => if b = 0 then none else some (a / b))
  | .remU => bin (fun a b => if b = 0 then none else some (a % b))
  | .eqz => match s.stack with
    | a :: st => .ok { s with stack := (if a = 0 then 1 else 0) :: st }
    | _ => .stuck
  | .select => match s.stack with
    | c :: b :: a :: st => .ok { s with stack := (if c ≠ 0 then a else b) :: st }
    | _ => .stuck
  | .load off => match s.stack with
    | a :: st => if a + off + 4 ≤ memSize then .ok { s with stack := load32 s.mem (a + off) :: st } else .trap
    | _ => .stuck
  | .store off => match s.stack with
    | v :: a :: st => if a + off + 4 ≤ memSize then .ok { s with stack := st, mem := store32 s.mem (a + off) v } else .trap
    | _ => .stuck
  | .call f => .call f
  | .other _ => .stuck

def St.core (s : St) : Core := { stack := s.stack, locals := s.locals, globals := s.globals, mem := s.mem }
def St.withCore (s : St) (c : Core) : St := { s with stack := c.stack, locals := c.locals, globals := c.globals, mem := c.mem }

inductive StepR where
  | ok (s : St)
  | trap
  | call (f : Nat)
  | stuck
deriving Repr

/-- an instruction never looks at the trace -/
def stepTok (k : OpK) (s : St) : StepR :=
  match stepCore k s.core with
  | .ok c => .ok (s.withCore c)
  | .trap => .trap
  | .call f => .call f
  | .stuck => .stuck

/-- the functions a body may call (not instrumented): number of parameters, of results, of extra locals, the body;
    `log = true` marks the imported reporting function: it appends its argument to the trace -/
structure Callee where
  nparams : Nat
  nresults : Nat
  nlocals : Nat
  body : List Instr
  log : Bool := false
deriving Repr

def Out.isNormal : Out → Bool
  | .normal _ => true
  | _ => false

def saPs : Option SA → List Nat
  | some sa => sa.ps
  | none => []

/-- what a block-like construct with label arity `a` turns the outcome of its body into -/
def leaveBlock (m : Bool) (ann : Ann) (base : List Nat) (a : Nat) : Out → Out
  | .normal s => .normal (if m then (s.fire ann.exit).fire ann.after else s)
  | .br 0 pend s =>
    let s := s.exitTo base a
    .normal (if m then (s.fire (saPs pend)).fire ann.after else s)
  | .br (n + 1) pend s => .br n pend s
  | o => o

/-- what the caller sees when a (non-instrumented) callee finishes -/
def callRet (m : Bool) (after : List Nat) (s : St) (c : Callee) : Out → Out
  | .normal r | .ret r | .br 0 _ r =>
    let s' : St := { r with stack := r.stack.take c.nresults ++ s.stack.drop c.nparams, locals := s.locals }
    .normal (if m then s'.fire after else s')
  | .trap r => .trap { r with stack := s.stack, locals := s.locals }
  | .br (_ + 1) _ _ => .stuck "callee branch"
  | .stuck w => .stuck w

def Out.ok : Out → Bool
  | .stuck _ => false
  | _ => true

mutual
/-- the executable semantics; `m` = monitor on; `fx` = function-exit probes of the enclosing function -/
def run (fns : List Callee) (m : Bool) (fx : List Nat) : Nat → List Instr → St → Out
  | 0, _, _ => .stuck "fuel"
  | _ + 1, [], s => .normal s
  | fuel + 1, i :: is, s =>
    match runOne fns m fx fuel i s with
    | .normal s' => run fns m fx fuel is s'
    | o => o

def runOne (fns : List Callee) (m : Bool) (fx : List Nat) : Nat → Instr → St → Out
  | 0, _, _ => .stuck "fuel"
  | fuel + 1, i, s =>
    match i with
    | .op before after t =>
      let s := if m then s.fire before else s
      match stepTok t s with
      | .ok s' => .normal (if m then s'.fire after else s')
      | .trap => .trap s
      | .stuck => .stuck "op"
      | .call f =>
        match fns[f]? with
        | none => .stuck s!"call {f}"
        | some c =>
          if s.stack.length < c.nparams then .stuck "call args" else
          let args := (s.stack.take c.nparams).reverse
          if c.log then
            let s' : St := { s with stack := s.stack.drop c.nparams, trace := s.trace ++ args }
            .normal (if m then s'.fire after else s')
          else
          let callee : St := { s with stack := [], locals := args ++ List.replicate c.nlocals 0 }
          -- other callees are not instrumented: monitor off, no exit probes
          callRet m after s c (run fns false [] fuel c.body callee)
    | .probe id => .normal (s.fire [id])
    | .block before ann a _ body =>
      let s := if m then s.fire before else s
      leaveBlock m ann s.stack a (run fns m fx fuel body (if m then s.fire ann.entry else s))
    | .loop before ann tk body =>
      let s := if m then s.fire before else s
      match run fns m fx fuel body (if m then s.fire ann.entry else s) with
      | .normal s' => .normal (if m then (s'.fire ann.exit).fire ann.after else s')
      -- the label of a loop has no values in this fragment; the monitor's `before` slot belongs to the first entry only
      | .br 0 _ s' => runOne fns m fx fuel (.loop [] ann tk body) { s' with stack := s.stack }
      | .br (n + 1) pend s' => .br n pend s'
      | o => o
    | .ite before annT annE a _ t e _ =>
      let s := if m then s.fire before else s
      match s.stack with
      | v :: st =>
        let s0 : St := { s with stack := st }
        let afterBoth : List Nat := annT.after ++ annE.after
        if v ≠ 0 then
          leaveBlock m { annT with after := afterBoth } st a (run fns m fx fuel t (if m then s0.fire annT.entry else s0))
        else
          leaveBlock m { annE with after := afterBoth } st a (run fns m fx fuel e (if m then s0.fire annE.entry else s0))
      | [] => .stuck "if"
    | .br before _ sa n => .br n (if m then sa else none) (if m then s.fire before else s)
    | .brIf before after sa n =>
      let s := if m then s.fire before else s
      match s.stack with
      | v :: st =>
        let s0 : St := { s with stack := st }
        if v ≠ 0 then .br n (if m then sa else none) s0
        else .normal (if m then (s0.fire after).fire (saPs sa) else s0)
      | [] => .stuck "br_if"
    | .brTable before _ sa ts d =>
      let s := if m then s.fire before else s
      match s.stack with
      | v :: st => .br ((ts[v]?).getD d) (if m then sa else none) { s with stack := st }
      | [] => .stuck "br_table"
    | .ret before _ => .ret (if m then (s.fire before).fire fx else s)
    | .unreachable before _ => .trap (if m then (s.fire before).fire fx else s)
end

/-! ### functions -/

structure Func where
  entry : List Nat := []
  exit : List Nat := []
  nres : Nat
  body : List Instr
  /-- `before` probes on the function's final `end`: they fire when the body falls through to it (a branch to the function
      label, a `return` and a trap do not execute that `end`) -/
  endBefore : List Nat := []
deriving Repr

inductive FOut where
  | returned (results : List Nat) (s : St)
  | trapped (s : St)
  | stuck (why : String)
deriving Repr

/-- what the caller of the function sees -/
def finish (m : Bool) (f : Func) (base : List Nat) : Out → FOut
  | .normal s => .returned (s.stack.take f.nres) (if m then (s.fire f.endBefore).fire f.exit else s)
  | .br 0 pend s =>
    .returned (s.stack.take f.nres) (if m then ((s.exitTo base f.nres).fire (saPs pend)).fire f.exit else s.exitTo base f.nres)
  | .br (_ + 1) _ _ => .stuck "branch out of the function"
  | .ret s => .returned (s.stack.take f.nres) s
  | .trap s => .trapped s
  | .stuck w => .stuck w

def runFunc (fns : List Callee) (m : Bool) (fuel : Nat) (f : Func) (s : St) : FOut :=
  finish m f s.stack (run fns m f.exit fuel f.body (if m then s.fire f.entry else s))

/-! ### lowering, as the code places things -/

def probes (ps : List Nat) : List Instr := ps.map Instr.probe

/-- flag handling code the lowering generates -/
def setFlag (f v : Nat) : List Instr := [.op [] [] (.const v), .op [] [] (.localSet f)]

/-- `local.get f; if <probes> else <rest> end` -/
def flagChain : List SA → List Instr
  | [] => []
  | sa :: rest =>
    -- the code's shape (see `resolve_bodies`): the first check opens an `if`; every further one sits in an `else` with its
    -- own `if … end`; one closing `end`. For one or two entries this is a proper nest.
    [.op [] [] (.localGet sa.flag), .ite [] {} {} 0 "if" (probes sa.ps) (flagChain rest) (!rest.isEmpty)]

mutual
/-- annotated branches whose label reaches exactly `d` levels out of the fragment -/
def pendingI (d : Nat) : Instr → List SA
  | .br _ _ (some sa) n => if n = d then [sa] else []
  | .brIf _ _ (some sa) n => if n = d then [sa] else []
  | .brTable _ _ (some sa) ts dflt => (ts ++ [dflt]).filterMap (fun n => if n = d then some sa else none)
  | .block _ _ _ _ body => pendingL (d + 1) body
  | .loop _ _ _ body => pendingL (d + 1) body
  | .ite _ _ _ _ _ t e _ => pendingL (d + 1) t ++ pendingL (d + 1) e
  | _ => []
def pendingL (d : Nat) : List Instr → List SA
  | [] => []
  | i :: is => pendingI d i ++ pendingL d is
end

mutual
def lower (fx : List Nat) : Instr → List Instr
  | .op before after t => probes before ++ [.op [] [] t] ++ probes after
  | .probe id => [.probe id]
  | .block before ann a tk body =>
    probes before ++
    .block [] {} a tk (probes ann.entry ++ lowerL fx body ++ probes ann.exit) :: (flagChain (pendingL 0 body) ++ probes ann.after)
  | .loop before ann tk body =>
    probes before ++ .loop [] {} tk (probes ann.entry ++ lowerL fx body ++ probes ann.exit) :: probes ann.after
  | .ite before annT annE a tk t e hasElse =>
    probes before ++
    .ite [] {} {} a tk (probes annT.entry ++ lowerL fx t ++ probes annT.exit)
                    (probes annE.entry ++ lowerL fx e ++ probes annE.exit) hasElse
      :: (flagChain (pendingL 0 t ++ pendingL 0 e) ++ probes (annT.after ++ annE.after))
  | .br before after sa n =>
    match sa with
    | some s => probes before ++ setFlag s.flag 1 ++ [.br [] [] none n] ++ probes after ++ setFlag s.flag 0
    | none => probes before ++ [.br [] [] none n] ++ probes after
  | .brIf before after sa n =>
    match sa with
    | some s => probes before ++ setFlag s.flag 1 ++ [.brIf [] [] none n] ++ probes after ++ setFlag s.flag 0 ++ probes s.ps
    | none => probes before ++ [.brIf [] [] none n] ++ probes after
  | .brTable before after sa ts d =>
    match sa with
    | some s => probes before ++ setFlag s.flag 1 ++ [.brTable [] [] none ts d] ++ probes after ++ setFlag s.flag 0
    | none => probes before ++ [.brTable [] [] none ts d] ++ probes after
  | .ret before after => probes before ++ probes fx ++ [.ret [] []] ++ probes after
  | .unreachable before after => probes before ++ probes fx ++ [.unreachable [] []] ++ probes after
def lowerL (fx : List Nat) : List Instr → List Instr
  | [] => []
  | i :: is => lower fx i ++ lowerL fx is
end

/-- function level: entry probes, the wrapper block typed with the results (only when there are exit probes), the
    lowered body, the wrapper's `end`, the exit probes -/
def lowerF (f : Func) : Func :=
  { entry := [], exit := [], nres := f.nres,
    body :=
      if f.exit.isEmpty then probes f.entry ++ lowerL [] f.body ++ probes f.endBefore
      else probes f.entry ++ [Instr.block [] {} f.nres "block:functype" (lowerL f.exit f.body ++ probes f.endBefore)] ++ probes f.exit }

end Orca.Sem
