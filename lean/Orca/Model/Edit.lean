import Orca.Model.Reindex
/-
M2 `Edit` — the module edit API and the reference rewriting of `encode_internal`
(src/ir/module/mod.rs:1140-1772, 1778-2161; module_functions.rs, module_globals.rs, module_memories.rs,
module_imports.rs, module_exports.rs; wrappers.rs:365-607; types.rs:1581).

Three index spaces (functions, globals, memories) are vectors of `Item`s whose position is the id until the
first encode. Every place that holds an index is a *reference site* `Ref` (a unique site number, the index space,
the index currently stored there). The model follows the code in *which* sites are rewritten in place, which on
the fly, and which are re-emitted raw.
-/
namespace Orca.Edit
open Orca.Reindex

inductive Sp where
  | F | G | M
deriving Repr, DecidableEq

structure Ref where
  site : Nat
  sp : Sp
  idx : Nat
deriving Repr, DecidableEq

/-- one of the three vectors with its `recalculate_ids` flag and the `imports.num_*` / `imports.num_*_added` counters
    (the module's `num_local_*` counters no longer influence any id and are not modelled) -/
structure Space where
  items : List Item := []
  recalc : Bool := false
  numImp : Nat := 0
  numImpAdded : Nat := 0
deriving Repr

/-- an entry of `ModuleImports.imports`; `sp = none` for table and tag imports -/
structure ImpEntry where
  sp : Option Sp
  del : Bool
  uid : Nat
deriving Repr

structure St where
  f : Space := {}
  g : Space := {}
  m : Space := {}
  imports : List ImpEntry := []
  /-- function uid ↦ reference sites of its body and of the code injected into it, in emission order -/
  code : List (Nat × List Ref) := []
  /-- global uid ↦ sites of its initialiser -/
  ginit : List (Nat × List Ref) := []
  /-- export entries: site, deleted -/
  exports : List (Ref × Bool) := []
  start : Option Ref := none
  /-- entries of element segments given as function lists -/
  elems : List Ref := []
  /-- sites inside element expressions, element offsets and table initialisers (kept as parsed, mapped on the fly) -/
  raws : List Ref := []
  /-- active data segments: memory site, sites of the offset expression -/
  datas : List (Ref × List Ref) := []
  /-- `data.len()`: all data segments, passive ones included -/
  numData : Nat := 0
deriving Repr

def St.space (s : St) : Sp → Space
  | .F => s.f | .G => s.g | .M => s.m

def St.setSpace (s : St) (sp : Sp) (x : Space) : St :=
  match sp with
  | .F => { s with f := x } | .G => { s with g := x } | .M => { s with m := x }

inductive Op where
  | addLocalFunc (uid : Nat) (sites : List Ref)            -- FunctionBuilder::finish_module
  | addImportFunc (uid : Nat)
  | deleteFunc (id : Nat)
  | localToImport (id : Nat) (uid : Nat)                   -- convert_local_fn_to_import
  | replaceImport (impId : Nat) (uid : Nat) (sites : List Ref)   -- FunctionBuilder::replace_import_in_module(ImportsID)
  | inject (id : Nat) (sites : List Ref)       -- code injected into the function with this id
  | addGlobal (uid : Nat) (sites : List Ref)               -- Module::add_global
  | addImportedGlobal (uid : Nat)
  | iterAddGlobal (uid : Nat) (sites : List Ref)           -- ModuleIterator::add_global
  | deleteGlobal (id : Nat)
  | modGlobalInit (id : Nat) (sites : List Ref)
  | addLocalMem (uid : Nat)
  | addImportMem (uid : Nat)
  | deleteMem (id : Nat)
  | addExport (r : Ref)                        -- exports.add_export_func / add_export_mem
  | deleteExport (i : Nat)
  | addData (mem : Ref) (sites : List Ref)
  | encode
deriving Repr

/-- what an operation reports back -/
inductive Ret where
  | id (n : Nat)
  | id2 (n imp : Nat)       -- (entity id, ImportsID)
  | bool (b : Bool)
  | unit
  | panic (why : String)
  | encoded (fspace gspace mspace : List Nat) (resolved : List Ref) (start : Option Ref)
deriving Repr

/-- `Module::add_import`: the id it reports (the position the new item is about to get), and the `ImportsID` -/
def addImport (s : St) (sp : Sp) (uid : Nat) : St × Nat × Nat :=
  let x := s.space sp
  let id := x.items.length
  let impId := s.imports.length
  let s : St := { s with imports := s.imports ++ [({ sp := some sp, del := false, uid := uid } : ImpEntry)] }
  let x : Space := { x with numImp := x.numImp + 1, numImpAdded := x.numImpAdded + 1 }
  (s.setSpace sp x, id, impId)

def setItem (l : List Item) (i : Nat) (f : Item → Item) : List Item :=
  match l[i]? with
  | some x => l.set i (f x)
  | none => l

def lookup (l : List (Nat × List Ref)) (k : Nat) : List Ref :=
  match l.find? (·.1 == k) with
  | some p => p.2
  | none => []

def setAssoc (l : List (Nat × List Ref)) (k : Nat) (v : List Ref) : List (Nat × List Ref) :=
  if l.any (·.1 == k) then l.map (fun p => if p.1 == k then (k, v) else p) else l ++ [(k, v)]

def markImportDeleted (imports : List ImpEntry) (impId : Nat) : Option (List ImpEntry) :=
  match imports[impId]? with
  | some e => some (imports.set impId { e with del := true })
  | none => none

/-- `delete_func` / `delete_global` / `delete_memory`: mark the entity (silently nothing if out of range), then
    index the vector (panics if out of range) and delete the import entry of an imported entity -/
def deleteEntity (s : St) (sp : Sp) (id : Nat) : St × Ret :=
  let x := s.space sp
  let items := setItem x.items id (fun (it : Item) => { it with del := true })
  let s : St := s.setSpace sp { x with items := items, recalc := true }
  match items[id]? with
  | none => (s, .panic "index out of bounds")
  | some it =>
    if it.imp then
      match markImportDeleted s.imports it.impId with
      | some imps => ({ s with imports := imps }, .unit)
      | none => (s, .panic "import index out of bounds")
    else (s, .unit)

/-- the first encode step for one space: returns the (possibly reorganised) vector and the id map -/
def remap (x : Space) : Option (List Item) :=
  if x.recalc then recalculate (x.numImp - x.numImpAdded) x.items else some x.items

/-- rewrite one site through a map; `none` = the code panics ("Deleted function!" etc.) -/
def mapRef (fi gi mi : List Item) (r : Ref) : Option Ref :=
  let ys := match r.sp with | .F => fi | .G => gi | .M => mi
  (mapping ys r.idx).map (fun p => { r with idx := p })

def mapRefs (fi gi mi : List Item) (rs : List Ref) : Option (List Ref) := rs.mapM (mapRef fi gi mi)

def impUids (imports : List ImpEntry) (sp : Sp) : List Nat :=
  (imports.filter (fun (e : ImpEntry) => e.sp == some sp && !e.del)).map (fun (e : ImpEntry) => e.uid)

/-- fix the sites owned by each emitted entity (`owners` = uids in emission order); `none` = panic -/
def fixOwned (fi gi mi : List Item) (tbl : List (Nat × List Ref)) (owners : List Nat) : Option (List (Nat × List Ref)) :=
  owners.mapM (fun (u : Nat) => (mapRefs fi gi mi (lookup tbl u)).map (fun (rs : List Ref) => (u, rs)))

/-- replace the sites of an existing owner (the fix-up happens in place; nothing is ever added) -/
def updAssoc (l : List (Nat × List Ref)) (k : Nat) (v : List Ref) : List (Nat × List Ref) :=
  l.map (fun (p : Nat × List Ref) => if p.1 == k then (k, v) else p)

def storeBack (tbl : List (Nat × List Ref)) (fixed : List (Nat × List Ref)) : List (Nat × List Ref) :=
  fixed.foldl (fun (acc : List (Nat × List Ref)) (p : Nat × List Ref) => updAssoc acc p.1 p.2) tbl

def emittedLocals (items : List Item) : List Nat :=
  (items.filter (fun (i : Item) => !i.imp && !i.del)).map (fun (i : Item) => i.uid)

/-- exports: function, memory and global indices are mapped on the fly (table and tag exports, which the model does
    not carry, are emitted raw) -/
def mapExport (fi gi mi : List Item) (r : Ref) : Option Ref := mapRef fi gi mi r

def fixData (fi gi mi : List Item) (d : Ref × List Ref) : Option ((Ref × List Ref) × Ref) :=
  match mapRefs fi gi mi d.2, mapRef fi gi mi d.1 with
  | some off, some mem => some ((d.1, off), mem)
  | _, _ => none

/-- everything `encode_internal` rewrites, after rewriting -/
structure Fixed where
  ginit : List (Nat × List Ref)
  exps : List Ref
  elems : List Ref
  raws : List Ref
  code : List (Nat × List Ref)
  datas : List ((Ref × List Ref) × Ref)

/-- the reference rewriting of `encode_internal` in section order (globals, exports, elements and the constant
    expressions kept as parsed, code, data); `none` = one of the `panic!`s on a missing map entry -/
def fixAll (fi gi mi : List Item) (s : St) : Option Fixed :=
  -- globals: initialisers of the emitted local globals, fixed in place
  (fixOwned fi gi mi s.ginit (emittedLocals gi)).bind fun ginit' =>
  -- exports: function, memory and global indices mapped on the fly
  (((s.exports.filter (fun (e : Ref × Bool) => !e.2)).map (fun (e : Ref × Bool) => e.1)).mapM (mapExport fi gi mi)).bind fun exps =>
  (mapRefs fi gi mi s.elems).bind fun elems =>
  (mapRefs fi gi mi s.raws).bind fun raws =>
  -- code: emitted local functions in vector order, sites fixed in place
  (fixOwned fi gi mi s.code (emittedLocals fi)).bind fun code' =>
  -- data: offset expression in place, memory index on the fly
  (s.datas.mapM (fixData fi gi mi)).bind fun ds =>
  some { ginit := ginit', exps := exps, elems := elems, raws := raws, code := code', datas := ds }

def Fixed.resolved (x : Fixed) : List Ref :=
  (x.ginit.flatMap (fun (p : Nat × List Ref) => p.2)) ++ x.exps ++ x.elems ++ x.raws
    ++ (x.code.flatMap (fun (p : Nat × List Ref) => p.2))
    ++ (x.datas.flatMap (fun (d : (Ref × List Ref) × Ref) => d.2 :: d.1.2))

/-- `encode_internal`, restricted to index spaces and reference sites; returns the state as the code leaves it
    (vectors reorganised, in-place sites rewritten, start stored back, flags untouched) -/
def encode (s : St) : St × Ret :=
  match remap s.f, remap s.g, remap s.m with
  | some fi, some gi, some mi =>
    -- start: mapped and stored back, dropped when absent
    let start' : Option Ref := s.start.bind (mapRef fi gi mi)
    let s1 : St := { s with f := { s.f with items := fi }, g := { s.g with items := gi }, m := { s.m with items := mi },
                            start := start' }
    match fixAll fi gi mi s with
    | none => (s1, Ret.panic "reference to a deleted function, global or memory")
    | some x =>
      -- index spaces of the output: imports in `imports` order, then the locals of each vector in vector order
      let fspace := impUids s.imports Sp.F ++ emittedLocals fi
      -- the memory loop does not test `deleted`
      let mspace := impUids s.imports Sp.M ++ (mi.filter (fun (i : Item) => !i.imp)).map (fun (i : Item) => i.uid)
      let gspace := impUids s.imports Sp.G ++ emittedLocals gi
      let s2 : St := { s1 with ginit := storeBack s.ginit x.ginit, code := storeBack s.code x.code,
                               datas := x.datas.map (fun (d : (Ref × List Ref) × Ref) => d.1) }
      (s2, Ret.encoded fspace gspace mspace x.resolved start')
  | _, _, _ => (s, Ret.panic "assertion failed: items.len() == id_mapping.len()")

def mkItem (id : Nat) (imp : Bool) (uid : Nat) (impId : Nat) : Item :=
  { id := id, imp := imp, del := false, uid := uid, impId := impId }

def Space.push (x : Space) (it : Item) : Space := { x with items := x.items ++ [it] }

/-- `add_local_func_with_tag` through `FunctionBuilder::finish_module`: id = vector length; the builder's
    assertion `id + 1 == functions.len()` holds by construction -/
def addLocalFunc (s : St) (uid : Nat) (sites : List Ref) : St × Ret :=
  let id := s.f.items.length
  let f : Space := { (s.f.push (mkItem id false uid 0)) with recalc := true }
  ({ s with f := f, code := s.code ++ [(uid, sites)] }, Ret.id id)

/-- `add_import_func` (`Functions::add_import_func` asserts `next_id == imp_fn_id`, true by construction) -/
def addImportFunc (s : St) (uid : Nat) : St × Ret :=
  let r := addImport s Sp.F uid
  let s := r.1
  let f : Space := { (s.f.push (mkItem r.2.1 true uid r.2.2)) with recalc := true }
  ({ s with f := f }, Ret.id2 r.2.1 r.2.2)

/-- `convert_local_fn_to_import` -/
def localToImport (s : St) (id uid : Nat) : St × Ret :=
  match s.f.items[id]? with
  | none => (s, Ret.panic "index out of bounds")
  | some it =>
    if it.imp then (s, Ret.bool false)
    else
      let d := deleteEntity s Sp.F id
      match d.2 with
      | Ret.panic w => (d.1, Ret.panic w)
      | _ =>
        let r := addImport d.1 Sp.F uid
        let s := r.1
        let impId := r.2.2
        let items := setItem s.f.items id (fun _ => mkItem id true uid impId)
        ({ s with f := { s.f with items := items } }, Ret.bool true)

/-- `FunctionBuilder::replace_import_in_module(ImportsID)`: `imports.get(import_id)` must be a function import;
    then `convert_import_fn_to_local(import_id, f)`, which finds the (non-deleted) function carrying that import and
    silently does nothing when there is none -/
def replaceImport (s : St) (impId uid : Nat) (sites : List Ref) : St × Ret :=
  match s.imports[impId]? with
  | none => (s, Ret.panic "import index out of bounds")
  | some e =>
    if e.sp != some Sp.F then (s, Ret.panic "the specified import ID does not point to a function!")
    else
      match s.f.items.findIdx? (fun (it : Item) => !it.del && it.imp && it.impId == impId) with
      | none => (s, Ret.unit)
      | some fid =>
        let d := deleteEntity s Sp.F fid
        match d.2 with
        | Ret.panic w => (d.1, Ret.panic w)
        | _ =>
          let s := d.1
          let items := setItem s.f.items fid (fun _ => mkItem fid false uid 0)
          ({ s with f := { s.f with items := items }, code := s.code ++ [(uid, sites)] }, Ret.unit)

def inject (s : St) (id : Nat) (sites : List Ref) : St × Ret :=
  match s.f.items[id]? with
  | none => (s, Ret.panic "index out of bounds")
  | some it =>
    if it.imp then (s, Ret.panic "Cannot add an instruction to an imported function")
    else ({ s with code := setAssoc s.code it.uid (lookup s.code it.uid ++ sites) }, Ret.unit)

/-- `Module::add_global`: `ModuleGlobals::add` (id = position); the flag is not set -/
def addGlobal (s : St) (uid : Nat) (sites : List Ref) : St × Ret :=
  let id := s.g.items.length
  ({ s with g := s.g.push (mkItem id false uid 0), ginit := s.ginit ++ [(uid, sites)] }, Ret.id id)

/-- `add_imported_global`: `add_import` first, then `ModuleGlobals::add` stores the global at the end with the
    position as its id; the reported id is `add_import`'s (the same number) -/
def addImportedGlobal (s : St) (uid : Nat) : St × Ret :=
  let r := addImport s Sp.G uid
  let s := r.1
  let pos := s.g.items.length
  let g : Space := { (s.g.push (mkItem pos true uid r.2.2)) with recalc := true }
  ({ s with g := g }, Ret.id2 r.2.1 r.2.2)

/-- the iterators' `add_global`: `ModuleGlobals::add` directly (same as `addGlobal` for the index spaces) -/
def iterAddGlobal (s : St) (uid : Nat) (sites : List Ref) : St × Ret :=
  let id := s.g.items.length
  ({ s with g := s.g.push (mkItem id false uid 0), ginit := s.ginit ++ [(uid, sites)] }, Ret.id id)

def modGlobalInit (s : St) (id : Nat) (sites : List Ref) : St × Ret :=
  match s.g.items[id]? with
  | some it =>
    if it.imp then (s, Ret.panic "Cannot update requested global's init_expr")
    else ({ s with ginit := setAssoc s.ginit it.uid sites }, Ret.unit)
  | none => (s, Ret.panic "Cannot update requested global's init_expr")

def addLocalMem (s : St) (uid : Nat) : St × Ret :=
  let id := s.m.items.length
  let m : Space := { (s.m.push (mkItem id false uid 0)) with recalc := true }
  ({ s with m := m }, Ret.id id)

def addImportMem (s : St) (uid : Nat) : St × Ret :=
  let r := addImport s Sp.M uid
  let s := r.1
  let m : Space := { (s.m.push (mkItem r.2.1 true uid r.2.2)) with recalc := true }
  ({ s with m := m }, Ret.id2 r.2.1 r.2.2)

def deleteExport (s : St) (i : Nat) : St × Ret :=
  match s.exports[i]? with
  | some e => ({ s with exports := s.exports.set i (e.1, true) }, Ret.unit)
  | none => (s, Ret.panic "index out of bounds")

def step (s : St) : Op → St × Ret
  | .addLocalFunc uid sites => addLocalFunc s uid sites
  | .addImportFunc uid => addImportFunc s uid
  | .deleteFunc id => deleteEntity s Sp.F id
  | .localToImport id uid => localToImport s id uid
  | .replaceImport impId uid sites => replaceImport s impId uid sites
  | .inject id sites => inject s id sites
  | .addGlobal uid sites => addGlobal s uid sites
  | .addImportedGlobal uid => addImportedGlobal s uid
  | .iterAddGlobal uid sites => iterAddGlobal s uid sites
  | .deleteGlobal id => deleteEntity s Sp.G id
  | .modGlobalInit id sites => modGlobalInit s id sites
  | .addLocalMem uid => addLocalMem s uid
  | .addImportMem uid => addImportMem s uid
  | .deleteMem id => deleteEntity s Sp.M id
  | .addExport r => ({ s with exports := s.exports ++ [(r, false)] }, Ret.unit)
  | .deleteExport i => deleteExport s i
  | .addData mem sites => ({ s with datas := s.datas ++ [(mem, sites)], numData := s.numData + 1 }, Ret.id s.numData)
  | .encode => encode s

def run (s : St) : List Op → St × List Ret
  | [] => (s, [])
  | op :: ops =>
    let r := step s op
    match r.2 with
    | .panic _ => (r.1, [r.2])        -- the harness stops a history at the first panic
    | _ =>
      let r2 := run r.1 ops
      (r2.1, r.2 :: r2.2)

end Orca.Edit
