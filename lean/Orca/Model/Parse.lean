import Orca.Gen.ConstExpr
/-
M11 `Parse` — the part of `Module::parse_internal` (src/ir/module/mod.rs:128-606) that is wirm's own: what it does with
the facts it reads, in the order it reads them, and the checks at the end. Input: the event list of
harness/src/parse_facts.rs (extracted with wasmparser alone). Every place where the Rust code indexes a vector, looks a
key up or subtracts is a `panic` leaf here, reached exactly when the Rust operation would panic; the property (C03) is
that no event list reaches one.
-/
namespace Orca.Parse
open Orca.Gen

inductive Ev where
  | readerError                      -- `E`
  | version (n : Nat)
  | unknownSection (id : Nat)
  | other
  | imports (nfuncs : Nat)
  | types (isFunc : List Bool)
  | funcs (tys : List Nat)
  | codeStart (n : Nat)
  | body (missingEnd reservedByte : Bool)
  | names (idxs : List Nat)
  | constExpr (ops : List String) (readErr extra : Bool)
  | start
  | dataCount (n : Nat)
  | data (n : Nat)
deriving Repr

inductive Outcome where
  | ok
  | err (why : String)
  | panic (site : String)
deriving Repr, DecidableEq

structure PS where
  nimp : Nat := 0                -- `imports.num_funcs`
  types : List Bool := []        -- per type id: is it a function type?
  funcs : List Nat := []         -- function section
  ccDeclared : Nat := 0
  bodies : Nat := 0              -- `code_sections.len()`
  named : List Nat := []         -- code entries that received a name (relative indices)
  startSeen : Bool := false
  dataDeclared : Option Nat := none
  dataLen : Nat := 0
deriving Repr

/-- `InitExpr::eval`: every operator in front of `End` must have an arm; nothing may follow `End` -/
def evalOk (ops : List String) (readErr extra : Bool) : Bool :=
  let body := ops.filter (· != "End")
  body.all (fun o => evalTable.any (fun r => r.1 == o)) && !readErr && !extra

/-- one payload; `.inl` = return from `parse_internal` -/
def step (s : PS) : Ev → Sum Outcome PS
  | .readerError => .inl (.err "reader")
  | .version n => if n != 1 then .inl (.err "UnknownVersion") else .inr s
  | .unknownSection _ => .inl (.err "UnknownSection")
  | .other => .inl (.err "unsupported section")
  | .imports n => .inr { s with nimp := n }
  | .types ks => .inr { s with types := s.types ++ ks }
  | .funcs ts => .inr { s with funcs := s.funcs ++ ts }
  | .codeStart n => .inr { s with ccDeclared := n }
  | .body missingEnd reserved =>
    if missingEnd then .inl (.err "MissingFunctionEnd")
    else if reserved then .inl (.err "InvalidMemoryReservedByte")
    else .inr { s with bodies := s.bodies + 1 }
  | .names idxs =>
    -- `abs_idx < imports.num_funcs`: an import's name; otherwise `rel_idx = abs_idx - imports.num_funcs` (u32 subtraction)
    -- and `code_sections.get_mut(rel_idx)`: names without a code entry are ignored
    let rels := idxs.filterMap (fun a => if a < s.nimp then none else some (a - s.nimp))
    .inr { s with named := s.named ++ rels.filter (· < s.bodies) }
  | .constExpr ops readErr extra => if evalOk ops readErr extra then .inr s else .inl (.err "constant expression")
  | .start => if s.startSeen then .inl (.err "MultipleStartSections") else .inr { s with startSeen := true }
  | .dataCount n => .inr { s with dataDeclared := some n }
  | .data n => .inr { s with dataLen := n }

/-- the loop at the end of `parse_internal` that builds the local functions: `functions[index]` and the type lookup -/
def buildFuncs (s : PS) : Nat → Outcome
  | 0 => .ok
  | k + 1 =>
    match buildFuncs s k with
    | .ok =>
      -- `functions[index]` with `index = k` (indexing panics when out of range)
      match s.funcs[k]? with
      | none => .panic "functions[index]"
      | some ty =>
        match s.types[ty]? with
        | some true => .ok
        | _ => .err "function type"
    | o => o

def finish (s : PS) : Outcome :=
  if s.ccDeclared != s.bodies || s.ccDeclared != s.funcs.length then .err "IncorrectCodeCounts"
  else
    match s.dataDeclared with
    | some n => if n != s.dataLen then .err "IncorrectDataCount" else buildFuncs s s.bodies
    | none => buildFuncs s s.bodies

def run (s : PS) : List Ev → Outcome
  | [] => finish s
  | e :: es =>
    match step s e with
    | .inl o => o
    | .inr s' => run s' es

def parseM (evs : List Ev) : Outcome := run {} evs

end Orca.Parse
