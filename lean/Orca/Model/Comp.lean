/-
M10 `Comp` — how `Component::parse_comp` / `encode_comp` (src/ir/component.rs:170-474, 492-1139) keep the order of a
component's sections, and which of the payloads that `parse_all` streams by belong to the component being parsed.

(i)  record / replay: while parsing, every item goes to the vector of its kind and the run-length list `sections`
     records `(count, kind)` (`add_to_sections` merges a section into the previous run when the kind repeats); `encode`
     walks `sections` with one cursor per kind.
(ii) ownership: `parse_all` over a component also yields the payloads of nested modules and components (each closed by an
     `End`); the loop skips them with a stack: `End` pops, a `ModuleSection` / `ComponentSection` pushes (at depth 0 it is
     recorded and parsed on its own; below it only pushes), everything else is recorded only at depth 0.
-/
namespace Orca.Comp

/-! ### (i) record / replay -/

variable {κ α : Type} [DecidableEq κ]

/-- `add_to_sections` -/
def addToSections (secs : List (Nat × κ)) (k : κ) (n : Nat) : List (Nat × κ) :=
  match secs.getLast? with
  | some (c, k') => if k' = k then secs.dropLast ++ [(c + n, k)] else secs ++ [(n, k)]
  | none => [(n, k)]

/-- the items of kind `k`, in parse order (the per-kind vectors) -/
def store (items : List (κ × α)) (k : κ) : List α := (items.filter (fun p => p.1 = k)).map (·.2)

/-- `encode_comp`: for each run take the next `n` items of that kind -/
def replay (st : κ → List α) : List (Nat × κ) → (κ → Nat) → List (κ × α)
  | [], _ => []
  | (n, k) :: rest, cur =>
    (((st k).drop (cur k)).take n).map (fun a => (k, a))
      ++ replay st rest (fun k' => if k' = k then cur k + n else cur k')

/-- a run-length list describes a sequence of kinds -/
def expandRuns : List (Nat × κ) → List κ
  | [] => []
  | (n, k) :: rest => List.replicate n k ++ expandRuns rest

/-! ### (ii) ownership of streamed payloads -/

/-- what `parse_all` yields, as far as the loop distinguishes: an ordinary payload (with an identity for the statement),
    the start of a nested module or component, an `End` -/
inductive Ev where
  | payload (id : Nat)
  | moduleStart (id : Nat)
  | componentStart (id : Nat)
  | end_
deriving Repr, DecidableEq

/-- a component: its items in order; a nested module streams some payloads and an `End`, a nested component streams its own
    items and an `End` -/
inductive Item where
  | section_ (id : Nat)
  | module (id : Nat) (payloads : List Nat)
  | component (id : Nat) (items : List Item)
deriving Repr

mutual
def streamI : Item → List Ev
  | .section_ id => [.payload id]
  | .module id ps => .moduleStart id :: (ps.map Ev.payload ++ [.end_])
  | .component id items => .componentStart id :: (streamL items ++ [.end_])
def streamL : List Item → List Ev
  | [] => []
  | i :: is => streamI i ++ streamL is
end

/-- what the component being parsed should record: its own sections and the starts of its direct children -/
def ownEv : Item → Ev
  | .section_ id => .payload id
  | .module id _ => .moduleStart id
  | .component id _ => .componentStart id

/-- the loop of `parse_comp` (after the repair of F21): `depth` = length of the stack; returns what is recorded -/
def loop : Nat → List Ev → List Ev
  | _, [] => []
  | depth, e :: es =>
    -- `if let End = payload { if !stack.is_empty() { stack.pop() } }`
    let depth := if e = .end_ && depth > 0 then depth - 1 else depth
    if depth > 0 then
      -- skipping: nested starts push
      match e with
      | .moduleStart _ | .componentStart _ => loop (depth + 1) es
      | _ => loop depth es
    else
      match e with
      | .moduleStart _ | .componentStart _ => e :: loop 1 es
      | .payload _ => e :: loop 0 es
      | .end_ => loop 0 es

/-! ### (iii) the recursion of `parse_comp` is bounded -/

mutual
/-- how deep components are nested below an item (a nested component counts one level) -/
def nestI : Item → Nat
  | .component _ items => nestL items + 1
  | _ => 0
def nestL : List Item → Nat
  | [] => 0
  | i :: is => max (nestI i) (nestL is)
end

mutual
/-- `parse_comp` at nesting depth `depth`: a nested component is parsed recursively unless `depth >= limit` (then: `Err`);
    the result is the greatest depth at which `parse_comp` ran (`none`: the error) -/
def parseDepthI (limit depth : Nat) : Item → Option Nat
  | .component _ items => if depth ≥ limit then none else parseDepthL limit (depth + 1) items
  | _ => some depth
def parseDepthL (limit depth : Nat) : List Item → Option Nat
  | [] => some depth
  | i :: is =>
    match parseDepthI limit depth i with
    | none => none
    | some a =>
      match parseDepthL limit depth is with
      | none => none
      | some b => some (max a b)
end

end Orca.Comp
