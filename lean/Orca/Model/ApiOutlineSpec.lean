/-!
The control-and-call skeletons of the edit / builder / iterator API functions **as reviewed** when the models M1, M2, M5, M6, M7, M13 and M14 were
transcribed (the format of translator/scan_api.py, which regenerates `Orca.Gen.ApiOutline.*` from /repo on every run). Each property's Props
file states `generated = reviewed` for the functions it rests on. Hand-maintained; never generated.
-/
namespace Orca.ApiOutlineSpec

/-- M1 `Reindex.reorganise`: one pass over the vector; a deleted entry is removed (counting it as an import when it sits in the imported prefix), a local entry found in the imported prefix is moved behind the vector, an import found in the local part is moved to the end of the imported prefix -/
def reorganise_generic : List String :=
  ["for", "if", "if", ".is_deleted()", ".remove()", "num_imported -=", "num_deleted +=", "else", "if", ".is_local()",
   ".remove()", ".push()", "num_imported -=", "num_deleted +=", "else", "if", ".is_deleted()", ".remove()",
   "num_deleted +=", "else", "if", ".is_import()", ".remove()", ".insert()", "num_imported +="]

/-- M1 `sortImports`: the imported prefix is brought into the order of the import section by insertion at the partition point -/
def order_imports_generic : List String :=
  [".take_while()", ".is_import()", ".map()", ".import_id()", ".unwrap_or()", "with_capacity()", "for",
   ".partition_point()", "if", ".remove()", ".insert()", ".insert()"]

/-- M1 `mapping`: stored id ↦ position, for every entry -/
def get_mapping_generic : List String :=
  ["HashMap::new()", "for", ".get_id()", ".insert()"]

/-- M1 `recalc`: reorganise, order the imports, build the mapping; the length assertion -/
def recalculate_ids : List String :=
  [".get_into_iter()", "reorganise_generic()", "order_imports_generic()", "get_mapping_generic()", "assert_eq!"]

/-- M2 `addImport*`: the import is appended to the import list; functions, globals and memories only -/
def add_import : List String :=
  ["match", "Func()", "Global()", "Table()", "todo!", "Tag()", "todo!", "Memory()", ".add()"]

/-- M2 `deleteFunc`: the entry is flagged deleted; for an imported function its import entry too -/
def delete_func : List String :=
  [".delete()", "if", "Import()", ".get_kind()", ".delete()"]

/-- M2 `deleteGlobal`: as for functions -/
def delete_global : List String :=
  [".delete()", "if", "Import()", ".get_kind()", ".delete()"]

/-- M2 `deleteMemory`: as for functions -/
def delete_memory : List String :=
  [".delete()", "if", "Import()", ".get_kind()", ".delete()"]

/-- M2 `replaceImport` (module side): the import entry that designates the function is found by its stored function id, marked deleted, and the function's kind becomes local -/
def convert_import_fn_to_local : List String :=
  [".position()", "matches!", ".kind()", "Import()", "if", ".map()", "else", "return", ".func_id =",
   ".delete_func()", ".get_mut()", ".set_kind()", "Local()", "Box::new(local_function)"]

/-- M2 / M14 `replaceImport` (builder side): the final `end`; the import must be a function import whose type equals the built signature; the new local function takes the import's own type id and is named after the import's field -/
def replace_import_in_module_with_tag : List String :=
  [".end()", ".get()", "if", "Func()", "if", ".get()", "TypeID()", "if", ".params()", ".results()",
   "LocalFunction::new(TypeID(imp_ty_id),FunctionID(*import_id),self.body.clone(),self.params.len(),Some(tag))",
   "TypeID()", ".name =", ".to_string()", ".convert_import_fn_to_local()", "else", "panic!", "else", "panic!",
   "else", "panic!"]

/-- M2 `localToImport`: refused for imports; the import is appended to the import list and the function's kind becomes import -/
def convert_local_fn_to_import_with_tag : List String :=
  ["if", ".is_import()", "return", ".delete_func()", ".add_import()",
   "Import{module:module.leak(),name:name.clone().leak(),ty:TypeRef::Func(*ty_id),custom_name:None,deleted:false,tag:Some(tag)}",
   ".leak()", ".leak()", "Func()", ".get_mut()", ".set_kind()", "Import()",
   "ImportedFunction{import_id,import_fn_id:function_id,ty_id}", "assert!", ".set_imported_fn_name()"]

/-- M14 `finishModule` (module side): the signature is interned, the local-function counter bumped, the function appended -/
def add_local_func_with_tag : List String :=
  [".add_func_type()", "LocalFunction::new(ty,FunctionID(0),body,params.len(),Some(tag))", ".num_local_functions +=",
   ".add_local_func()"]

/-- M14 `finishModule` (builder side): the final `end`, then the module side; the id assertion -/
def finish_module_with_tag : List String :=
  [".end()", ".add_local_func_with_tag()", "assert_eq!"]

/-- M5 `addType`: an equal type already present is returned; otherwise a new id, its own recursion group when explicit -/
def add_type : List String :=
  [".contains_key()", ".entry()", ".or_insert()", "TypeID()", "if", ".insert()", ".push()",
   "RecGroup::new(vec![ty_id],false)"]

/-- M5 `addFuncType`: a final function type without supertype, interned through `add_type` -/
def add_func_type : List String :=
  [
   "Types::FuncType{params:param.to_vec().into_boxed_slice(),results:ret.to_vec().into_boxed_slice(),super_type:None,is_final:true,shared:false,tag}",
   ".into_boxed_slice()", ".into_boxed_slice()", ".add_type()"]

/-- M6 `addLocal`: the number of locals grows by one; the last run is extended when its type is the new local's type, otherwise a new run of one -/
def add_local : List String :=
  ["num_locals +=", "if", "if", "else", ".push()", "else", ".push()"]

/-- M6 `addLocals`: `add_local` for each type, in order -/
def add_locals : List String :=
  ["for", "add_local()"]

/-- M7 `ModuleSub.next`: advance inside the function; behind its last instruction move to the next function that is not skipped -/
def module_subiterator_next : List String :=
  ["if", ".has_next()", ".next()", "else", ".next_function()"]

/-- M7 `handleSkips`: skip every function the skip list names -/
def module_subiterator_handle_skips : List String :=
  ["while", ".contains()", ".curr_idx +="]

/-- M7 `CompSub.next`: advance inside the module; behind its last visited instruction move to the next module -/
def component_subiterator_next : List String :=
  ["if", ".has_next()", ".next()", "else", ".next_module()"]

/-- M7 `nextModule`: the next module with its own skip list (empty when the map has no entry) and a fresh module sub-iterator -/
def component_subiterator_next_module : List String :=
  ["while", ".curr_mod +=", "if", ".mod_iterator =", "mod_iterator_for()", "if", ".end()", "return"]

/-- M13 `setFnName`: local functions carry their name themselves, imported ones in the import-name table -/
def set_fn_name : List String :=
  ["if", ".set_fn_name()", "assert!", ".set_imported_fn_name()", "else", "assert!", ".set_local_fn_name()"]

/-- M2 / M13 `addGlobal`: a local global appended -/
def add_global_with_tag : List String :=
  [".add_global_internal()", "Local()", "GlobalID()",
   "GlobalType{mutable,content_type:wasmparser::ValType::from(&content_ty),shared}"]

/-- M2 `addImportGlobal`: the import entry, then the global in the imported prefix; the id reported is the number of imported globals before the call -/
def add_imported_global_with_tag : List String :=
  ["GlobalType{mutable,content_type:wasmparser::ValType::from(&content_ty),shared}", ".add_import()",
   "Import{module:module.leak(),name:name.leak(),ty:TypeRef::Global(global_ty),custom_name:None,deleted:false,tag:Some(tag.clone())}",
   ".leak()", ".leak()", "Global()", ".add_global_internal()",
   "Global::new(GlobalKind::Import(ImportedGlobal::new(imp_id,GlobalID(imp_global_id),global_ty,)),Some(tag))",
   "Import()", "ImportedGlobal::new(imp_id,GlobalID(imp_global_id),global_ty)", "GlobalID()", ".recalculate_ids =",
   "GlobalID()"]

/-- M13 `addData`: the segment appended, its index returned -/
def add_data : List String :=
  [".push()", "DataSegmentID()"]

/-- M2 `addLocalMemory`: a local memory appended -/
def add_local_memory_with_tag : List String :=
  ["LocalMemory{mem_id:MemoryID(0)}", "MemoryID()", ".num_local_memories +=", ".add_local_mem()"]

/-- M2 `addImportMemory`: the import entry, then the memory in the imported prefix -/
def add_import_memory_with_tag : List String :=
  [".add_import()",
   "Import{module:module.leak(),name:name.clone().leak(),ty:TypeRef::Memory(ty),custom_name:None,deleted:false,tag:Some(tag.clone())}",
   ".leak()", ".leak()", "Memory()", ".add_import_mem()", "MemoryID()"]

/-- M2 `addImportFunc`: the import entry, then the function in the imported prefix -/
def add_import_func_with_tag : List String :=
  [".add_import()",
   "Import{module:module.leak(),name:name.clone().leak(),ty:TypeRef::Func(*ty_id),custom_name:None,deleted:false,tag:Some(tag)}",
   ".leak()", ".leak()", "Func()", ".add_import_func()"]

/-- M8 `Custom.parsed`: the parsed sections in order, names and bytes borrowed as they are -/
def custom_new : List String :=
  ["CustomSections{",
   "custom_sections: custom_sections.iter().map(|cs| CustomSection::new_borrowed(cs.0,cs.1)).collect(),}"]

/-- M8 `Custom.getId`: the first section with that name, by position -/
def custom_get_id : List String :=
  ["for(index,section)in self.custom_sections.iter().enumerate(){", "if section.name == name{",
   "return Some(CustomSectionID(index as u32));", "}", "}", "None"]

/-- M8 `Custom.getById`: in range or a panic -/
def custom_get_by_id : List String :=
  ["if *custom_section_id < self.custom_sections.len()as u32{",
   "return &self.custom_sections[*custom_section_id as usize];", "}", "panic!('');"]

/-- M8 `Custom.delete`: removes the section at that position when in range (later sections move down), otherwise nothing -/
def custom_delete : List String :=
  ["if *id < self.custom_sections.len()as u32{", "self.custom_sections.remove(*id as usize);", "}"]

/-- M8 `Custom.modify`: the bytes of the section at that position, when in range -/
def custom_get_section_data_mut : List String :=
  ["if *section_id < self.custom_sections.len()as u32{",
   "Some(self.custom_sections[*section_id as usize].data.to_mut())}", "else{", "None}"]

/-- M8 `Custom.add`: appended; the returned id is the old length -/
def custom_add : List String :=
  ["let id = CustomSectionID(self.custom_sections.len()as u32);", "self.custom_sections.push(section);", "id"]

/-- M6 `Locals.addLocal` word for word: the returned index is `num_params + num_locals`; the last run grows when its type is the requested one, otherwise a new run of one is appended -/
def add_local_text : List String :=
  ["let index = num_params + *num_locals as usize;", "let len = locals.len();", "*num_locals += 1;", "if len > 0{",
   "let last = len - 1;", "if locals[last].1 == ty{", "locals[last].0 += 1;", "}", "else{", "locals.push((1,ty));",
   "}", "}", "else{", "locals.push((1,ty));", "}", "LocalID(index as u32)"]

end Orca.ApiOutlineSpec
