/-!
The control-and-call skeletons of the edit / builder / iterator API functions **as reviewed** when the models M1, M2, M5, M6, M7, M13 and M14 were
transcribed (the format of translator/scan_api.py, which regenerates `Orca.Gen.ApiOutline.*` from /repo on every run). Each property's Props
file states `generated = reviewed` for the functions it rests on. Hand-maintained; never generated.
-/
namespace Orca.ApiOutlineSpec

/-- M1 `Reindex.reorganise`: one pass over the vector; a deleted entry is removed (counting it as an import when it sits in the imported prefix), a local entry found in the imported prefix is moved behind the vector, an import found in the local part is moved to the end of the imported prefix -/
def reorganise_generic : List String :=
  ["for", "if", "if", ".is_deleted()", ".remove()", "num_imported -=", "num_deleted +=", "else", "if", ".is_local()",
   ".remove()", ".push()", "num_imported -=", "num_deleted +=", "else", "if", ".is_deleted()", ".remove()",
   "num_deleted +=", "else", "if", ".is_import()", ".remove()", ".insert()", "num_imported +="]

/-- M1 `sortImports`: the imported prefix is brought into the order of the import section by insertion at the partition point -/
def order_imports_generic : List String :=
  [".take_while()", ".is_import()", ".map()", ".import_id()", ".unwrap_or()", "with_capacity()", "for",
   ".partition_point()", "if", ".remove()", ".insert()", ".insert()"]

/-- M1 `mapping`: stored id ↦ position, for every entry -/
def get_mapping_generic : List String :=
  ["HashMap::new()", "for", ".get_id()", ".insert()"]

/-- M1 `recalc`: reorganise, order the imports, build the mapping; the length assertion -/
def recalculate_ids : List String :=
  [".get_into_iter()", "reorganise_generic()", "order_imports_generic()", "get_mapping_generic()", "assert_eq!"]

/-- M2 `addImport*`: the import is appended to the import list; functions, globals and memories only -/
def add_import : List String :=
  ["match", "Func()", "Global()", "Table()", "todo!", "Tag()", "todo!", "Memory()", ".add()"]

/-- M2 `deleteFunc`: the entry is flagged deleted; for an imported function its import entry too -/
def delete_func : List String :=
  [".delete()", "if", "Import()", ".get_kind()", ".delete()"]

/-- M2 `deleteGlobal`: as for functions -/
def delete_global : List String :=
  [".delete()", "if", "Import()", ".get_kind()", ".delete()"]

/-- M2 `deleteMemory`: as for functions -/
def delete_memory : List String :=
  [".delete()", "if", "Import()", ".get_kind()", ".delete()"]

/-- M2 `replaceImport` (module side): the import entry that designates the function is found by its stored function id, marked deleted, and the function's kind becomes local -/
def convert_import_fn_to_local : List String :=
  [".position()", "matches!", ".kind()", "Import()", "if", ".map()", "else", "return", ".func_id =",
   ".delete_func()", ".get_mut()", ".set_kind()", "Local()", "Box::new(local_function)"]

/-- M2 / M14 `replaceImport` (builder side): the final `end`; the import must be a function import whose type equals the built signature; the new local function takes the import's own type id and is named after the import's field -/
def replace_import_in_module_with_tag : List String :=
  [".end()", ".get()", "if", "Func()", "if", ".get()", "TypeID()", "if", ".params()", ".results()",
   "LocalFunction::new(TypeID(imp_ty_id),FunctionID(*import_id),self.body.clone(),self.params.len(),Some(tag))",
   "TypeID()", ".name =", ".to_string()", ".convert_import_fn_to_local()", "else", "panic!", "else", "panic!",
   "else", "panic!"]

/-- M2 `localToImport`: refused for imports; the import is appended to the import list and the function's kind becomes import -/
def convert_local_fn_to_import_with_tag : List String :=
  ["if", ".is_import()", "return", ".delete_func()", ".add_import()",
   "Import{module:module.leak(),name:name.clone().leak(),ty:TypeRef::Func(*ty_id),custom_name:None,deleted:false,tag:Some(tag)}",
   ".leak()", ".leak()", "Func()", ".get_mut()", ".set_kind()", "Import()",
   "ImportedFunction{import_id,import_fn_id:function_id,ty_id}", "assert!", ".set_imported_fn_name()"]

/-- M14 `finishModule` (module side): the signature is interned, the local-function counter bumped, the function appended -/
def add_local_func_with_tag : List String :=
  [".add_func_type()", "LocalFunction::new(ty,FunctionID(0),body,params.len(),Some(tag))", ".num_local_functions +=",
   ".add_local_func()"]

/-- M14 `finishModule` (builder side): the final `end`, then the module side; the id assertion -/
def finish_module_with_tag : List String :=
  [".end()", ".add_local_func_with_tag()", "assert_eq!"]

/-- M5 `addType`: an equal type already present is returned; otherwise a new id, its own recursion group when explicit -/
def add_type : List String :=
  [".contains_key()", ".entry()", ".or_insert()", "TypeID()", "if", ".insert()", ".push()",
   "RecGroup::new(vec![ty_id],false)"]

/-- M5 `addFuncType`: a final function type without supertype, interned through `add_type` -/
def add_func_type : List String :=
  [
   "Types::FuncType{params:param.to_vec().into_boxed_slice(),results:ret.to_vec().into_boxed_slice(),super_type:None,is_final:true,shared:false,tag}",
   ".into_boxed_slice()", ".into_boxed_slice()", ".add_type()"]

/-- M6 `addLocal`: the number of locals grows by one; the last run is extended when its type is the new local's type, otherwise a new run of one -/
def add_local : List String :=
  ["num_locals +=", "if", "if", "else", ".push()", "else", ".push()"]

/-- M6 `addLocals`: `add_local` for each type, in order -/
def add_locals : List String :=
  ["for", "add_local()"]

/-- M7 `ModuleSub.next`: advance inside the function; behind its last instruction move to the next function that is not skipped -/
def module_subiterator_next : List String :=
  ["if", ".has_next()", ".next()", "else", ".next_function()"]

/-- M7 `handleSkips`: skip every function the skip list names -/
def module_subiterator_handle_skips : List String :=
  ["while", ".contains()", ".curr_idx +="]

/-- M7 `CompSub.next`: advance inside the module; behind its last visited instruction move to the next module -/
def component_subiterator_next : List String :=
  ["if", ".has_next()", ".next()", "else", ".next_module()"]

/-- M7 `nextModule`: the next module with its own skip list (empty when the map has no entry) and a fresh module sub-iterator -/
def component_subiterator_next_module : List String :=
  ["while", ".curr_mod +=", "if", ".mod_iterator =", "mod_iterator_for()", "if", ".end()", "return"]

/-- M13 `setFnName`: the kind of the function decides (F38); local functions carry their name themselves, imported ones in the import-name table at the import entry they record -/
def set_fn_name : List String :=
  ["match", ".get_kind()", "Import()", "Local()", "if", ".set_name()", "assert!", ".set_imported_fn_name()", "else",
   "assert!", ".set_local_fn_name()"]

/-- M2 / M13 `addGlobal`: a local global appended -/
def add_global_with_tag : List String :=
  [".add_global_internal()", "Local()", "GlobalID()",
   "GlobalType{mutable,content_type:wasmparser::ValType::from(&content_ty),shared}"]

/-- M2 `addImportGlobal`: the import entry, then the global in the imported prefix; the id reported is the number of imported globals before the call -/
def add_imported_global_with_tag : List String :=
  ["GlobalType{mutable,content_type:wasmparser::ValType::from(&content_ty),shared}", ".add_import()",
   "Import{module:module.leak(),name:name.leak(),ty:TypeRef::Global(global_ty),custom_name:None,deleted:false,tag:Some(tag.clone())}",
   ".leak()", ".leak()", "Global()", ".add_global_internal()",
   "Global::new(GlobalKind::Import(ImportedGlobal::new(imp_id,GlobalID(imp_global_id),global_ty,)),Some(tag))",
   "Import()", "ImportedGlobal::new(imp_id,GlobalID(imp_global_id),global_ty)", "GlobalID()", ".recalculate_ids =",
   "GlobalID()"]

/-- M13 `addData`: the segment appended, its index returned -/
def add_data : List String :=
  [".push()", "DataSegmentID()"]

/-- M2 `addLocalMemory`: a local memory appended -/
def add_local_memory_with_tag : List String :=
  ["LocalMemory{mem_id:MemoryID(0)}", "MemoryID()", ".num_local_memories +=", ".add_local_mem()"]

/-- M2 `addImportMemory`: the import entry, then the memory in the imported prefix -/
def add_import_memory_with_tag : List String :=
  [".add_import()",
   "Import{module:module.leak(),name:name.clone().leak(),ty:TypeRef::Memory(ty),custom_name:None,deleted:false,tag:Some(tag.clone())}",
   ".leak()", ".leak()", "Memory()", ".add_import_mem()", "MemoryID()"]

/-- M2 `addImportFunc`: the import entry, then the function in the imported prefix -/
def add_import_func_with_tag : List String :=
  [".add_import()",
   "Import{module:module.leak(),name:name.clone().leak(),ty:TypeRef::Func(*ty_id),custom_name:None,deleted:false,tag:Some(tag)}",
   ".leak()", ".leak()", "Func()", ".add_import_func()"]

/-- M8 `Custom.parsed`: the parsed sections in order, names and bytes borrowed as they are -/
def custom_new : List String :=
  ["CustomSections{",
   "custom_sections: custom_sections.iter().map(|cs| CustomSection::new_borrowed(cs.0,cs.1)).collect(),}"]

/-- M8 `Custom.getId`: the first section with that name, by position -/
def custom_get_id : List String :=
  ["for(index,section)in self.custom_sections.iter().enumerate(){", "if section.name == name{",
   "return Some(CustomSectionID(index as u32));", "}", "}", "None"]

/-- M8 `Custom.getById`: in range or a panic -/
def custom_get_by_id : List String :=
  ["if *custom_section_id < self.custom_sections.len()as u32{",
   "return &self.custom_sections[*custom_section_id as usize];", "}", "panic!('');"]

/-- M8 `Custom.delete`: removes the section at that position when in range (later sections move down), otherwise nothing -/
def custom_delete : List String :=
  ["if *id < self.custom_sections.len()as u32{", "self.custom_sections.remove(*id as usize);", "}"]

/-- M8 `Custom.modify`: the bytes of the section at that position, when in range -/
def custom_get_section_data_mut : List String :=
  ["if *section_id < self.custom_sections.len()as u32{",
   "Some(self.custom_sections[*section_id as usize].data.to_mut())}", "else{", "None}"]

/-- M8 `Custom.add`: appended; the returned id is the old length -/
def custom_add : List String :=
  ["let id = CustomSectionID(self.custom_sections.len()as u32);", "self.custom_sections.push(section);", "id"]

/-- M6 `Locals.addLocal` word for word: the returned index is `num_params + num_locals`; the last run grows when its type is the requested one, otherwise a new run of one is appended -/
def add_local_text : List String :=
  ["let index = num_params + *num_locals as usize;", "let len = locals.len();", "*num_locals += 1;", "if len > 0{",
   "let last = len - 1;", "if locals[last].1 == ty{", "locals[last].0 += 1;", "}", "else{", "locals.push((1,ty));",
   "}", "}", "else{", "locals.push((1,ty));", "}", "LocalID(index as u32)"]

/-- M3 `Func.hasInstr`: a function carries instrumentation when its entry or exit list is non-empty -/
def func_flag_has_instr : List String :=
  ["let Self{", "entry,exit,has_special_instr: _,current_mode: _,}", "= self;",
   "!entry.instrs.is_empty()|| !exit.instrs.is_empty()"]

/-- M3 `injectFn`: marks the function as specially instrumented and appends to the entry / exit list of the current mode; no mode is a panic -/
def func_flag_add_instr : List String :=
  ["self.has_special_instr = true;", "match self.current_mode{", "None =>{", "panic!('')}",
   "Some(FuncInstrMode::Entry)=> self.entry.instrs.push(val),Some(FuncInstrMode::Exit)=> self.exit.instrs.push(val),}"]

/-- M3 `Instr.hasInstr`: any of the seven lists non-empty; `Some(empty)` alternates count (they delete) -/
def flag_has_instr : List String :=
  ["let Self{", "before,after,alternate,semantic_after,block_entry,block_exit,block_alt,current_mode: _,}",
   "= self;",
   "!before.instrs.is_empty()|| !after.instrs.is_empty()|| !alternate.is_none()|| !semantic_after.instrs.is_empty()|| !block_entry.instrs.is_empty()|| !block_exit.instrs.is_empty()|| !block_alt.is_none()"]

/-- the encoder's check that nothing special is left on an instruction (an error message, no change of the output) -/
def flag_check_special_is_resolved : List String :=
  ["let Self{", "semantic_after,block_entry,block_exit,block_alt,..}", "= self;",
   "if !semantic_after.instrs.is_empty(){", "error!('');", "}", "if !block_entry.instrs.is_empty(){", "error!('');",
   "}", "if !block_exit.instrs.is_empty(){", "error!('');", "}", "if !block_alt.is_none(){", "error!('');", "}"]

/-- M3 `inject`: appends to the list of the current mode; `true` exactly for the four special modes; special modes on other operators panic (`c22_reject_is_loud`) -/
def flag_add_instr : List String :=
  ["match self.current_mode{", "None =>{", "panic!('')}", "Some(InstrumentationMode::Before)=>{",
   "self.before.instrs.push(val);", "false}", "Some(InstrumentationMode::After)=>{", "self.after.instrs.push(val);",
   "false}", "Some(InstrumentationMode::Alternate)=>{", "match &mut self.alternate{", "None =>{",
   "self.alternate = Some(InjectedInstrs{", "instrs: vec![val],tag: None,}", ")}",
   "Some(alternate)=> alternate.instrs.push(val),}", "false}", "Some(InstrumentationMode::SemanticAfter)=>{",
   "if Self::is_block_style_op(op)|| Self::is_branching_op(op){", "self.semantic_after.instrs.push(val);", "true}",
   "else{", "panic!('',op);", "}", "}", "Some(InstrumentationMode::BlockEntry)=>{",
   "if Self::is_block_style_op(op){", "self.block_entry.instrs.push(val);", "true}", "else{", "panic!('',op);", "}",
   "}", "Some(InstrumentationMode::BlockExit)=>{", "if Self::is_block_style_op(op){",
   "self.block_exit.instrs.push(val);", "true}", "else{", "panic!('',op);", "}", "}",
   "Some(InstrumentationMode::BlockAlt)=>{", "if Self::is_block_style_op(op){", "match &mut self.block_alt{",
   "None =>{", "self.block_alt = Some(InjectedInstrs{", "instrs: vec![val],tag: None,}", ")}",
   "Some(block_alt)=> block_alt.instrs.push(val),}", "true}", "else{", "panic!('',op);", "}", "}", "}"]

/-- M3 `clearInstr`: empties the list of the given mode; alternates become `None` -/
def flag_clear_instr : List String :=
  ["match mode{", "InstrumentationMode::Before =>{", "self.before.instrs.clear();", "}",
   "InstrumentationMode::After => self.after.instrs.clear(),InstrumentationMode::Alternate =>{",
   "self.alternate = None;", "}",
   "InstrumentationMode::SemanticAfter => self.semantic_after.instrs.clear(),InstrumentationMode::BlockEntry => self.block_entry.instrs.clear(),InstrumentationMode::BlockExit => self.block_exit.instrs.clear(),InstrumentationMode::BlockAlt =>{",
   "self.block_alt = None;", "}", "}"]

/-- M3 `isBlockStyle`: block, loop, if, else -/
def flag_is_block_style_op : List String :=
  ["matches!(op,Operator::Block{", "..}", "| Operator::Loop{", "..}", "| Operator::If{", "..}", "| Operator::Else{",
   "..}", ")"]

/-- M3 `isBranching`: br, br_if, br_table and the four br_on_* operators -/
def flag_is_branching_op : List String :=
  ["matches!(op,Operator::Br{", "..}", "| Operator::BrIf{", "..}", "| Operator::BrTable{", "..}",
   "| Operator::BrOnCast{", "..}", "| Operator::BrOnCastFail{", "..}", "| Operator::BrOnNull{", "..}",
   "| Operator::BrOnNonNull{", "..}", ")"]

/-- M3 `inject` on an instruction: the flag's `add_instr` with the instruction's own operator -/
def instruction_add_instr : List String :=
  ["self.instr_flag.add_instr(&self.op,val)"]

/-- M3 `emptyBlockAlt`: block-style operators only (panic otherwise); the block alternate becomes the empty list, whatever was recorded -/
def instruction_empty_block_alt : List String :=
  ["if !InstrumentationFlag::is_block_style_op(&self.op){", "panic!('',self.op);", "}",
   "self.instr_flag.block_alt = Some(InjectedInstrs::default());"]

/-- FunctionModifier (src/ir/function.rs) `inject`: at the cursor; a function-level mode, when one is selected, takes the code (M3 `injectCur`) -/
def modifier_inject : List String :=
  ["if self.instr_flag.current_mode.is_some(){", "self.instr_flag.add_instr(instr);", "}", "else{",
   "if let Some(idx)= self.instr_idx{", "let is_special = self.body.instructions[idx].add_instr(instr);",
   "self.instr_flag.has_special_instr |= is_special;", "}", "else{", "panic!('');", "}", "}"]

/-- FunctionModifier (src/ir/function.rs) `inject_at`: selects the mode at (current function, given index), then adds there (M3 `injectAt`) -/
def modifier_inject_at : List String :=
  ["let loc = Location::Module{", "func_idx: FunctionID(0),instr_idx: idx,}", ";",
   "self.set_instrument_mode_at(mode,loc);", "self.add_instr_at(loc,instr);"]

/-- FunctionModifier (src/ir/function.rs) `set_instrument_mode_at`: leaves the function-level mode, sets the mode of the addressed instruction (`c22_instruction_mode_leaves_function_mode`) -/
def modifier_set_instrument_mode_at : List String :=
  ["if let Location::Module{", "instr_idx,..}", "= loc{", "self.instr_idx = Some(instr_idx);",
   "self.instr_flag.finish_instr();", "self.body.instructions[instr_idx].instr_flag.current_mode = Some(mode);", "}",
   "else{", "panic!('');", "}"]

/-- FunctionModifier (src/ir/function.rs) `set_func_instrument_mode`: the function-level mode of the current function -/
def modifier_set_func_instrument_mode : List String :=
  ["self.instr_flag.current_mode = Some(mode);"]

/-- FunctionModifier (src/ir/function.rs) `clear_instr_at`: clears the list of that mode on the addressed instruction -/
def modifier_clear_instr_at : List String :=
  ["if let Location::Module{", "instr_idx,..}", "= loc{", "self.body.clear_instr(instr_idx,mode);", "}", "else{",
   "panic!('');", "}"]

/-- FunctionModifier (src/ir/function.rs) `add_instr_at`: adds to the addressed instruction (`c15_add_instr_at_addresses_its_location`) -/
def modifier_add_instr_at : List String :=
  ["if let Location::Module{", "instr_idx,..}", "= loc{",
   "let is_special = self.body.instructions[instr_idx].add_instr(instr);",
   "self.instr_flag.has_special_instr |= is_special;", "}", "else{", "panic!('');", "}"]

/-- FunctionModifier (src/ir/function.rs) `empty_alternate_at`: the alternate of the addressed instruction becomes the empty list (`c15_empty_alternate`) -/
def modifier_empty_alternate_at : List String :=
  ["if let Location::Module{", "instr_idx,..}", "= loc{",
   "self.body.instructions[instr_idx].instr_flag.alternate = Some(InjectedInstrs::default());", "}", "else{",
   "panic!('')}", "self"]

/-- FunctionModifier (src/ir/function.rs) `empty_block_alt_at`: the block alternate becomes the empty list and the function is marked (`c22_empty_block_alt_marks`) -/
def modifier_empty_block_alt_at : List String :=
  ["if let Location::Module{", "instr_idx,..}", "= loc{", "self.body.instructions[instr_idx].empty_block_alt();",
   "self.instr_flag.has_special_instr |= true;", "}", "else{", "panic!('')}", "self"]

/-- ModuleIterator (src/iterator/module_iterator.rs) `inject`: at the cursor; a function-level mode, when one is selected, takes the code (M3 `injectCur`) -/
def moditer_inject : List String :=
  ["if let(Location::Module{", "func_idx,instr_idx,..}", ",..,)= self.curr_loc(){",
   "match self.module.functions.get_mut(func_idx as FunctionID).kind{",
   "FuncKind::Import(_)=> panic!(''),FuncKind::Local(ref mut l)=> l.add_instr(instr,instr_idx),}", "}", "else{",
   "panic!('')}"]

/-- ModuleIterator (src/iterator/module_iterator.rs) `inject_at`: selects the mode at (current function, given index), then adds there (M3 `injectAt`) -/
def moditer_inject_at : List String :=
  ["if let(Location::Module{", "func_idx,..}", ",..)= self.curr_loc(){", "let loc = Location::Module{",
   "func_idx,instr_idx: idx,}", ";", "self.set_instrument_mode_at(mode,loc);", "self.add_instr_at(loc,instr);", "}",
   "else{", "panic!('')}"]

/-- ModuleIterator (src/iterator/module_iterator.rs) `set_instrument_mode_at`: leaves the function-level mode, sets the mode of the addressed instruction (`c22_instruction_mode_leaves_function_mode`) -/
def moditer_set_instrument_mode_at : List String :=
  ["if let Location::Module{", "func_idx,instr_idx,..}", "= loc{",
   "match self.module.functions.get_mut(func_idx as FunctionID).kind{",
   "FuncKind::Import(_)=> panic!(''),FuncKind::Local(ref mut l)=>{", "l.instr_flag.finish_instr();",
   "l.body.instructions[instr_idx].instr_flag.current_mode = Some(mode)}", "}", "}", "else{", "panic!('')}"]

/-- ModuleIterator (src/iterator/module_iterator.rs) `set_func_instrument_mode`: the function-level mode of the current function -/
def moditer_set_func_instrument_mode : List String :=
  ["if let(Location::Module{", "func_idx,..}", ",..)= self.mod_iterator.curr_loc(){",
   "match self.module.functions.get_mut(func_idx as FunctionID).kind{",
   "FuncKind::Import(_)=> panic!(''),FuncKind::Local(ref mut l)=> l.instr_flag.current_mode = Some(mode),}", "}",
   "else{", "panic!('')}"]

/-- ModuleIterator (src/iterator/module_iterator.rs) `clear_instr_at`: clears the list of that mode on the addressed instruction -/
def moditer_clear_instr_at : List String :=
  ["if let Location::Module{", "func_idx,instr_idx,..}", "= loc{",
   "match self.module.functions.get_mut(func_idx as FunctionID).kind{",
   "FuncKind::Import(_)=> panic!(''),FuncKind::Local(ref mut l)=>{", "l.clear_instr_at(instr_idx,mode);", "}", "}",
   "}", "else{", "panic!('')}"]

/-- ModuleIterator (src/iterator/module_iterator.rs) `add_instr_at`: adds to the addressed instruction (`c15_add_instr_at_addresses_its_location`) -/
def moditer_add_instr_at : List String :=
  ["if let Location::Module{", "func_idx,instr_idx,..}", "= loc{",
   "match self.module.functions.get_mut(func_idx as FunctionID).kind{",
   "FuncKind::Import(_)=> panic!(''),FuncKind::Local(ref mut l)=>{", "l.add_instr(instr,instr_idx);", "}", "}", "}",
   "else{", "panic!('')}"]

/-- ModuleIterator (src/iterator/module_iterator.rs) `empty_alternate_at`: the alternate of the addressed instruction becomes the empty list (`c15_empty_alternate`) -/
def moditer_empty_alternate_at : List String :=
  ["if let Location::Module{", "func_idx,instr_idx,..}", "= loc{",
   "match self.module.functions.get_mut(func_idx).kind{",
   "FuncKind::Import(_)=> panic!(''),FuncKind::Local(ref mut l)=>{",
   "l.body.instructions[instr_idx].instr_flag.alternate = Some(InjectedInstrs::default())}", "}", "}", "else{",
   "panic!('')}", "self"]

/-- ModuleIterator (src/iterator/module_iterator.rs) `empty_block_alt_at`: the block alternate becomes the empty list and the function is marked (`c22_empty_block_alt_marks`) -/
def moditer_empty_block_alt_at : List String :=
  ["if let Location::Module{", "func_idx,instr_idx,..}", "= loc{",
   "match self.module.functions.get_mut(func_idx as FunctionID).kind{",
   "FuncKind::Import(_)=> panic!(''),FuncKind::Local(ref mut l)=>{",
   "l.body.instructions[instr_idx].empty_block_alt();", "l.instr_flag.has_special_instr |= true;", "}", "}", "}",
   "else{", "panic!('')}", "self"]

/-- ComponentIterator (src/iterator/component_iterator.rs) `inject`: at the cursor; a function-level mode, when one is selected, takes the code (M3 `injectCur`) -/
def compiter_inject : List String :=
  ["if let(Location::Component{", "mod_idx,func_idx,instr_idx,..}", ",..,)= self.curr_loc(){",
   "match self.comp.modules[*mod_idx as usize].functions.get_mut(func_idx).kind{",
   "FuncKind::Import(_)=> panic!(''),FuncKind::Local(ref mut l)=> l.add_instr(instr,instr_idx),}", "}", "else{",
   "panic!('')}"]

/-- ComponentIterator (src/iterator/component_iterator.rs) `inject_at`: selects the mode at (current function, given index), then adds there (M3 `injectAt`) -/
def compiter_inject_at : List String :=
  ["if let(Location::Component{", "mod_idx,func_idx,..}", ",..,)= self.curr_loc(){",
   "let loc = Location::Component{", "mod_idx,func_idx,instr_idx: idx,}", ";",
   "self.set_instrument_mode_at(mode,loc);", "self.add_instr_at(loc,instr);", "}", "else{", "panic!('')}"]

/-- ComponentIterator (src/iterator/component_iterator.rs) `set_instrument_mode_at`: leaves the function-level mode, sets the mode of the addressed instruction (`c22_instruction_mode_leaves_function_mode`) -/
def compiter_set_instrument_mode_at : List String :=
  ["if let Location::Component{", "mod_idx,func_idx,instr_idx,..}", "= loc{",
   "match self.comp.modules[*mod_idx as usize].functions.get_mut(func_idx).kind{",
   "FuncKind::Import(_)=> panic!(''),FuncKind::Local(ref mut l)=>{", "l.instr_flag.finish_instr();",
   "l.body.instructions[instr_idx].instr_flag.current_mode = Some(mode)}", "}", "}", "else{", "panic!('')}"]

/-- ComponentIterator (src/iterator/component_iterator.rs) `set_func_instrument_mode`: the function-level mode of the current function -/
def compiter_set_func_instrument_mode : List String :=
  ["if let(Location::Component{", "mod_idx,func_idx,..}", ",..,)= self.curr_loc(){",
   "match self.comp.modules[*mod_idx as usize].functions.get_mut(func_idx).kind{",
   "FuncKind::Import(_)=> panic!(''),FuncKind::Local(ref mut l)=> l.instr_flag.current_mode = Some(mode),}", "}",
   "else{", "panic!('')}"]

/-- ComponentIterator (src/iterator/component_iterator.rs) `clear_instr_at`: clears the list of that mode on the addressed instruction -/
def compiter_clear_instr_at : List String :=
  ["if let Location::Component{", "mod_idx,func_idx,instr_idx,..}", "= loc{",
   "match self.comp.modules[*mod_idx as usize].functions.get_mut(func_idx).kind{",
   "FuncKind::Import(_)=> panic!(''),FuncKind::Local(ref mut l)=> l.clear_instr_at(instr_idx,mode),}", "}", "else{",
   "panic!('')}"]

/-- ComponentIterator (src/iterator/component_iterator.rs) `add_instr_at`: adds to the addressed instruction (`c15_add_instr_at_addresses_its_location`) -/
def compiter_add_instr_at : List String :=
  ["if let Location::Component{", "mod_idx,func_idx,instr_idx,..}", "= loc{",
   "match self.comp.modules[*mod_idx as usize].functions.get_mut(func_idx).kind{",
   "FuncKind::Import(_)=> panic!(''),FuncKind::Local(ref mut l)=>{", "l.add_instr(instr,instr_idx);", "}", "}", "}",
   "else{", "panic!('')}"]

/-- ComponentIterator (src/iterator/component_iterator.rs) `empty_alternate_at`: the alternate of the addressed instruction becomes the empty list (`c15_empty_alternate`) -/
def compiter_empty_alternate_at : List String :=
  ["if let Location::Component{", "mod_idx,func_idx,instr_idx,..}", "= loc{",
   "match self.comp.modules[*mod_idx as usize].functions.get_mut(func_idx).kind{",
   "FuncKind::Import(_)=> panic!(''),FuncKind::Local(ref mut l)=>{",
   "l.body.instructions[instr_idx].instr_flag.alternate = Some(InjectedInstrs::default());", "}", "}", "}", "else{",
   "panic!('')}", "self"]

/-- ComponentIterator (src/iterator/component_iterator.rs) `empty_block_alt_at`: the block alternate becomes the empty list and the function is marked (`c22_empty_block_alt_marks`) -/
def compiter_empty_block_alt_at : List String :=
  ["if let Location::Component{", "mod_idx,func_idx,instr_idx,..}", "= loc{",
   "match self.comp.modules[*mod_idx as usize].functions.get_mut(func_idx).kind{",
   "FuncKind::Import(_)=> panic!(''),FuncKind::Local(ref mut l)=>{",
   "l.body.instructions[instr_idx].empty_block_alt();", "l.instr_flag.has_special_instr |= true;", "}", "}", "}",
   "else{", "panic!('')}", "self"]

/-- LocalFunction::add_instr: function level when a function mode is selected, else the instruction; a special mode marks the function (`c22_inject_marks`) -/
def localfn_add_instr : List String :=
  ["if self.instr_flag.current_mode.is_some(){", "self.instr_flag.add_instr(instr);", "}", "else{",
   "let is_special = self.body.instructions[instr_idx].add_instr(instr);",
   "self.instr_flag.has_special_instr |= is_special;", "}"]

/-- LocalFunction::clear_instr_at: delegates to the body -/
def localfn_clear_instr_at : List String :=
  ["self.body.clear_instr(instr_idx,mode);"]

/-- Body::clear_instr: the flag of the addressed instruction -/
def body_clear_instr : List String :=
  ["self.instructions[idx].instr_flag.clear_instr(mode);"]

/-- M5 `Types` as a key, hashing: the variant, then for a function type parameters, results, supertype, finality, sharing (in this order: the split between parameters and results is part of the key); for arrays and structs fields and mutability too; tags are not part of the key -/
def types_hash : List String :=
  ["state.write_u8(self.hash_id());", "match self{", "Types::FuncType{",
   "params,results,super_type,is_final,shared,..}", "=>{", "params.hash(state);", "results.hash(state);",
   "super_type.hash(state);", "is_final.hash(state);", "shared.hash(state);", "}", "Types::ArrayType{",
   "fields,mutable,super_type,is_final,shared,..}", "=>{", "fields.hash(state);", "mutable.hash(state);",
   "super_type.hash(state);", "is_final.hash(state);", "shared.hash(state);", "}", "Types::StructType{",
   "fields,mutable,super_type,is_final,shared,..}", "=>{", "fields.hash(state);", "mutable.hash(state);",
   "super_type.hash(state);", "is_final.hash(state);", "shared.hash(state);", "}", "Types::ContType{",
   "packed_index,super_type,is_final,shared,..}", "=>{", "packed_index.hash(state);", "super_type.hash(state);",
   "is_final.hash(state);", "shared.hash(state);", "}", "}"]

/-- M5 `Types` as a key, equality: the same components as the hash, compared pairwise; different variants are different -/
def types_eq : List String :=
  ["match(self,other){", "(Self::FuncType{", "params,results,super_type,is_final,shared,..}", ",Self::FuncType{",
   "params: params1,results: results1,super_type: super_type1,is_final: is_final1,shared: shared1,..}", ",)=>{",
   "params.eq(params1)&& results.eq(results1)&& super_type.eq(super_type1)&& *is_final == *is_final1 && *shared == *shared1}",
   "(Self::ArrayType{", "fields,mutable,super_type,is_final,shared,..}", ",Self::ArrayType{",
   "fields: fields1,mutable: mutable1,super_type: super_type1,is_final: is_final1,shared: shared1,..}", ",)=>{",
   "fields.eq(fields1)&& *mutable == *mutable1 && super_type.eq(super_type1)&& *is_final == *is_final1 && *shared == *shared1}",
   "(Self::StructType{", "fields,mutable,super_type,is_final,shared,..}", ",Self::StructType{",
   "fields: fields1,mutable: mutable1,super_type: super_type1,is_final: is_final1,shared: shared1,..}", ",)=>{",
   "fields.eq(fields1)&& *mutable == *mutable1 && super_type.eq(super_type1)&& *is_final == *is_final1 && *shared == *shared1}",
   "(Self::ContType{", "packed_index,super_type,is_final,shared,..}", ",Self::ContType{",
   "packed_index: packed_index1,super_type: super_type1,is_final: is_final1,shared: shared1,..}", ",)=>{",
   "packed_index.eq(packed_index1)&& super_type.eq(super_type1)&& *is_final == *is_final1 && *shared == *shared1}",
   "(_,_)=> false,}"]

end Orca.ApiOutlineSpec
