/-
M15 `Sections` — which sections `Module::encode_internal` writes, and in which order (src/ir/module/mod.rs:1245-1860).

The encoder writes a section when the vector it is made from is non-empty — the *whole* vector: `functions`, `memories` and
`globals` hold the imported entities too, `tables` and `tags` only the local ones — the start section when there is a start
function, the data-count section when the parsed module had one, the code section always, the name section always, and the other
custom sections behind everything, in their stored order (their positions among the other sections are not kept; C28).
-/
namespace Orca.Sections

/-- what the plan depends on -/
structure Shape where
  typeGroups : Nat
  imports : Nat
  funcs : Nat          -- imported and local
  tables : Nat         -- local
  mems : Nat           -- imported and local
  tags : Nat           -- local
  globals : Nat        -- imported and local
  exports : Nat
  start : Bool
  elems : Nat
  dataCount : Bool     -- `data_count_section_exists`
  datas : Nat
  customs : Nat        -- custom sections other than `name`
deriving Repr, DecidableEq

/-- binary section ids; 0 = custom -/
def plan (s : Shape) : List Nat :=
  (if s.typeGroups > 0 then [1] else [])
    ++ (if s.imports > 0 then [2] else [])
    ++ (if s.funcs > 0 then [3] else [])
    ++ (if s.tables > 0 then [4] else [])
    ++ (if s.mems > 0 then [5] else [])
    ++ (if s.tags > 0 then [13] else [])
    ++ (if s.globals > 0 then [6] else [])
    ++ (if s.exports > 0 then [7] else [])
    ++ (if s.start then [8] else [])
    ++ (if s.elems > 0 then [9] else [])
    ++ (if s.dataCount then [12] else [])
    ++ [10]
    ++ (if s.datas > 0 then [11] else [])
    ++ [0]                                   -- the name section
    ++ List.replicate s.customs 0

/-- position of a non-custom section in the order the binary format prescribes -/
def rank : Nat → Nat
  | 1 => 1 | 2 => 2 | 3 => 3 | 4 => 4 | 5 => 5 | 13 => 6 | 6 => 7 | 7 => 8 | 8 => 9 | 9 => 10 | 12 => 11 | 10 => 12 | 11 => 13
  | _ => 0

end Orca.Sections
