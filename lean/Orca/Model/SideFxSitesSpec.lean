import Orca.Gen.SideFxSites
/-!
The places where the side-effect report is written, **as reviewed** when M12 (`Orca.Model.SideFx`) was transcribed, in the format of
translator/scan_sidefx.py (which regenerates `Orca.Gen.SideFxSites` from /repo on every run).  `Props/C23.lean` states
`generated = reviewed` and derives from the list what M12 assumes: every record is filed under the key of its own kind, every
record carries its tag, the addition records are written by the encoder itself (so they are in the encoded index space), and the
probe records are written by exactly the two closures over (mode, list) pairs below.  Hand-maintained; never generated.

What the list shows and the model reproduces: there is no site for the key `Local` (locals added to a parsed function are
not reported: M12 has no such record either, and the property does not list locals); block-level modes have no site of their own
(they are reported as the before / after / alternate lists they are lowered to: finding F25).
-/
namespace Orca.SideFxSitesSpec
open Orca.Gen.SideFxSites (Site)

def sites : List Site :=
  [
   ⟨"mod.rs", "encode_internal", "Type", "Type", ["ty", "tag"]⟩,
   ⟨"mod.rs", "encode_internal", "Import", "Import", ["module", "name", "type_ref", "tag"]⟩,
   ⟨"mod.rs", "encode_internal", "Func", "Func", ["id", "fname", "sig", "locals", "tag", "body"]⟩,
   ⟨"mod.rs", "encode_internal", "Table", "Table", ["tag"]⟩,
   ⟨"mod.rs", "encode_internal", "Memory", "Memory", ["id", "initial", "maximum", "tag"]⟩,
   ⟨"mod.rs", "encode_internal", "Global", "Global", ["id", "ty", "shared", "mutable", "tag", "init_expr"]⟩,
   ⟨"mod.rs", "encode_internal", "Export", "Export", ["name", "kind", "index", "tag"]⟩,
   ⟨"mod.rs", "encode_internal", "Element", "Element", ["tag"]⟩,
   ⟨"mod.rs", "encode_internal", "Data", "PassiveData", ["data", "tag"]⟩,
   ⟨"mod.rs", "encode_internal", "Data", "ActiveData", ["memory_index", "offset_expr", "data", "tag"]⟩,
   ⟨"types.rs", "add_injections", "Probe", "FuncProbe", ["target_fid", "mode", "body", "tag"]⟩,
   ⟨"types.rs", "add_injections", "Probe", "FuncLocProbe", ["target_fid", "target_opcode_idx", "mode", "body", "tag"]⟩
  ]

def probeCalls : List (String × String × String × String) :=
  [
   ("types.rs", "FuncInstrMode", "Entry", "entry"),
   ("types.rs", "FuncInstrMode", "Exit", "exit"),
   ("types.rs", "InstrumentationMode", "Before", "before"),
   ("types.rs", "InstrumentationMode", "After", "after"),
   ("types.rs", "InstrumentationMode", "Alternate", "alt")
  ]


/-- the key each record variant belongs under -/
def keyOf : String → Option String
  | "Type" => some "Type" | "Import" => some "Import" | "Func" => some "Func" | "Table" => some "Table"
  | "Memory" => some "Memory" | "Global" => some "Global" | "Export" => some "Export" | "Element" => some "Element"
  | "PassiveData" => some "Data" | "ActiveData" => some "Data"
  | "FuncProbe" => some "Probe" | "FuncLocProbe" => some "Probe"
  | _ => none

end Orca.SideFxSitesSpec
