/-
M8 `Custom` — `CustomSections` (src/ir/types.rs:1896-1992), what `parse_internal` keeps of the custom
sections of the input (src/ir/module/mod.rs:375-462) and the order in which `encode_internal` emits them
(src/ir/module/mod.rs:1743-1769). Names and contents are opaque strings (the driver passes hex).
-/
namespace Orca.Custom

structure Sec where
  name : String
  data : String
deriving Repr, DecidableEq

abbrev State := List Sec

inductive Op where
  | add (s : Sec)                      -- `CustomSections::add`
  | delete (id : Nat)                  -- `CustomSections::delete`
  | modify (id : Nat) (data : String)  -- `get_section_data_mut(id)` then overwrite the bytes
  | getId (name : String)              -- `get_id`
deriving Repr

inductive Out where
  | id (n : Nat)
  | none
  | done
deriving Repr, DecidableEq

/-- the name of the name section: the only custom section `parse_internal` does not store -/
def nameSec : String := "6e616d65"   -- hex of "name"

/-- custom sections of the input, in input order, as `parse_internal` keeps them -/
def parse (input : List Sec) : State := input.filter (fun s => s.name != nameSec)

def firstIdx (name : String) : List Sec → Nat → Option Nat
  | [], _ => none
  | s :: rest, i => if s.name = name then some i else firstIdx name rest (i + 1)

def step (st : State) : Op → State × Out
  | .add s => (st ++ [s], .id st.length)
  | .delete id => if id < st.length then (st.eraseIdx id, .done) else (st, .done)
  | .modify id d =>
    match st[id]? with
    | some s => (st.set id { s with data := d }, .done)
    | none => (st, .none)
  | .getId name =>
    match firstIdx name st 0 with
    | some i => (st, .id i)
    | none => (st, .none)

def run (st : State) : List Op → State × List Out
  | [] => (st, [])
  | op :: ops =>
    let r := step st op
    let r2 := run r.1 ops
    (r2.1, r.2 :: r2.2)

/-- the custom sections of the encoded module other than the name section, in output order -/
def encode (st : State) : List Sec := st

end Orca.Custom
