import Orca.Model.Edit
/-
Decidable form of the state invariant `SpaceInv` (Orca/Lemmas/Edit.lean) under which `encode` is proved correct.
The driver evaluates it on the state in front of every `encode` of every generated history.
-/
namespace Orca.Edit
open Orca.Reindex

def liveEntriesB (I : List ImpEntry) (sp : Sp) : List (Nat × Nat) :=
  (I.zipIdx.filter (fun (p : ImpEntry × Nat) => p.1.sp == some sp && !p.1.del)).map (fun (p : ImpEntry × Nat) => (p.2, p.1.uid))

def idsFreshB (xs : List Item) : Bool := (xs.zipIdx.all (fun (p : Item × Nat) => p.1.id == p.2))

def spaceInvB (x : Space) (I : List ImpEntry) (sp : Sp) : Bool :=
  idsFreshB x.items
  && decide (x.numImp - x.numImpAdded ≤ x.items.length)
  && ((sortImports (x.items.filter keepImp)).map (fun (it : Item) => (it.impId, it.uid)) == liveEntriesB I sp)
  && (x.recalc || (x.items == sortImports (x.items.filter keepImp) ++ x.items.filter keepLoc))

def stInvB (s : St) : Bool := spaceInvB s.f s.imports .F && spaceInvB s.g s.imports .G && spaceInvB s.m s.imports .M

/-! the shape `Module::parse` gives a vector: imported entities of the kind in import-section order, then the local ones -/

/-- entries (imported?, uid, position of the import entry) numbered from `k` -/
def mkItems : Nat → List (Bool × Nat × Nat) → List Item
  | _, [] => []
  | k, q :: rest => { id := k, imp := q.1, del := false, uid := q.2.1, impId := q.2.2 } :: mkItems (k + 1) rest

def parsedItems (I : List ImpEntry) (sp : Sp) (locals : List Nat) : List Item :=
  mkItems 0 ((liveEntriesB I sp).map (fun p => (true, p.2, p.1)) ++ locals.map (fun u => (false, u, 0)))

/-- the vector has the shape the parser builds (checked by the driver on the initial state of every case) -/
def parsedShapeB (x : Space) (I : List ImpEntry) (sp : Sp) : Bool :=
  (x.items == parsedItems I sp ((x.items.filter (fun (it : Item) => !it.imp)).map (fun (it : Item) => it.uid)))
    && !x.recalc && x.numImp == (liveEntriesB I sp).length && x.numImpAdded == 0

def parsedStateB (s : St) : Bool :=
  parsedShapeB s.f s.imports .F && parsedShapeB s.g s.imports .G && parsedShapeB s.m s.imports .M
    && s.imports.all (fun (e : ImpEntry) => !e.del)

end Orca.Edit
