import Orca.Model.Edit
/-
Decidable form of the state invariant `SpaceInv` (Orca/Lemmas/Edit.lean) under which `encode` is proved correct.
The driver evaluates it on the state in front of every `encode` of every generated history.
-/
namespace Orca.Edit
open Orca.Reindex

def liveEntriesB (I : List ImpEntry) (sp : Sp) : List (Nat × Nat) :=
  (I.zipIdx.filter (fun (p : ImpEntry × Nat) => p.1.sp == some sp && !p.1.del)).map (fun (p : ImpEntry × Nat) => (p.2, p.1.uid))

def idsFreshB (xs : List Item) : Bool := (xs.zipIdx.all (fun (p : Item × Nat) => p.1.id == p.2))

def spaceInvB (x : Space) (I : List ImpEntry) (sp : Sp) : Bool :=
  idsFreshB x.items
  && decide (x.numImp - x.numImpAdded ≤ x.items.length)
  && ((sortImports (x.items.filter keepImp)).map (fun (it : Item) => (it.impId, it.uid)) == liveEntriesB I sp)
  && (x.recalc || (x.items == sortImports (x.items.filter keepImp) ++ x.items.filter keepLoc))

def stInvB (s : St) : Bool := spaceInvB s.f s.imports .F && spaceInvB s.g s.imports .G && spaceInvB s.m s.imports .M

end Orca.Edit
