/-!
The control-and-call skeletons of `Module::resolve_special_instrumentation` and its helpers **as reviewed** when M3 (`Orca.Lower.rstep`,
`planSpecial`, `resolveBodies`, …) was transcribed: every control keyword, call, `Operator::X` and mode name, and every assignment to the
resolver's state, in source order (the format of translator/scan_resolver.py, which regenerates `Orca.Gen.Outline.*` from /repo on every
run). Props/C17–C22 state `generated = reviewed`; when the code's skeleton moves, those obligations fail and the model has to be read
against the code again. Hand-maintained; never generated.
-/
namespace Orca.Lower.Outline

/-- the driver. Per local function with `has_special_instr` (`resolveSpecial`): the function-level bodies are taken out of the flag
    (`entry`, `exit` of `RState`), the wrapper opener is appended to the entry code when there is exit code (`entryToks`), the modifier
    is obtained (`get_fn_modifier`: last instruction's mode := before), then the loop over the copy of the body — one iteration =
    `rstep` = `rpre` (function entry, then function exit) followed by `rcore`: the `match` on the operator (`block | loop | if | try_table`: push - a `try_table` carries no special mode, M3 sees it as a `block` kind without any -,
    block alternate / removal; `else`: flush of the `if`'s pending exit bodies, block alternate / removal; `end`: pop, removal
    bookkeeping with `retain_end`, flush of the three tables; anything else: removal) — every removal path ends in `continue` —
    and behind it `planSpecial` under `has_instr()`: block entry, block exit, semantic after, each followed by `clear_instr_at` -/
def resolve_special_instrumentation : List String :=
  ["if", "for", "if", "Import()", ".get_kind()", "continue", "instr_func_on_entry =", "instr_func_on_exit =", "if",
   "Local()", ".get_kind_mut()", "if", "continue", "if", ".is_empty()", "instr_func_on_entry =", "if", ".is_empty()",
   "instr_func_on_exit =", "if", ".add_corrected_special_injections()", ".clear()", ".clear()", "retain_end =", "if",
   "if", ".is_empty()", "if", "else", "instr_func_on_entry =", "if", "else", "panic!", ".get_type_id()", ".get()",
   ".results()", ".add_func_type()", "resolve_function_exit_with_block_wrapper()", ".get_fn_modifier()", "for", "if",
   "if", ".is_empty()", "resolve_function_entry()", "if", "if", ".is_empty()", "resolve_function_exit()", "match",
   "Operator::Block", "Operator::Loop", "Operator::If", "Operator::TryTable", ".push()", "if", "if", ".is_none()",
   "plan_resolution_block_alt()", "discard_special_instrumentation()", "delete_block =", ".last()", "continue", "if",
   ".is_some()", ".empty_alternate_at()", "discard_special_instrumentation()", "continue", "Operator::Else", "if",
   ".remove()", ".last()", "for", "resolve_bodies()", "if", "if", ".is_none()", "plan_resolution_block_alt()",
   "discard_special_instrumentation()", "delete_block =", ".last()", "continue", "if", ".is_some()",
   ".empty_alternate_at()", "discard_special_instrumentation()", "continue", "Operator::End", "if", ".pop()", "if",
   "if", "delete_block =", "if", ".empty_alternate_at()", "discard_special_instrumentation()", "retain_end =",
   "continue", "retain_end =", "else", ".empty_alternate_at()", "discard_special_instrumentation()", "continue",
   "if", ".remove()", "for", "resolve_bodies()", "if", ".remove()", "for", "resolve_bodies()", "if", ".is_some()",
   ".empty_alternate_at()", "discard_special_instrumentation()", "continue", "if", ".has_instr()", "if",
   ".is_empty()", "resolve_block_entry()", ".clear_instr_at()", "BlockEntry", "if", ".is_empty()",
   "plan_resolution_block_exit()", ".clear_instr_at()", "BlockExit", "if", ".is_empty()",
   "plan_resolution_semantic_after()", ".clear_instr_at()", "SemanticAfter"]

/-- `discardSpecial`: the four special lists of the instruction are cleared -/
def discard_special_instrumentation : List String :=
  ["for", "SemanticAfter", "BlockEntry", "BlockExit", "BlockAlt", ".clear_instr_at()"]

/-- first part of `rpre`: at instruction 0 the entry code goes in front of it and is consumed -/
def resolve_function_entry : List String :=
  ["if", ".before_at()", ".inject_all()", ".clear()"]

/-- `entryToks`: the opener of the wrapper block, typed with the function's results, joins the entry code -/
def resolve_function_exit_with_block_wrapper : List String :=
  [".push()", "Operator::Block", "FuncType()"]

/-- second part of `rpre`: in front of the nine operators that leave the function (`Kind.exitLike`) a copy of the exit code; at the last
    instruction the wrapper's `end` and the exit code, consumed -/
def resolve_function_exit : List String :=
  ["match", "Operator::Return", "Operator::ReturnCall", "Operator::ReturnCallIndirect", "Operator::ReturnCallRef",
   "Operator::Unreachable", "Operator::Throw", "Operator::Rethrow", "Operator::ThrowRef", "Operator::ResumeThrow",
   ".before_at()", ".inject_all()", "return", "if", ".before_at()", ".end()", ".inject_all()", ".clear()"]

/-- first stage of `planSpecial` (`stageEntry`): `after` code of the opener, on the four block-structured operators -/
def resolve_block_entry : List String :=
  ["match", "Operator::Block", "Operator::Loop", "Operator::If", "Operator::Else", ".after_at()", ".inject_all()"]

/-- second stage (`stageExit`): on an `if` parked for its `else`-or-`end`; on `block` / `loop` / `else` parked for the `end`; both as
    `before` code, unflagged -/
def plan_resolution_block_exit : List String :=
  ["match", "Operator::If", ".last()", "save_not_flagged_body_to_resolve()", "Before", "Operator::Block",
   "Operator::Loop", "Operator::Else", ".last()", "save_not_flagged_body_to_resolve()", "Before"]

/-- `planBlockAlt` and the `retain_end` rule: a non-empty replacement becomes the alternate, an empty one the empty alternate; the
    `end` stays exactly when the operator is `else` -/
def plan_resolution_block_alt : List String :=
  ["match", "Operator::Block", "Operator::Loop", "Operator::If", "Operator::Else", "if", ".is_empty()",
   ".alternate_at()", ".inject_all()", "else", ".empty_alternate_at()", "retain_end =", "if", "Operator::Else",
   "retain_end ="]

/-- third stage: on constructs parked unflagged for `after[end]`; on `br_table` one flag and the body parked at every target and the
    default; on `br` / `br_if` / `br_on_*` one flag and the body parked at the target -/
def plan_resolution_semantic_after : List String :=
  ["match", "Operator::Block", "Operator::Loop", "Operator::If", "Operator::Else", ".last()",
   "save_not_flagged_body_to_resolve()", "After", "Operator::BrTable", "create_bool_flag()", ".targets()",
   ".for_each()", "if", "save_flagged_body_to_resolve()", "After", ".last()", "save_flagged_body_to_resolve()",
   "After", ".last()", "Operator::Br", "Operator::BrIf", "Operator::BrOnCast", "Operator::BrOnCastFail",
   "Operator::BrOnNonNull", "Operator::BrOnNull", "create_bool_flag()", "save_flagged_body_to_resolve()", "After",
   ".last()"]

/-- `addFlat` on the table of the mode -/
def save_not_flagged_body_to_resolve : List String :=
  [".entry()", ".and_modify()", "save_not_flagged_body_to_resolve_inner()", ".or_insert()"]

/-- `addFlat`: append to the entry's unflagged bodies, or create the entry -/
def save_not_flagged_body_to_resolve_inner : List String :=
  [".entry()", ".and_modify()", ".push()", ".or_insert()"]

/-- `addFlag`: append to the entry's flagged bodies, or create the entry -/
def save_flagged_body_to_resolve : List String :=
  [".entry()", ".and_modify()", ".entry()", ".and_modify()", ".push()", ".or_insert()", ".or_insert()"]

/-- `flag` of `planSpecial`: a fresh i32 local; `i32.const 1; local.set` in front, `i32.const 0; local.set` behind; the body inline
    behind that for the five conditional branches -/
def create_bool_flag : List String :=
  ["add_local()", ".before_at()", ".i32_const()", ".local_set()", ".after_at()", ".i32_const()", ".local_set()",
   "match", "Operator::BrIf", "Operator::BrOnCast", "Operator::BrOnCastFail", "Operator::BrOnNonNull",
   "Operator::BrOnNull", ".inject_all()", ".as_slice()"]

/-- `resolveBodies`: at the `before` or `after` position of the `end` / `else`, the flagged bodies as a chain `local.get f; if … else
    local.get g; if … end … end`, then the unflagged bodies -/
def resolve_bodies : List String :=
  ["for", "match", "Before", ".before_at()", "After", ".after_at()", "unreachable!", "if", ".local_get()",
   ".if_stmt()", "else", ".else_stmt()", ".local_get()", ".if_stmt()", ".inject_all()", "if", ".end()", "if",
   ".is_empty()", ".end()", "match", "Before", ".before_at()", "After", ".after_at()", "unreachable!", "for",
   ".inject_all()"]

end Orca.Lower.Outline
