import Orca.Model.Sem
import Orca.Model.Lower
/-
Bridge between the flat model of the lowering (M3, `Orca.Lower`: exactly the code's bookkeeping, tied to the code by the
`lower` family) and the structured model (M4, `Orca.Sem`: what the property theorems C16-C20 are about):

* `toTree` reads a flat, flagged function (`Lower.Func`, flags as the injection API left them) as an annotated tree;
* `flatten` writes a tree back as tokens (a probe `p` is `i32.const p; call <log>`);
* `parseToks` reads any flat token list (e.g. the decoded output of the real crate) as an un-annotated tree.
-/
namespace Orca.SemTree
open Orca.Sem

/-- index of the reporting function in the modules the `sem` family generates -/
def logFn : Nat := 0

/-- the probe ids in an injected token list `i32.const:p, call:0, …`; `none` when the list has any other shape -/
def probeIds : List Lower.Tok → Option (List Nat)
  | [] => some []
  | c :: k :: rest =>
    match c.splitOn ":", k with
    | ["i32.const", p], "call:0" => do
      let id ← p.toNat?
      let r ← probeIds rest
      pure (id :: r)
    | _, _ => none
  | _ => none

/-- token of the line protocol → decoded instruction -/
def parseOp (t : Tok) : OpK :=
  let parts := t.splitOn ":"
  let arg : Nat := (parts[1]?.bind (·.toNat?)).getD 0
  match parts[0]? with
  | some "nop" => .nop
  | some "i32.const" =>
    -- negative constants are written `i32.const:-5`
    match parts[1]? with
    | some x => if x.startsWith "-" then .const ((W - ((x.drop 1).toString.toNat?.getD 0) % W) % W) else .const ((x.toNat?.getD 0) % W)
    | none => .other t
  | some "drop" => .drop
  | some "local.get" => .localGet arg
  | some "local.set" => .localSet arg
  | some "local.tee" => .localTee arg
  | some "global.get" => .globalGet arg
  | some "global.set" => .globalSet arg
  | some "i32.add" => .add | some "i32.sub" => .sub | some "i32.mul" => .mul
  | some "i32.and" => .and_ | some "i32.or" => .or_ | some "i32.xor" => .xor_
  | some "i32.eq" => .eq | some "i32.ne" => .ne | some "i32.lt_u" => .ltU | some "i32.gt_u" => .gtU
  | some "i32.div_u" => .divU | some "i32.rem_u" => .remU | some "i32.eqz" => .eqz | some "select" => .select
  | some "i32.load" => .load arg
  | some "i32.store" => .store arg
  | some "call" => .call arg
  | _ => .other t

/-- the token of a decoded instruction (constants are printed as the decoder prints them: signed) -/
def showOp : OpK → Tok
  | .nop => "nop"
  | .const v => if v < 2147483648 then s!"i32.const:{v}" else s!"i32.const:-{W - v}"
  | .drop => "drop"
  | .localGet i => s!"local.get:{i}" | .localSet i => s!"local.set:{i}" | .localTee i => s!"local.tee:{i}"
  | .globalGet i => s!"global.get:{i}" | .globalSet i => s!"global.set:{i}"
  | .add => "i32.add" | .sub => "i32.sub" | .mul => "i32.mul" | .and_ => "i32.and" | .or_ => "i32.or" | .xor_ => "i32.xor"
  | .eq => "i32.eq" | .ne => "i32.ne" | .ltU => "i32.lt_u" | .gtU => "i32.gt_u" | .divU => "i32.div_u" | .remU => "i32.rem_u"
  | .eqz => "i32.eqz" | .select => "select"
  | .load o => s!"i32.load:{o}" | .store o => s!"i32.store:{o}" | .call f => s!"call:{f}"
  | .other t => t

/-- one flat instruction, annotations as probe ids -/
structure FI where
  tok : Tok
  kind : Lower.Kind
  before : List Nat := []
  after : List Nat := []
  semAfter : List Nat := []
  blockEntry : List Nat := []
  blockExit : List Nat := []
deriving Repr

def FI.ofInstr (i : Lower.Instr) : Option FI := do
  if i.alt.isSome || i.blockAlt.isSome then none
  pure { tok := i.tok, kind := i.kind, before := ← probeIds i.before, after := ← probeIds i.after,
         semAfter := ← probeIds i.semAfter, blockEntry := ← probeIds i.blockEntry, blockExit := ← probeIds i.blockExit }

def FI.plain (t : Tok) (k : Lower.Kind) : FI := { tok := t, kind := k }

def FI.noAnn (x : FI) : Bool :=
  x.before.isEmpty && x.after.isEmpty && x.semAfter.isEmpty && x.blockEntry.isEmpty && x.blockExit.isEmpty

/-- how a sequence ended -/
inductive Stop where
  | eof
  | atEnd (e : FI)
  | atElse (e : FI)
deriving Repr

def arityOf (t : Tok) (nres : Nat) : Nat :=
  match t.splitOn ":" with
  | [_, "functype"] => nres
  | [_, _] => 1
  | _ => 0

structure PState where
  nextFlag : Nat        -- the local index the next annotated branch gets
deriving Repr

def mkSA (ps : List Nat) (st : PState) : Option SA × PState :=
  if ps.isEmpty then (none, st) else (some { flag := st.nextFlag, ps := ps }, { nextFlag := st.nextFlag + 1 })

/-- recursive descent with fuel (the input length suffices); `none` = ill-nested or out of the tree model's scope
    (annotations on `end` / `else` keywords other than the block-level ones, `after` on a block opener) -/
def parseSeq (nres : Nat) : Nat → List FI → PState → Option (List Instr × Stop × List FI × PState)
  | 0, _, _ => none
  | _ + 1, [], st => some ([], .eof, [], st)
  | fuel + 1, x :: rest, st =>
    match x.kind with
    | .end_ => some ([], .atEnd x, rest, st)
    | .else_ => some ([], .atElse x, rest, st)
    | .block | .loop =>
      if !x.after.isEmpty then none else
      match parseSeq nres fuel rest st with
      | some (body, .atEnd e, rest', st') =>
        if !(e.noAnn) then none else
        let ann : Ann := { entry := x.blockEntry, exit := x.blockExit, after := x.semAfter }
        let i := if x.kind == .block then Instr.block x.before ann (arityOf x.tok nres) x.tok body
                 else Instr.loop x.before ann x.tok body
        match parseSeq nres fuel rest' st' with
        | some (is, stop, rest'', st'') => some (i :: is, stop, rest'', st'')
        | none => none
      | _ => none
    | .if_ =>
      if !x.after.isEmpty then none else
      let annT : Ann := { entry := x.blockEntry, exit := x.blockExit, after := x.semAfter }
      match parseSeq nres fuel rest st with
      | some (t, .atEnd e, rest', st') =>
        if !(e.noAnn) then none else
        let i := Instr.ite x.before annT {} (arityOf x.tok nres) x.tok t [] false
        match parseSeq nres fuel rest' st' with
        | some (is, stop, rest'', st'') => some (i :: is, stop, rest'', st'')
        | none => none
      | some (t, .atElse el, rest', st') =>
        if !el.before.isEmpty || !el.after.isEmpty then none else
        let annE : Ann := { entry := el.blockEntry, exit := el.blockExit, after := el.semAfter }
        match parseSeq nres fuel rest' st' with
        | some (e, .atEnd en, rest'', st'') =>
          if !(en.noAnn) then none else
          let i := Instr.ite x.before annT annE (arityOf x.tok nres) x.tok t e true
          match parseSeq nres fuel rest'' st'' with
          | some (is, stop, r3, st3) => some (i :: is, stop, r3, st3)
          | none => none
        | _ => none
      | _ => none
    | k =>
      let (i, st) : Instr × PState :=
        match k with
        | .br d => let (sa, st) := mkSA x.semAfter st; (.br x.before x.after sa d, st)
        | .brIf d => let (sa, st) := mkSA x.semAfter st; (.brIf x.before x.after sa d, st)
        | .brTable ts d => let (sa, st) := mkSA x.semAfter st; (.brTable x.before x.after sa ts d, st)
        | .exitLike => (if x.tok == "unreachable" then .unreachable x.before x.after else .ret x.before x.after, st)
        | _ => (.op x.before x.after (parseOp x.tok), st)
      match parseSeq nres fuel rest st with
      | some (is, stop, rest', st') => some (i :: is, stop, rest', st')
      | none => none

/-- a flat function body (ending with the function's final `end`) as a tree -/
def parseBody (nres nlocals : Nat) (xs : List FI) : Option (List Instr × List Nat) :=
  match parseSeq nres (xs.length + 1) xs { nextFlag := nlocals } with
  | some (is, .atEnd e, [], _) =>
    -- the function's final `end` may carry `before` probes; nothing else (the encoder drops `after` and alternates there)
    if e.after.isEmpty && e.semAfter.isEmpty && e.blockEntry.isEmpty && e.blockExit.isEmpty then some (is, e.before) else none
  | _ => none

/-- the tree model reads `return_call` etc. as out of scope -/
def tokInScope (t : Tok) : Bool :=
  !(t.startsWith "return_call")

def toTree (f : Lower.Func) (nres : Nat) : Option Sem.Func := do
  let fis ← f.body.mapM FI.ofInstr
  if !(f.body.all (fun i => tokInScope i.tok)) then none
  let body ← parseBody nres f.nlocals fis
  pure { entry := ← probeIds f.entry, exit := ← probeIds f.exit, nres := nres, body := body.1, endBefore := body.2 }

/-! ### flattening -/

def probeToks (ps : List Nat) : List Tok := ps.flatMap fun p => [s!"i32.const:{p}", s!"call:{logFn}"]

mutual
def flattenI : Instr → List Tok
  | .op _ _ k => [showOp k]
  | .probe id => probeToks [id]
  | .block _ _ _ tk body => tk :: (flattenL body ++ ["end"])
  | .loop _ _ tk body => tk :: (flattenL body ++ ["end"])
  | .ite _ _ _ _ tk t e hasElse => tk :: (flattenL t ++ (if hasElse then "else" :: flattenL e else []) ++ ["end"])
  | .br _ _ _ n => [s!"br:{n}"]
  | .brIf _ _ _ n => [s!"br_if:{n}"]
  | .brTable _ _ _ ts d => [s!"br_table:{".".intercalate (ts.map toString)}/{d}"]
  | .ret _ _ => ["return"]
  | .unreachable _ _ => ["unreachable"]
def flattenL : List Instr → List Tok
  | [] => []
  | i :: is => flattenI i ++ flattenL is
end

/-- a whole function body: the instructions and the final `end` -/
def flattenF (f : Sem.Func) : List Tok := flattenL f.body ++ ["end"]

/-! ### reading decoded output -/

def kindOfTok (t : String) : Lower.Kind :=
  let parts := t.splitOn ":"
  match parts with
  | ["block"] | ["block", _] => .block
  | ["loop"] | ["loop", _] => .loop
  | ["if"] | ["if", _] => .if_
  | ["else"] => .else_
  | ["end"] => .end_
  | ["br", d] => .br (d.toNat?.getD 0)
  | ["br_if", d] => .brIf (d.toNat?.getD 0)
  | ["br_table", x] =>
    match x.splitOn "/" with
    | [ts, d] => .brTable ((if ts = "" then [] else ts.splitOn ".").map (·.toNat?.getD 0)) (d.toNat?.getD 0)
    | _ => .other
  | ["return"] | ["unreachable"] | ["return_call", _] => .exitLike
  | _ => .other

def parseToks (nres : Nat) (ts : List Tok) : Option (List Instr) :=
  (parseBody nres 0 (ts.map fun t => FI.plain t (kindOfTok t))).map (·.1)

/-- canonical form for comparing two lowerings: inside every maximal run of probes (`i32.const:p, call:0` pairs) the
    probes are sorted — the order of probes that fire at the same moment is constrained by no property -/
def normProbes (ts : List Tok) : List Tok :=
  let rec go (fuel : Nat) (ts : List Tok) (run : List Nat) (acc : List Tok) : List Tok :=
    let flush (run : List Nat) (acc : List Tok) : List Tok := acc ++ probeToks (run.mergeSort (· ≤ ·))
    match fuel, ts with
    | 0, _ => flush run acc ++ ts
    | _, [] => flush run acc
    | fuel + 1, c :: k :: rest =>
      match c.splitOn ":", k with
      | ["i32.const", p], "call:0" =>
        match p.toNat? with
        | some id => if id ≥ 1000 then go fuel rest (run ++ [id]) acc else go fuel (k :: rest) [] (flush run acc ++ [c])
        | none => go fuel (k :: rest) [] (flush run acc ++ [c])
      | _, _ => go fuel (k :: rest) [] (flush run acc ++ [c])
    | fuel + 1, [c] => go fuel [] [] (flush run acc ++ [c])
  go (ts.length + 1) ts [] []

end Orca.SemTree
