import Orca.Gen.Helpers
/-!
What a helper call injects, computed from the regenerated description of the helper: the operator variant and its
immediates in wasmparser's declaration order.
-/
namespace Orca.Gen
open Orca.Helpers

/-- insertion of an assignment into a list sorted by field position (struct literals may list fields in any order) -/
def insAssign (a : Assign) : List Assign → List Assign
  | [] => [a]
  | b :: bs => if a.fieldPos ≤ b.fieldPos then a :: b :: bs else b :: insAssign a bs

def sortAssigns : List Assign → List Assign
  | [] => []
  | a :: as => insAssign a (sortAssigns as)

/-- the assignments in declaration order of the fields -/
def Helper.wiring (h : Helper) : List Assign := sortAssigns h.assigns

/-- the value a field receives: `none` when the helper is called with too few arguments (never for a well-formed call) -/
def Helper.immOf (h : Helper) (args : List Nat) (a : Assign) : Option Int :=
  match h.params[a.param]?, args[a.param]? with
  | some t, some n => some (fieldVal a.conv t n)
  | _, _ => none

/-- the injected operator: variant and immediates (declaration order) -/
def Helper.emit (h : Helper) (args : List Nat) : Op × List (Option Int) :=
  (h.variant, h.wiring.map (h.immOf args))

/-- the bit pattern carried by the `i`-th immediate -/
def Helper.bitsAt (h : Helper) (a : Assign) (v : Int) : Option Nat :=
  (h.params[a.param]?).map fun t => fieldBits a.conv t v

/-- decidable well-formedness of a helper's description: every field of the variant is filled exactly once, the
    `i`-th field (declaration order) from the `i`-th parameter, through a conversion that applies to the parameter's type -/
def Helper.wired (h : Helper) : Bool :=
  h.wiring.map (fun a => (a.fieldPos, a.param)) == (List.range h.params.length).map (fun i => (i, i))
  && opArity h.variant == h.params.length
  && h.wiring.all (fun a => match h.params[a.param]? with
                            | some t => a.conv.fits t
                            | none => false)

end Orca.Gen
