/-
M3 `Lower` — instrumentation flags, `resolve_special_instrumentation` and the code-section emission of
`encode_internal` on flat code (src/ir/module/mod.rs:648-977, 1553-1683, 2226-2700; src/ir/types.rs:1027-1418),
transcribed. Operators are opaque tokens (`String`); what the algorithm looks at is their `Kind`.
-/
namespace Orca.Lower

abbrev Tok := String

inductive Kind where
  | block | loop | if_ | else_ | end_
  | br (depth : Nat)
  | brIf (depth : Nat)          -- also br_on_null / br_on_non_null / br_on_cast / br_on_cast_fail
  | brTable (targets : List Nat) (default : Nat)
  | exitLike                    -- return, return_call*, unreachable, throw, rethrow, throw_ref, resume_throw
  | other
deriving Repr, DecidableEq

def Kind.isBlockStyle : Kind → Bool
  | .block | .loop | .if_ | .else_ => true
  | _ => false

def Kind.isBranching : Kind → Bool
  | .br _ | .brIf _ | .brTable .. => true
  | _ => false

inductive Mode where
  | before | after | alternate | semanticAfter | blockEntry | blockExit | blockAlt
deriving Repr, DecidableEq

structure Instr where
  tok : Tok
  kind : Kind
  mode : Option Mode := none
  before : List Tok := []
  after : List Tok := []
  alt : Option (List Tok) := none
  semAfter : List Tok := []
  blockEntry : List Tok := []
  blockExit : List Tok := []
  blockAlt : Option (List Tok) := none
deriving Repr

inductive FMode where
  | entry | exit
deriving Repr, DecidableEq

/-- a local function: body with flags, function-level flags, number of parameters + declared locals -/
structure Func where
  body : List Instr
  fmode : Option FMode := none
  entry : List Tok := []
  exit : List Tok := []
  hasSpecial : Bool := false
  nlocals : Nat := 0            -- params + locals: the index the next `add_local` returns
  added : Nat := 0              -- locals added by the lowering (all i32)
deriving Repr

def Instr.hasInstr (i : Instr) : Bool :=
  !i.before.isEmpty || !i.after.isEmpty || i.alt.isSome || !i.semAfter.isEmpty || !i.blockEntry.isEmpty
    || !i.blockExit.isEmpty || i.blockAlt.isSome

/-- `InstrumentationFlag::add_instr`: `none` = the panic on a non-applicable opcode / unset mode; the Bool says whether
    the mode is a special one -/
def Instr.addInstr (i : Instr) (t : Tok) : Option (Instr × Bool) :=
  match i.mode with
  | none => none
  | some .before => some ({ i with before := i.before ++ [t] }, false)
  | some .after => some ({ i with after := i.after ++ [t] }, false)
  | some .alternate => some ({ i with alt := some ((i.alt.getD []) ++ [t]) }, false)
  | some .semanticAfter =>
    if i.kind.isBlockStyle || i.kind.isBranching then some ({ i with semAfter := i.semAfter ++ [t] }, true) else none
  | some .blockEntry => if i.kind.isBlockStyle then some ({ i with blockEntry := i.blockEntry ++ [t] }, true) else none
  | some .blockExit => if i.kind.isBlockStyle then some ({ i with blockExit := i.blockExit ++ [t] }, true) else none
  | some .blockAlt => if i.kind.isBlockStyle then some ({ i with blockAlt := some ((i.blockAlt.getD []) ++ [t]) }, true) else none

def modifyAt (l : List Instr) (idx : Nat) (f : Instr → Instr) : List Instr :=
  match l[idx]? with
  | some x => l.set idx (f x)
  | none => l

/-! ### the injection API (the operations every iterator / modifier path ends in) -/

inductive ApiOp where
  | setMode (idx : Nat) (m : Mode)      -- `set_instrument_mode_at`, `before()`, `after_at(..)`, …
  | setFMode (m : FMode)                 -- `func_entry()` / `func_exit()`
  | inject (idx : Nat) (t : Tok)         -- `inject` at a location (`LocalFunction::add_instr`)
  | injectAtRaw (idx : Nat) (m : Mode) (t : Tok)   -- `FunctionModifier::inject_at` = `set_instrument_mode_at` + `add_instr_at`
  | addInstrAt (idx : Nat) (t : Tok)     -- `FunctionModifier::add_instr_at(loc, op)` called directly: the list of that instruction's current mode
  | emptyAlt (idx : Nat)
  | emptyBlockAlt (idx : Nat)
  | finishFunc                           -- `get_fn_modifier` / `finish_instr` on the function flag
  | clear (idx : Nat) (m : Mode)         -- `clear_instr_at`: empties the list of that mode at that instruction
deriving Repr

/-- `none` = the API call panics -/
def apply (f : Func) : ApiOp → Option Func
  | .setMode idx m =>
    match f.body[idx]? with
    -- selecting an instruction-level mode leaves the function-level one
    | some _ => some { f with body := modifyAt f.body idx (fun i => { i with mode := some m }), fmode := none }
    | none => none
  | .setFMode m => some { f with fmode := some m }
  | .finishFunc => some { f with fmode := none }
  | .inject idx t =>
    match f.fmode with
    | some .entry => some { f with entry := f.entry ++ [t], hasSpecial := true }
    | some .exit => some { f with exit := f.exit ++ [t], hasSpecial := true }
    | none =>
      match f.body[idx]? with
      | none => none
      | some i =>
        match i.addInstr t with
        | none => none
        | some (i', sp) => some { f with body := f.body.set idx i', hasSpecial := f.hasSpecial || sp }
  | .injectAtRaw idx m t =>
    match f.body[idx]? with
    | none => none
    | some i =>
      match ({ i with mode := some m } : Instr).addInstr t with
      | none => none
      | some (i', sp) => some { f with body := f.body.set idx i', fmode := none, hasSpecial := f.hasSpecial || sp }
  | .addInstrAt idx t =>
    -- neither the last selected location nor the function-level mode matter, and neither is changed
    match f.body[idx]? with
    | none => none
    | some i =>
      match i.addInstr t with
      | none => none
      | some (i', sp) => some { f with body := f.body.set idx i', hasSpecial := f.hasSpecial || sp }
  | .emptyAlt idx =>
    match f.body[idx]? with
    | some _ => some { f with body := modifyAt f.body idx (fun i => { i with alt := some [] }) }
    | none => none
  | .clear idx m =>
    match f.body[idx]? with
    | some _ =>
      some { f with body := modifyAt f.body idx (fun i =>
        match m with
        | .before => { i with before := [] }
        | .after => { i with after := [] }
        | .alternate => { i with alt := none }
        | .semanticAfter => { i with semAfter := [] }
        | .blockEntry => { i with blockEntry := [] }
        | .blockExit => { i with blockExit := [] }
        | .blockAlt => { i with blockAlt := none }) }
    | none => none
  | .emptyBlockAlt idx =>
    match f.body[idx]? with
    | some x =>
      -- like the other block modes: only on block-structured opcodes
      if x.kind.isBlockStyle then
        some { f with body := modifyAt f.body idx (fun i => { i with blockAlt := some [] }), hasSpecial := true }
      else none
    | none => none

def applyAll (f : Func) : List ApiOp → Option Func
  | [] => some f
  | op :: ops => (apply f op).bind (fun f' => applyAll f' ops)

/-! ### `resolve_special_instrumentation` -/

/-- bodies waiting for an `end` (or `else`): flagged ones (body, flag local) and plain ones -/
structure ToInject where
  flagged : List (List Tok × Nat) := []
  notFlagged : List (List Tok) := []
deriving Repr

/-- tokens the lowering itself generates -/
def tConst (v : Nat) : Tok := s!"i32.const:{v}"
def tLocalSet (f : Nat) : Tok := s!"local.set:{f}"
def tLocalGet (f : Nat) : Tok := s!"local.get:{f}"
def tIf : Tok := "if"
def tElse : Tok := "else"
def tEnd : Tok := "end"
def tWrapper : Tok := "block:functype"

/-- `resolve_bodies`: the token list appended to `before[idx]` / `after[idx]` -/
def resolveBodies (inj : ToInject) : List Tok :=
  let rec chain : List (List Tok × Nat) → Bool → List Tok
    | [], _ => []
    | (body, fl) :: rest, first =>
      (if first then [tLocalGet fl, tIf] ++ body else [tElse, tLocalGet fl, tIf] ++ body ++ [tEnd]) ++ chain rest false
  chain inj.flagged true ++ (if inj.flagged.isEmpty then [] else [tEnd]) ++ inj.notFlagged.flatten

structure RState where
  body : List Instr
  stack : List Nat := [0]
  deleteBlock : Option Nat := none
  retainEnd : Bool := true
  onElseOrEnd : List (Nat × ToInject) := []          -- block id of the `if` ↦ bodies for `before[else | end]` (only `Before` is used)
  onEndBefore : List (Nat × ToInject) := []          -- block id ↦ bodies for `before[end]`
  onEndAfter : List (Nat × ToInject) := []           -- block id ↦ bodies for `after[end]`
  entry : List Tok := []
  exit : List Tok := []
  nlocals : Nat
  added : Nat := 0
deriving Repr

def addBefore (b : List Instr) (idx : Nat) (ts : List Tok) : List Instr :=
  modifyAt b idx (fun i => { i with mode := some .before, before := i.before ++ ts })
def addAfter (b : List Instr) (idx : Nat) (ts : List Tok) : List Instr :=
  modifyAt b idx (fun i => { i with mode := some .after, after := i.after ++ ts })
def setEmptyAlt (b : List Instr) (idx : Nat) : List Instr :=
  modifyAt b idx (fun i => { i with alt := some [] })

def getInj (l : List (Nat × ToInject)) (k : Nat) : ToInject :=
  match l.find? (·.1 == k) with
  | some p => p.2
  | none => {}

def setInj (l : List (Nat × ToInject)) (k : Nat) (v : ToInject) : List (Nat × ToInject) :=
  if l.any (·.1 == k) then l.map (fun p => if p.1 == k then (k, v) else p) else l ++ [(k, v)]

def removeInj (l : List (Nat × ToInject)) (k : Nat) : List (Nat × ToInject) := l.filter (fun p => p.1 != k)

def top (st : List Nat) : Nat := st.getLast?.getD 0

/-- `discard_special_instrumentation`: special lists on an instruction that a block alternate removes are dropped -/
def discardSpecial (b : List Instr) (idx : Nat) : List Instr :=
  modifyAt b idx (fun i => { i with semAfter := [], blockEntry := [], blockExit := [], blockAlt := none })

/-- `plan_resolution_block_alt` + `discard_special_instrumentation` (the copy of the flag is what is read) -/
def planBlockAlt (b : List Instr) (idx : Nat) (alt : List Tok) : List Instr :=
  let b := if alt.isEmpty then setEmptyAlt b idx
           else modifyAt b idx (fun i => { i with mode := some .alternate, alt := some ((i.alt.getD []) ++ alt) })
  discardSpecial b idx

/-- the special lists of one instruction (read from the copy), resolved or parked; step g of DESIGN.md 5b -/
def planSpecial (s : RState) (idx : Nat) (ins : Instr) : RState :=
  if !ins.hasInstr then s else
  -- block entry
  let s :=
    if ins.blockEntry.isEmpty then s
    else
      let b := if ins.kind.isBlockStyle then addAfter s.body idx ins.blockEntry else s.body
      { s with body := modifyAt b idx (fun i => { i with blockEntry := [] }) }
  -- block exit
  let s :=
    if ins.blockExit.isEmpty then s
    else
      let s := match ins.kind with
        | .if_ =>
          let k := top s.stack
          let cur := getInj s.onElseOrEnd k
          { s with onElseOrEnd := setInj s.onElseOrEnd k { cur with notFlagged := cur.notFlagged ++ [ins.blockExit] } }
        | .block | .loop | .else_ =>
          let k := top s.stack
          let cur := getInj s.onEndBefore k
          { s with onEndBefore := setInj s.onEndBefore k { cur with notFlagged := cur.notFlagged ++ [ins.blockExit] } }
        | _ => s
      { s with body := modifyAt s.body idx (fun i => { i with blockExit := [] }) }
  -- semantic after
  if ins.semAfter.isEmpty then s
  else
    let park (s : RState) (fl : Nat) (depth : Nat) : RState :=
      let k := top s.stack - depth
      let cur := getInj s.onEndAfter k
      { s with onEndAfter := setInj s.onEndAfter k { cur with flagged := cur.flagged ++ [(ins.semAfter, fl)] } }
    let flag (s : RState) (inline : Bool) : RState × Nat :=
      let fl := s.nlocals
      let b := addBefore s.body idx [tConst 1, tLocalSet fl]
      let b := addAfter b idx ([tConst 0, tLocalSet fl] ++ (if inline then ins.semAfter else []))
      ({ s with body := b, nlocals := s.nlocals + 1, added := s.added + 1 }, fl)
    let s := match ins.kind with
      | .block | .loop | .if_ | .else_ =>
        let k := top s.stack
        let cur := getInj s.onEndAfter k
        { s with onEndAfter := setInj s.onEndAfter k { cur with notFlagged := cur.notFlagged ++ [ins.semAfter] } }
      | .brTable targets d =>
        let (s, fl) := flag s false
        park (targets.foldl (fun s t => park s fl t) s) fl d
      | .br d => let (s, fl) := flag s false; park s fl d
      | .brIf d => let (s, fl) := flag s true; park s fl d
      | _ => s
    { s with body := modifyAt s.body idx (fun i => { i with semAfter := [] }) }

/-- one iteration of the loop over the copy of the body -/
def rstep (last : Nat) (s : RState) (idx : Nat) (ins : Instr) : RState :=
  -- function entry
  let s := if !s.entry.isEmpty && idx == 0 then { s with body := addBefore s.body 0 s.entry, entry := [] } else s
  -- function exit
  let s :=
    if s.exit.isEmpty then s
    else if ins.kind == .exitLike then { s with body := addBefore s.body idx s.exit }
    else if idx == last then { s with body := addBefore s.body idx ([tEnd] ++ s.exit), exit := [] }
    else s
  -- block structure and block-alt
  let handleAlt (s : RState) (isElse : Bool) : Option RState :=   -- `some` = `continue`
    match ins.blockAlt with
    | some alt =>
      if s.deleteBlock.isNone then
        some { s with body := planBlockAlt s.body idx alt, retainEnd := isElse, deleteBlock := some (top s.stack) }
      else some { s with body := discardSpecial (setEmptyAlt s.body idx) idx }
    | none => if s.deleteBlock.isSome then some { s with body := discardSpecial (setEmptyAlt s.body idx) idx } else none
  -- the pending block-exit bodies of the `if` with block id `k` (flushed at its `else` or `end` only)
  let flushElseOrEnd (s : RState) (k : Nat) : RState :=
    if s.onElseOrEnd.any (·.1 == k) then
      { s with body := addBefore s.body idx (resolveBodies (getInj s.onElseOrEnd k)), onElseOrEnd := removeInj s.onElseOrEnd k }
    else s
  match ins.kind with
  | .block | .loop | .if_ =>
    let s := { s with stack := s.stack ++ [s.stack.length] }
    match handleAlt s false with
    | some s' => s'
    | none => planSpecial s idx ins
  | .else_ =>
    let s := flushElseOrEnd s (top s.stack)
    match handleAlt s true with
    | some s' => s'
    | none => planSpecial s idx ins
  | .end_ =>
    match s.stack.getLast? with
    | none => planSpecial s idx ins
    | some blockId =>
      let s := { s with stack := s.stack.dropLast }
      let cont : Option RState :=       -- `some` = `continue`
        match s.deleteBlock with
        | some d =>
          if d == blockId then
            if !s.retainEnd then some { s with deleteBlock := none, retainEnd := true, body := discardSpecial (setEmptyAlt s.body idx) idx }
            else none
          else some { s with body := discardSpecial (setEmptyAlt s.body idx) idx }
        | none => none
      match cont with
      | some s' => s'
      | none =>
        let s := if s.deleteBlock == some blockId then { s with deleteBlock := none, retainEnd := true } else s
        let s := flushElseOrEnd s blockId
        let bInj := getInj s.onEndBefore blockId
        let aInj := getInj s.onEndAfter blockId
        let hasB := s.onEndBefore.any (·.1 == blockId)
        let hasA := s.onEndAfter.any (·.1 == blockId)
        let b := if hasB then addBefore s.body idx (resolveBodies bInj) else s.body
        let b := if hasA then addAfter b idx (resolveBodies aInj) else b
        let s := { s with body := b, onEndBefore := removeInj s.onEndBefore blockId, onEndAfter := removeInj s.onEndAfter blockId }
        planSpecial s idx ins
  | _ =>
    if s.deleteBlock.isSome then { s with body := discardSpecial (setEmptyAlt s.body idx) idx }
    else planSpecial s idx ins

def rloop (last : Nat) : RState → Nat → List Instr → RState
  | s, _, [] => s
  | s, idx, i :: is => rloop last (rstep last s idx i) (idx + 1) is

/-- `resolve_special_instrumentation` for one function -/
def resolveSpecial (f : Func) : Func :=
  if !f.hasSpecial then f
  else
    let entry := if f.exit.isEmpty then f.entry else f.entry ++ [tWrapper]
    -- `get_fn_modifier`: function-level mode reset, the last instruction's mode set to `Before`
    let body0 := modifyAt f.body (f.body.length - 1) (fun i => { i with mode := some .before })
    let s0 : RState := { body := body0, entry := entry, exit := f.exit, nlocals := f.nlocals }
    let s := rloop (f.body.length - 1) s0 0 body0
    { f with body := s.body, fmode := none, entry := [], exit := [], nlocals := s.nlocals, added := f.added + s.added }

/-! ### emission -/

/-- the code loop of `encode_internal`: `before`, then the alternate (if any, and not at the final `end`) or the
    operator, then `after` (not at the final `end`) -/
def emitFrom (last : Nat) : Nat → List Instr → List Tok
  | _, [] => []
  | idx, i :: is =>
    let atEnd := idx ≥ last
    (i.before ++ (match i.alt with
                  | some a => if atEnd then [i.tok] else a
                  | none => [i.tok]) ++ (if atEnd then [] else i.after)) ++ emitFrom last (idx + 1) is

def emit (f : Func) : List Tok := emitFrom (f.body.length - 1) 0 f.body

/-- what `encode` produces for the function: resolved, then emitted; plus the number of locals it added -/
def lower (f : Func) : List Tok × Nat :=
  let g := resolveSpecial f
  (emit g, g.added)

end Orca.Lower
