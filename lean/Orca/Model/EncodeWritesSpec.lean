/-!
Every place in `Module::encode_internal` that can change the module being encoded, **as reviewed**, in the format of
translator/scan_writes.py (which regenerates `Orca.Gen.EncodeWrites` from /repo on every run).  C05 is about what the first
encoding leaves behind; the models M1 / M2 (`encode` returns the module it leaves) transcribe exactly these writes:

* `recalculate_ids` on functions, globals, memories: the vectors are brought into encoding order and ids reassigned (M1 `reorganise`);
* `resolve_special_instrumentation`: special modes become before / after / alternate lists, the special lists are cleared (M3 `resolveSpecial`;
  `c05_lowering_leaves_nothing_special`);
* `self.start =`: the start function is stored under its new index;
* global initialisers, instruction operands, injected code, data offsets: `fix_id_mapping` / `fix_op_id_mapping` rewrite the stored
  references **in place** through the maps of this encoding.  A second encoding applies *its* maps to the already rewritten
  references: the identity when nothing is pending (`c05_encode_idem_partial`), not the identity otherwise (finding F4,
  `c05_second_encode_counterexample`).

Entries on encoder-side values (sections under construction, scratch vectors) are listed by the scanner as well; they do not reach the module.
Hand-maintained; never generated.
-/
namespace Orca.EncodeWritesSpec

def encode_internal : List (String × String) :=
  [("call", "Self .recalculate_ids()"), ("borrow", "&mut self.functions"), ("call", "Self .recalculate_ids()"),
   ("borrow", "&mut self.globals"), ("call", "Self .recalculate_ids()"), ("borrow", "&mut self.memories"),
   ("call", "self .resolve_special_instrumentation()"), ("assign", "self.start ="), ("call", "add_injection()"),
   ("call", "subtypes .push()"), ("call", "function_names .append()"), ("call", "add_injection()"),
   ("call", "add_injection()"), ("call", "add_injection()"), ("call", "add_injection()"),
   ("call", "self.globals .iter_mut()"), ("borrow", "&mut global.kind"), ("call", "init_expr.exprs .iter_mut()"),
   ("call", "expr .fix_id_mapping()"), ("call", "add_injection()"), ("call", "add_injection()"),
   ("call", "temp_const_exprs .clear()"), ("call", "element_items .clear()"), ("call", "temp_const_exprs .push()"),
   ("call", "add_injection()"), ("call", "self.functions .get_mut()"), ("borrow", "&mut func.body"),
   ("call", "converted_locals .push()"), ("call", "instructions .iter_mut()"), ("call", "fix_op_id_mapping()"),
   ("call", "update_ids_and_encode()"), ("borrow", "&mut before.instrs"), ("call", "update_ids_and_encode()"),
   ("borrow", "&mut alt.instrs"), ("call", "update_ids_and_encode()"), ("borrow", "&mut after.instrs"),
   ("call", "update_ids_and_encode()"), ("borrow", "&mut wasm_encoder.Function"), ("call", "fix_op_id_mapping()"),
   ("borrow", "&mut wasm_encoder.Function"), ("call", "function_names .append()"), ("call", "self.data .iter_mut()"),
   ("borrow", "&mut segment.kind"), ("call", "add_injection()"), ("call", "offset_expr.exprs .iter_mut()"),
   ("call", "expr .fix_id_mapping()"), ("call", "add_injection()"), ("call", "renumbered .sort_by_key()"),
   ("call", "map .append()"), ("call", "local_names .append()"), ("call", "renumbered .sort_by_key()"),
   ("call", "global_names .append()")]

/-- the writes that reach the module (the others fill encoder-side values) -/
def reachModule : List (String × String) :=
  [("call", "Self .recalculate_ids()"), ("borrow", "&mut self.functions"), ("borrow", "&mut self.globals"),
   ("borrow", "&mut self.memories"), ("call", "self .resolve_special_instrumentation()"), ("assign", "self.start ="),
   ("call", "self.globals .iter_mut()"), ("borrow", "&mut global.kind"), ("call", "init_expr.exprs .iter_mut()"),
   ("call", "expr .fix_id_mapping()"), ("call", "self.functions .get_mut()"), ("borrow", "&mut func.body"),
   ("call", "instructions .iter_mut()"), ("call", "fix_op_id_mapping()"), ("call", "update_ids_and_encode()"),
   ("borrow", "&mut before.instrs"), ("borrow", "&mut alt.instrs"), ("borrow", "&mut after.instrs"),
   ("call", "self.data .iter_mut()"), ("borrow", "&mut segment.kind"), ("call", "offset_expr.exprs .iter_mut()")]

end Orca.EncodeWritesSpec
