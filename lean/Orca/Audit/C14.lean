import Orca.Props.C14
#print axioms Orca.Locals.c14_add_local
#print axioms Orca.Locals.c14_add_locals
#print axioms Orca.Locals.c14_types_at_ids
