import Orca.Model.Edit
import Orca.Model.EditInv
import Driver.Util
namespace Driver
open Orca.Edit Orca.Reindex

def parseSp (c : Char) : Option Sp :=
  if c == 'F' then some .F else if c == 'G' then some .G else if c == 'M' then some .M else none

/-- `<site>.<F|G|M><idx>` -/
def parseRef (s : String) : Option Ref :=
  match s.splitOn "." with
  | [a, b] => do
    let site ← a.toNat?
    let sp ← parseSp (b.front)
    let idx ← (b.drop 1).toString.toNat?
    pure { site := site, sp := sp, idx := idx }
  | _ => none

def parseRefs (s : String) : Option (List Ref) :=
  if s = "-" || s = "" then some [] else (s.splitOn "+").mapM parseRef

/-- `<uid>:<refs>/<uid>:<refs>` -/
def parseOwned (s : String) : Option (List (Nat × List Ref)) :=
  if s = "-" || s = "" then some []
  else (s.splitOn "/").mapM (fun e =>
    match e.splitOn ":" with
    | [u, rs] => do let u ← u.toNat?; let rs ← parseRefs rs; pure (u, rs)
    | _ => none)

def parseDatas (s : String) : Option (List (Ref × List Ref)) :=
  if s = "-" || s = "" then some []
  else (s.splitOn "/").mapM (fun e =>
    match e.splitOn ":" with
    | [m, rs] => do let m ← parseRef m; let rs ← parseRefs rs; pure (m, rs)
    | _ => none)

/-- `F<uid>`, `G<uid>`, `M<uid>`, `T<uid>` -/
def parseImps (s : String) : Option (List ImpEntry) :=
  (parseList s).mapM (fun e => do
    let u ← (e.drop 1).toString.toNat?
    pure ({ sp := parseSp e.front, del := false, uid := u } : ImpEntry))

def impIdOf (imps : List ImpEntry) (sp : Sp) (uid : Nat) : Nat :=
  (imps.findIdx? (fun e => e.sp == some sp && e.uid == uid)).getD 0

/-- items of one space `i<uid>` / `l<uid>` in vector order; stored id = position -/
def parseSpace (imps : List ImpEntry) (sp : Sp) (s : String) : Option Space := do
  let ents ← (parseList s).mapM (fun e => do
    let u ← (e.drop 1).toString.toNat?
    pure (e.front == 'i', u))
  let items := ents.zipIdx.map (fun (p : (Bool × Nat) × Nat) =>
    ({ id := p.2, imp := p.1.1, del := false, uid := p.1.2, impId := if p.1.1 then impIdOf imps sp p.1.2 else 0 } : Item))
  pure { items := items, recalc := false,
         numImp := (ents.filter (fun e => e.1)).length, numImpAdded := 0 }

def parseEOp (s : String) : Option Op :=
  match s.splitOn ":" with
  | ["alf", u, rs] => do pure (.addLocalFunc (← u.toNat?) (← parseRefs rs))
  | ["aif", u] => do pure (.addImportFunc (← u.toNat?))
  | ["df", i] => do pure (.deleteFunc (← i.toNat?))
  | ["l2i", i, u] => do pure (.localToImport (← i.toNat?) (← u.toNat?))
  | ["ri", i, u, rs] => do pure (.replaceImport (← i.toNat?) (← u.toNat?) (← parseRefs rs))
  | ["inj", i, rs] => do pure (.inject (← i.toNat?) (← parseRefs rs))
  | ["ag", u, rs] => do pure (.addGlobal (← u.toNat?) (← parseRefs rs))
  | ["aig", u] => do pure (.addImportedGlobal (← u.toNat?))
  | ["iag", u, rs] => do pure (.iterAddGlobal (← u.toNat?) (← parseRefs rs))
  | ["dg", i] => do pure (.deleteGlobal (← i.toNat?))
  | ["mg", i, rs] => do pure (.modGlobalInit (← i.toNat?) (← parseRefs rs))
  | ["alm", u] => do pure (.addLocalMem (← u.toNat?))
  | ["aim", u] => do pure (.addImportMem (← u.toNat?))
  | ["dm", i] => do pure (.deleteMem (← i.toNat?))
  | ["aex", r] => do pure (.addExport (← parseRef r))
  | ["dex", i] => do pure (.deleteExport (← i.toNat?))
  | ["ad", m, rs] => do pure (.addData (← parseRef m) (← parseRefs rs))
  | ["enc"] => some .encode
  | _ => none

def showRet : Ret → String
  | .id n => s!"i{n}"
  | .id2 n i => s!"p{n}.{i}"
  | .bool b => if b then "t" else "f"
  | .unit => "u"
  | .panic _ => "PANIC"
  | .encoded .. => "E"

def uidAt (f g m : List Nat) (r : Ref) : String :=
  let sp := match r.sp with | .F => f | .G => g | .M => m
  match sp[r.idx]? with
  | some u => toString u
  | none => "?"

def insertSorted (x : Nat × String) : List (Nat × String) → List (Nat × String)
  | [] => [x]
  | y :: ys => if x.1 ≤ y.1 then x :: y :: ys else y :: insertSorted x ys

def siteLine (f g m : List Nat) (res : List Ref) (sp : Sp) : String :=
  let sites := ((res.filter (fun r => r.sp == sp)).map (fun r => (r.site, uidAt f g m r))).foldl (fun acc x => insertSorted x acc) []
  showStrs (sites.map (fun p => s!"{p.1}>{p.2}"))

def showEnc (case : String) (k : Nat) : Ret → List String
  | .encoded f g m res st =>
    let stS := match st with | some r => s!"{r.site}>{uidAt f g m r}" | none => "-"
    [s!"edit {case} enc{k}.F={showNats f}", s!"edit {case} enc{k}.G={showNats g}", s!"edit {case} enc{k}.M={showNats m}",
     s!"edit {case} enc{k}.sitesF={siteLine f g m res .F}", s!"edit {case} enc{k}.sitesG={siteLine f g m res .G}",
     s!"edit {case} enc{k}.sitesM={siteLine f g m res .M}", s!"edit {case} enc{k}.start={stS}"]
  | _ => []

/-- which line an operation's return value is reported on -/
def opClass : Op → Nat
  | .addLocalFunc .. | .addImportFunc .. | .deleteFunc .. | .localToImport .. | .replaceImport .. | .inject .. => 0
  | .addGlobal .. | .addImportedGlobal .. | .iterAddGlobal .. | .deleteGlobal .. | .modGlobalInit .. => 1
  | .addLocalMem .. | .addImportMem .. | .deleteMem .. => 2
  | _ => 3

/-- like `Orca.Edit.run`, also recording whether the state invariant holds in front of every `encode` -/
def runInv (s : St) : List Op → List Ret × List Bool
  | [] => ([], [])
  | op :: ops =>
    let inv := match op with | .encode => [stInvB s] | _ => []
    let r := step s op
    match r.2 with
    | .panic _ => ([r.2], inv)
    | _ =>
      let r2 := runInv r.1 ops
      (r.2 :: r2.1, inv ++ r2.2)

def runEdit (toks : List String) : List String :=
  match toks with
  | case :: rest =>
    let r : Option (List String) := do
      let imps ← (kv rest "IMP").bind parseImps
      let f ← (kv rest "F").bind (parseSpace imps .F)
      let g ← (kv rest "G").bind (parseSpace imps .G)
      let m ← (kv rest "M").bind (parseSpace imps .M)
      let code ← (kv rest "CODE").bind parseOwned
      let ginit ← (kv rest "GINIT").bind parseOwned
      let exps ← (kv rest "EXP").bind parseRefs
      let start ← (kv rest "START").bind (fun s => if s = "-" then some none else (parseRef s).map some)
      let elems ← (kv rest "ELEM").bind parseRefs
      let raws ← (kv rest "RAW").bind parseRefs
      let datas ← (kv rest "DATA").bind parseDatas
      let ndata ← (kv rest "NDATA").bind (·.toNat?)
      let ops ← (kv rest "OPS").bind (fun s => (if s = "-" then [] else s.splitOn ";").mapM parseEOp)
      let s0 : St := { f := f, g := g, m := m, imports := imps, code := code, ginit := ginit,
                       exports := exps.map (fun r => (r, false)), start := start, elems := elems, raws := raws, datas := datas, numData := ndata }
      let outI := runInv s0 ops
      let out : St × List Ret := (s0, outI.1)
      let encs := (out.2.filter (fun r => match r with | .encoded .. => true | _ => false)).zipIdx
      -- the invariant is proved inductive (Lemmas/Preserve.lean): it is checked on the state built from the parsed module
      -- (hypothesis of `stInv_of_parsed`); the check in front of the first encode is kept as a cross-check of the model
      -- and the initial state must have the shape the parser builds (`parsedStateB`; `stInv_of_parsedStateB`, Lemmas/Parsed.lean)
      let inv0 := stInvB s0 && s0.f.items.all (fun it => !it.del) && s0.g.items.all (fun it => !it.del) && s0.m.items.all (fun it => !it.del) && parsedStateB s0
      let invLine := s!"edit {case} inv={showStrs (((inv0 :: outI.2).take 2).map (fun b => if b then "ok" else "VIOLATED"))}"
      let tagged := (ops.take out.2.length).zip out.2
      let retLine (c : Nat) (nm : String) : String :=
        s!"edit {case} {nm}={showStrs ((tagged.filter (fun p => opClass p.1 == c)).map (fun p => showRet p.2))}"
      pure ([retLine 0 "retF", retLine 1 "retG", retLine 2 "retM", retLine 3 "retX", invLine] ++ encs.flatMap (fun p => showEnc case p.2 p.1))
    match r with
    | some ls => ls
    | none => [s!"edit {case} bad-op"]
  | _ => ["edit ? bad-op"]

end Driver
