import Orca.Model.Locals
import Driver.Util
namespace Driver
open Orca.Locals

/-- `locals <case> nparams=<n> decls=<c:t,..> adds=<t,..>` -/
def runLocals (toks : List String) : String :=
  match toks with
  | case :: rest =>
    match (kv rest "nparams").bind (·.toNat?), (kv rest "decls").bind parsePairs, (kv rest "adds").bind parseNats with
    | some n, some d, some a =>
      let r := addLocals (parsed n d) a
      s!"locals {case} ids={showNats r.2} expanded={showNats (expand r.1.decls)}"
    | _, _, _ => s!"locals {case} bad-op"
  | _ => "locals ? bad-op"

end Driver
