import Driver.Util
import Driver.Locals
open Driver

def step (line : String) : String :=
  match splitWs line with
  | "locals" :: rest => runLocals rest
  | [] => ""
  | f :: _ => s!"{f} ? unknown-family"

partial def loop (h : IO.FS.Stream) (out : IO.FS.Stream) : IO Unit := do
  let line ← h.getLine
  if line.isEmpty then return ()
  let r := step line
  if r ≠ "" then out.putStrLn r
  loop h out

def main : IO Unit := do
  let out ← IO.getStdout
  loop (← IO.getStdin) out
  out.flush
