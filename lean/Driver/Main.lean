import Driver.Util
import Driver.Locals
import Driver.Iter
import Driver.Custom
import Driver.Edit
import Driver.Lower
import Driver.Helpers
import Driver.Sem
import Driver.Types
import Driver.Adds
import Driver.Roundtrip
import Driver.Parse
import Driver.Comp
import Driver.SideFx
open Driver

def step (line : String) : List String :=
  match splitWs line with
  | "locals" :: rest => [runLocals rest]
  | "iter" :: rest => runIter rest
  | "compiter" :: rest => runCompIter rest
  | "custom" :: rest => runCustom rest
  | "edit" :: rest => runEdit rest
  | "lower" :: rest => runLower rest
  | "helpers" :: rest => runHelpers rest
  | "sem" :: rest => runSem rest
  | "types" :: rest => runTypes rest
  | "adds" :: rest => runAdds rest
  | "roundtrip" :: rest => runRoundtrip rest
  | "parse" :: rest => runParse rest
  | "comp" :: rest => runComp rest
  | "sidefx" :: rest => runSideFx rest
  | [] => []
  | f :: _ => [s!"{f} ? unknown-family"]

partial def loop (h : IO.FS.Stream) (out : IO.FS.Stream) : IO Unit := do
  let line ← h.getLine
  if line.isEmpty then return ()
  for r in step line do
    out.putStrLn r
  loop h out

def main : IO Unit := do
  let out ← IO.getStdout
  loop (← IO.getStdin) out
  out.flush
