import Orca.Model.Types
import Driver.Util
/-! driver of the `types` family: `types <case> base=<t;t;..> groups=<n[e],..> adds=<t;..>` → returned ids and the
    encoded type section, as the model (M5) predicts them. The content of a type is its canonical text. -/
namespace Driver
open Orca.Types

def splitSemi (s : String) : List String := if s = "-" || s = "" then [] else s.splitOn ";"

def parseGroups (s : String) : Option (List (Nat × Bool)) :=
  (parseList s).mapM fun g =>
    if g.endsWith "e" then (g.dropRight 1).toNat?.map (·, true) else g.toNat?.map (·, false)

def mkGroups : List (Nat × Bool) → Nat → List (List Nat × Bool)
  | [], _ => []
  | (n, e) :: rest, start => ((List.range n).map (· + start), e) :: mkGroups rest (start + n)

def runTypes (toks : List String) : List String :=
  match toks with
  | case :: rest =>
    let base := splitSemi ((kv rest "base").getD "-")
    let adds := splitSemi ((kv rest "adds").getD "-")
    match parseGroups ((kv rest "groups").getD "-") with
    | none => [s!"types {case} bad-line"]
    | some gs =>
      -- the iteration order of the hash map of parsed types is immaterial (theorem `new_order_independent`)
      let s0 : TState String := new (mkGroups gs 0) base (List.range base.length)
      let (s1, ids) := addAll s0 adds
      let enc := (encoded s1).map fun
        | some t => t
        | none => "?"
      [s!"types {case} ret={",".intercalate (ids.map toString)}", s!"types {case} enc={";".intercalate enc}"]
  | [] => []

end Driver
