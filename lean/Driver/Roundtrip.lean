import Orca.Gen.ValTypes
import Orca.Gen.ConstExpr
import Orca.Model.Sections
import Driver.Util
/-! driver of the `roundtrip` family: the conversions wirm performs itself, predicted from the regenerated tables -/
namespace Driver
open Orca.Gen

def parseAH (s : String) : Option AH :=
  [AH.Func, .Extern, .Any, .None, .NoExtern, .NoFunc, .Eq, .Struct, .Array, .I31, .Exn, .NoExn, .Cont, .NoCont].find?
    (fun h => ((reprStr h).splitOn ".").getLast? == some s)

def showAH (h : AH) : String := ((reprStr h).splitOn ".").getLast?.getD "?"

def parseVT (s : String) : Option VT :=
  match s.splitOn "." with
  | ["i32"] => some .i32 | ["i64"] => some .i64 | ["f32"] => some .f32 | ["f64"] => some .f64 | ["v128"] => some .v128
  | ["ref", n, sh, h] => (parseAH h).map (VT.ref (n == "1") (sh == "1"))
  | ["refm", n, i] => i.toNat?.map (VT.refModule (n == "1"))
  | ["refr", n, i] => i.toNat?.map (VT.refRecGroup (n == "1"))
  | _ => none

def b2s (b : Bool) : String := if b then "1" else "0"

def showVT : VT → String
  | .i32 => "i32" | .i64 => "i64" | .f32 => "f32" | .f64 => "f64" | .v128 => "v128"
  | .ref n s h => s!"ref.{b2s n}.{b2s s}.{showAH h}"
  | .refModule n i => s!"refm.{b2s n}.{i}"
  | .refRecGroup n i => s!"refr.{b2s n}.{i}"

def runRoundtrip (toks : List String) : List String :=
  match toks with
  | case :: rest =>
    let vts := parseList ((kv rest "vts").getD "-")
    let consts := parseList ((kv rest "consts").getD "-")
    let groups := (kv rest "groups").getD "-"
    let outV := vts.map fun s =>
      match parseVT s with
      | none => "?" ++ s
      | some v => match (fromVal v).bind toEnc with
        | some w => showVT w
        | none => "PANIC"
    let outC := consts.map fun c =>
      match evalTable.find? (fun r => r.1 == c) with
      | some r => (encTable r.2.1).1
      | none => "PANIC"
    -- the section plan (M15): `shape=` carries the thirteen numbers of `Orca.Sections.Shape` as counted on the input
    let secs : String :=
      match ((kv rest "shape").getD "").splitOn "." |>.mapM (·.toNat?) with
      | some [a, b, c, d, e, f, g, h, i, j, k, l, m] =>
        showStrs ((Orca.Sections.plan ⟨a, b, c, d, e, f, g, h, i != 0, j, k != 0, l, m⟩).map toString)
      | _ => "bad-shape"
    if outV.contains "PANIC" || outC.contains "PANIC" then [s!"roundtrip {case} PANIC"]
    else [s!"roundtrip {case} vts={showStrs outV}", s!"roundtrip {case} consts={showStrs outC}", s!"roundtrip {case} groups={groups}",
          s!"roundtrip {case} secs={secs}"]
  | [] => []

end Driver
