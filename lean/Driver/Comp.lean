import Orca.Model.Comp
import Driver.Util
/-! driver of the `comp` family: `comp <case> st=<path>:<kind>*<n>,..` — per nesting level the recorded runs are merged by
    `add_to_sections` and replayed; the model prints the structure the encoded component must have -/
namespace Driver
open Orca.Comp

def parseSt (t : String) : Option (String × String × Nat) :=
  match t.splitOn ":" with
  | [p, r] => match r.splitOn "*" with
    | [k, n] => n.toNat?.map (fun n => (p, k, n))
    | _ => none
  | _ => none

/-- runs of one nesting level, in order, merged as `add_to_sections` merges them, then replayed (`expandRuns` of the merged
    list regrouped: the replay emits one section per recorded run) -/
def levelRuns (entries : List (String × String × Nat)) (path : String) : List (Nat × String) :=
  (entries.filter (·.1 == path)).foldl (fun secs e => addToSections secs e.2.1 e.2.2) []

def runComp (toks : List String) : List String :=
  match toks with
  | case :: rest =>
    match (parseList ((kv rest "st").getD "-")).mapM parseSt with
    | none => [s!"comp {case} bad-line"]
    | some entries =>
      -- per nesting level: the recorded runs (merged by `add_to_sections`), replayed: the kinds of the items in order
      let paths := (entries.map (·.1)).eraseDups
      let lines := paths.map fun p => s!"{p}={".".intercalate (expandRuns (levelRuns entries p))}"
      [s!"comp {case} items={showStrs lines}"]
  | [] => []

end Driver
