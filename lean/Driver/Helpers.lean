import Orca.Model.HelperEmit
import Driver.Util
/-! driver of the `helpers` family: `helpers <case> h=<name> args=<patterns>` → what the regenerated table says is injected -/
namespace Driver
open Orca.Gen

def opName (o : Op) : String :=
  let s := reprStr o
  (s.splitOn ".").getLast?.getD s

def runHelpers (toks : List String) : List String :=
  match toks with
  | case :: rest =>
    match (kv rest "h"), (kv rest "args").bind parseNats with
    | some hn, some args =>
      match Helper.all.find? (fun h => h.name == hn) with
      | none => [s!"helpers {case} ? unknown-helper {hn}"]
      | some h =>
        let (op, imms) := h.emit args
        let shown := imms.map fun
          | some v => toString v
          | none => "?"
        [s!"helpers {case} op={opName op} imm={if shown.isEmpty then "-" else ",".intercalate shown}"]
    | _, _ => [s!"helpers {case} ? bad-line"]
  | [] => []

end Driver
