import Orca.Model.SideFx
import Driver.Util
/-! driver of the `sidefx` family: M12 over M2 -/
namespace Driver
open Orca.SideFx Orca.Edit

def sigNames : List String := ["", "i32", "i64.i64", "f32.i32", "i32.i32.i32", "f64"]
def FMARK : Nat := 500000
def GMARK : Nat := 700000
def PMARK : Nat := 900000

def hexDigit (c : Char) : Option Nat :=
  if c.isDigit then some (c.toNat - '0'.toNat)
  else if 'a'.toNat ≤ c.toNat ∧ c.toNat ≤ 'f'.toNat then some (c.toNat - 'a'.toNat + 10) else none

def parseHexL : List Char → Option (List Nat)
  | [] => some []
  | a :: b :: rest => do
    let x ← hexDigit a
    let y ← hexDigit b
    let r ← parseHexL rest
    pure ((x * 16 + y) :: r)
  | _ => none

def parseHex (s : String) : Option (List Nat) := if s = "e" then some [] else parseHexL s.toList

def hexOf (t : List Nat) : String :=
  if t.isEmpty then "e" else
  let d (n : Nat) : Char := if n < 10 then Char.ofNat ('0'.toNat + n) else Char.ofNat ('a'.toNat + n - 10)
  String.ofList (t.flatMap fun b => [d (b / 16), d (b % 16)])

/-- `N` = none, `D` = the default (empty) tag, `T<hex>` -/
def parseTagSpec (s : String) : Option (Option Tag) :=
  if s = "N" then some none else if s = "D" then some (some [])
  else if s.startsWith "T" then (parseHex (s.drop 1).toString).map some else none

def parseRefTok (s : String) : Option RefTok :=
  let rest := (s.drop 1).toString
  if s.startsWith "c" then rest.toNat?.map RefTok.const
  else match rest.splitOn "." with
    | [a, b] => do
      let site ← a.toNat?
      let id ← b.toNat?
      if s.startsWith "f" then pure (.call site id) else if s.startsWith "g" then pure (.gget site id) else none
    | _ => none

def parseRefToks (s : String) : Option (List RefTok) := (parseList s).mapM parseRefTok

def modeIdx (s : String) : Option Nat :=
  ["before", "after", "alternate", "semantic_after", "block_entry", "block_exit", "block_alt"].findIdx? (· == s)

def modeName (n : Nat) : String :=
  (["before", "after", "alternate", "semantic_after", "block_entry", "block_exit", "block_alt"][n]?).getD "?"

/-- an operation and the id the implementation reported for it (checked against the model's own) -/
def parseSOp (s : String) : Option (Orca.SideFx.Op × Option Nat) :=
  match s.splitOn "~" with
  | ["ty", sig, t, _] => do pure (.addType (← sig.toNat?) (← parseTagSpec t), none)
  | ["if", u, t, id, _] => do pure (.addImport .F (← u.toNat?) ((← parseTagSpec t).getD []), ← id.toNat?)
  | ["ig", u, t, id, _] => do pure (.addImport .G (← u.toNat?) ((← parseTagSpec t).getD []), ← id.toNat?)
  | ["im", u, t, id, _] => do pure (.addImport .M (← u.toNat?) ((← parseTagSpec t).getD []), ← id.toNat?)
  | ["fn", u, sig, t, rs, id] => do
    pure (.addFunc (← u.toNat?) (← sig.toNat?) ((← parseTagSpec t).getD []) (← parseRefToks rs), ← id.toNat?)
  | ["gl", u, t, r, id] => do
    let get ← if r = "-" then pure none else (parseRefTok r).map some
    pure (.addGlobal (← u.toNat?) ((← parseTagSpec t).getD []) get, ← id.toNat?)
  | ["me", u, t, id] => do pure (.addMem (← u.toNat?) ((← parseTagSpec t).getD []), ← id.toNat?)
  | ["ex", r, t] =>
    match r.splitOn "." with
    | [a, b] => do pure (.addExport (← a.toNat?) (← b.toNat?) (← parseTagSpec t), none)
    | _ => none
  | ["da", k, t, b] => do pure (.addData (k == "p") b (← parseTagSpec t), none)
  | ["df", i] => do pure (.delFunc (← i.toNat?), none)
  | ["dg", i] => do pure (.delGlobal (← i.toNat?), none)
  | ["dx", i] => do pure (.delExport (← i.toNat?), none)
  | ["pr", f, i, m, t, rs, _] => do
    let tag ← if t = "-" then pure none else (parseHex t).map some
    pure (.probe (← f.toNat?) (.loc (← i.toNat?) (← modeIdx m)) tag (← parseRefToks rs), none)
  | ["fp", f, m, t, rs, _] => do
    let tag ← if t = "-" then pure none else (parseHex t).map some
    pure (.probe (← f.toNat?) (.fn (m == "exit")) tag (← parseRefToks rs), none)
  | _ => none

def parseBase (s : String) : Option Base := do
  match s.splitOn "," with
  | [f, g, m, t, x, d] =>
    let two (s : String) : Option (Nat × Nat) :=
      match s.splitOn ":" with
      | [_, a, b] => do pure (← a.toNat?, ← b.toNat?)
      | _ => none
    let lst (s : String) : Option (List Nat) :=
      match s.splitOn ":" with
      | [_, l] => if l = "-" then some [] else (l.splitOn ".").mapM (·.toNat?)
      | _ => none
    let (nif, nlf) ← two f
    let (nig, nlg) ← two g
    let (nim, nlm) ← two m
    let nd ← match d.splitOn ":" with | [_, n] => n.toNat? | _ => none
    pure { nif := nif, nlf := nlf, nig := nig, nlg := nlg, nim := nim, nlm := nlm, types := ← lst t, exports := ← lst x, ndata := nd }
  | _ => none

def showTok : Tok → String
  | .const n => s!"i32.const:{PMARK + n}"
  | .drop => "drop"
  | .call id => s!"call:{id}"
  | .gget id => s!"global.get:{id}"
  | .unmapped => "?"

def showToks (ts : List Tok) : String := if ts.isEmpty then "-" else ",".intercalate (ts.map showTok)

def showON : Option Nat → String
  | some n => toString n
  | none => "?"

def spCh : Sp → String
  | .F => "F" | .G => "G" | .M => "M"

def sigStr (sig : Nat) : String := (sigNames[sig]?).getD "?" ++ ">"

def showRec : Rec → String
  | .type sig t => s!"{sigStr sig}~{hexOf t}"
  | .import uid k t => s!"env.{(spCh k).toLower}{uid}:{spCh k}~{hexOf t}"
  | .export pos idx t => s!"x{pos}:Func:{idx}~{hexOf t}"
  | .memory uid id t => s!"{id}:{uid + 2}:None~{hexOf t}"
  | .data p b t => (if p then s!"p:{b}" else s!"a:0:i32.const:16:{b}") ++ s!"~{hexOf t}"
  | .global uid id init t =>
    let i := match init with | some ts => showToks (ts.filter (· != Tok.drop)) | none => s!"i32.const:{GMARK + uid}"
    s!"{id}:i32:0:{if uid % 2 == 0 then 1 else 0}:{i}~{hexOf t}"
  | .func uid id sig body t => s!"{id}:-:{sigStr sig}:0:i32.const:{FMARK + uid},drop,{if body.isEmpty then "" else showToks body ++ ","}end~{hexOf t}"
  | .funcProbe fid exit body t => s!"F:{showON fid}:{if exit then "exit" else "entry"}:{showToks body}~{hexOf t}"
  | .locProbe fid idx mode body t => s!"L:{showON fid}:{idx}:{modeName mode}:{showToks body}~{hexOf t}"

def runSideFx (toks : List String) : List String :=
  match toks with
  | case :: rest =>
    let r : Option (List String) := do
      let special ← (kv rest "special").bind (·.toNat?)
      let b ← (kv rest "base").bind parseBase
      let opsS ← kv rest "ops"
      if opsS = "-" ∧ (kv rest "panic").isSome then pure [s!"sidefx {case} panic"] else
      let ops ← (if opsS = "-" then [] else opsS.splitOn ";").mapM parseSOp
      -- the ids the implementation reported must be the ones the model computes
      let chk := ops.foldl (fun (acc : Orca.SideFx.St × Bool) (p : Orca.SideFx.Op × Option Nat) =>
        let want : Option Nat := match p.1 with
          | .addImport k _ _ => some (vecOf acc.1 k).length
          | .addFunc .. => some acc.1.funcs.length
          | .addGlobal .. => some acc.1.globals.length
          | .addMem .. => some acc.1.mems.length
          | _ => none
        (Orca.SideFx.step acc.1 p.1, acc.2 && (want == p.2 || p.2.isNone))) (init b, true)
      if !chk.2 then pure [s!"sidefx {case} reported-id-differs"] else
      match pull chk.1 with
      | none => pure [s!"sidefx {case} panic"]
      | some rep =>
        let keepProbe (r : Rec) : Bool := special == 0 || (special == 1 && !r.tag.isEmpty)
        let groups : List (String × List Rec) :=
          [("data", rep.datas), ("export", rep.exports), ("func", rep.funcs), ("global", rep.globals), ("import", rep.imports),
           ("memory", rep.mems), ("probe", rep.probes.filter keepProbe), ("type", rep.types)]
        let shown := (groups.filter (fun g => !g.2.isEmpty)).map fun g => s!"{g.1}[{";".intercalate (g.2.map showRec)}]"
        pure [s!"sidefx {case} fx={if shown.isEmpty then "-" else "|".intercalate shown}"]
    match r with
    | some ls => ls
    | none => [s!"sidefx {case} bad-op"]
  | _ => ["sidefx ? bad-op"]

end Driver
