import Orca.Model.Parse
import Orca.Gen.DefTypes
import Driver.Util
namespace Driver
open Orca.Parse

def parseEv (t : String) : Option Ev :=
  match t.splitOn ":" with
  | ["E"] => some .readerError
  | ["ver", n] => n.toNat?.map .version
  | ["unk", n] => n.toNat?.map .unknownSection
  | ["other"] => some .other
  | ["imports", n] => n.toNat?.map .imports
  | ["types", ks] => some (.types (ks.toList.map (· == 'f')))
  | ["funcs", l] => ((if l = "" then [] else l.splitOn ".").mapM (fun (x : String) => x.toNat?)).map .funcs
  | ["ccstart", n] => n.toNat?.map .codeStart
  | ["body", f] => some (.body (f == "e") (f == "r"))
  | ["names", l] => ((if l = "" then [] else l.splitOn ".").mapM (fun (x : String) => x.toNat?)).map .names
  | ["cx", ops, term] => some (.constExpr (if ops = "" then [] else ops.splitOn ".") (term == "readerr") (term == "extra"))
  | ["start"] => some .start
  | ["dcount", n] => n.toNat?.map .dataCount
  | ["data", n] => n.toNat?.map .data
  | _ => none

def runParse (toks : List String) : List String :=
  match toks with
  | case :: rest =>
    match (parseList ((kv rest "ev").getD "-")).mapM parseEv with
    | none => [s!"parse {case} bad-line"]
    | some evs =>
      -- components nested inside each other (`nest=<levels>`, only on the cases built for it): error iff deeper than the bound
      let nest : List String := match (kv rest "nest").bind (·.toNat?) with
        | some n => [s!"parse {case} nesting={if n ≤ Orca.Gen.maxNestingDepth then "ok" else "err"}"]
        | none => []
      match parseM evs with
      | .ok => [s!"parse {case} module=OK"] ++ nest
      | .err _ => [s!"parse {case} module=ERR"] ++ nest
      | .panic s => [s!"parse {case} module=PANIC({s})"] ++ nest
  | [] => []

end Driver
