import Orca.Model.Names
import Driver.Edit
/-! driver of the `adds` family: M2 (index spaces, returned ids) + M13 (names) -/
namespace Driver
open Orca.Edit Orca.Names Orca.Reindex

def parseNamed (s : String) : Option (List (Nat × String)) :=
  (parseList s).mapM fun e =>
    match e.splitOn ":" with
    | [k, n] => k.toNat?.map (·, n)
    | _ => none

def parseLNames (s : String) : Option (List ((Nat × Nat) × String)) :=
  (parseList s).mapM fun e =>
    match e.splitOn ":" with
    | [k, n] =>
      match k.splitOn "." with
      | [a, b] => do pure ((← a.toNat?, ← b.toNat?), n)
      | _ => none
    | _ => none

inductive AOp where
  | edit (op : Op) (name : Option String)
  | sfn (id : Nat) (name : String)
  | rin (impId uid : Nat) (field : String)
  | nop

def parseAOp (s : String) : Option AOp :=
  match s.splitOn ":" with
  | ["nop"] => some .nop
  | ["nop", _] => some .nop
  | ["sfn", i, n] => i.toNat?.map (AOp.sfn · n)
  | ["rin", i, u, n] => do pure (AOp.rin (← i.toNat?) (← u.toNat?) n)
  | ["alf", u, _, n] => u.toNat?.map (fun u => AOp.edit (.addLocalFunc u []) (if n = "-" then none else some n))
  | _ => (parseEOp s).map (AOp.edit · none)

def showRetA (sp : String) : Ret → Option String
  | .id n => some s!"{sp}{n}"
  | .id2 n _ => some s!"{sp}{n}"
  | _ => none

def spOfOp : Op → String
  | .addLocalFunc .. | .addImportFunc .. => "F"
  | .addGlobal .. | .addImportedGlobal .. => "G"
  | .addLocalMem .. | .addImportMem .. => "M"
  | _ => "?"

/-- runs the history; `none` = a call panics -/
def runAOps (s : NSt) (rets : List String) : List AOp → Option (NSt × List String)
  | [] => some (s, rets)
  | .nop :: rest => runAOps s rets rest
  | .sfn id n :: rest =>
    match setFnName s id n with
    | some s' => runAOps s' rets rest
    | none => none
  | .rin impId uid field :: rest =>
    let r := replaceImportNamed s impId uid field
    match r.2 with
    | .panic _ => none
    | _ => runAOps r.1 rets rest
  | .edit op nm :: rest =>
    let r := step s.e op
    match r.2 with
    | .panic _ => none
    | ret =>
      let s' : NSt := { s with e := r.1 }
      let s' := match op, nm with
        | .addLocalFunc u _, some n => { s' with fname := setName s'.fname u n }
        | _, _ => s'
      runAOps s' (rets ++ ((showRetA (spOfOp op) ret).map (fun x => [x])).getD []) rest

def runAdds (toks : List String) : List String :=
  match toks with
  | case :: rest =>
    let r : Option (List String) := do
      let imps ← (kv rest "IMP").bind parseImps
      let f ← (kv rest "F").bind (parseSpace imps .F)
      let g ← (kv rest "G").bind (parseSpace imps .G)
      let m ← (kv rest "M").bind (parseSpace imps .M)
      let fn ← (kv rest "FN").bind parseNamed
      let ln ← (kv rest "LN").bind parseLNames
      let gn ← (kv rest "GN").bind parseNamed
      let ops ← (kv rest "OPS").bind (fun s => (if s = "-" then [] else s.splitOn ";").mapM parseAOp)
      let e0 : Orca.Edit.St := { f := f, g := g, m := m, imports := imps }
      -- parsed names: imported functions carry theirs on the import entry (by position), local ones on the function
      let impPos (uid : Nat) : Option Nat := imps.findIdx? (fun en => en.sp == some Sp.F && en.uid == uid)
      let impName := fn.filterMap (fun p => (impPos p.1).map (·, p.2))
      let fname := fn.filter (fun p => (impPos p.1).isNone)
      let s0 : NSt := { e := e0, fname := fname, impName := impName, lnames := ln, gnames := gn }
      match runAOps s0 [] ops with
      | none => pure [s!"adds {case} PANIC"]
      | some (s1, rets) =>
        let enc := encode s1.e
        match enc.2 with
        | .encoded fsp gsp msp _ _ =>
          let s2 : NSt := { s1 with e := enc.1 }
          let nimpF := (impUids s2.e.imports Sp.F).length
          let fnames := emittedFnames s2 (fsp.drop nimpF)
          let atIdx (l : List Nat) (i : Nat) : String := match l[i]? with | some u => toString u | none => "?"
          pure [s!"adds {case} ret={showStrs rets}", s!"adds {case} F={showNats fsp}", s!"adds {case} G={showNats gsp}",
                s!"adds {case} M={showNats msp}",
                s!"adds {case} fnames={showStrs (fnames.map fun p => s!"{atIdx fsp p.1}:{p.2}")}",
                s!"adds {case} lnames={showStrs ((emittedLnames s2).map fun p => s!"{atIdx fsp p.1.1}.{p.1.2}:{p.2}")}",
                s!"adds {case} gnames={showStrs ((emittedGnames s2).map fun p => s!"{atIdx gsp p.1}:{p.2}")}"]
        | _ => pure [s!"adds {case} PANIC"]
    match r with
    | some ls => ls
    | none => [s!"adds {case} bad-op"]
  | _ => ["adds ? bad-op"]

end Driver
