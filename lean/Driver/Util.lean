/-! line-protocol helpers shared by all families (core Lean only) -/
namespace Driver

def splitWs (s : String) : List String :=
  (s.trimAscii.toString.splitOn " ").filter (· ≠ "")

/-- "-" is the empty list; otherwise comma separated -/
def parseList (s : String) : List String :=
  if s = "-" || s = "" then [] else s.splitOn ","

def parseNats (s : String) : Option (List Nat) :=
  (parseList s).mapM (·.toNat?)

def showNats (xs : List Nat) : String :=
  if xs.isEmpty then "-" else ",".intercalate (xs.map toString)

def showStrs (xs : List String) : String :=
  if xs.isEmpty then "-" else ",".intercalate xs

/-- "a:b" pairs -/
def parsePair (s : String) : Option (Nat × Nat) :=
  match s.splitOn ":" with
  | [a, b] => do let x ← a.toNat?; let y ← b.toNat?; pure (x, y)
  | _ => none

def parsePairs (s : String) : Option (List (Nat × Nat)) :=
  (parseList s).mapM parsePair

/-- value of `key=` among tokens -/
def kv (toks : List String) (key : String) : Option String :=
  toks.findSome? fun t =>
    if t.startsWith (key ++ "=") then some ((t.drop (key.length + 1)).toString) else none

end Driver
