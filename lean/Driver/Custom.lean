import Orca.Model.Custom
import Driver.Util
namespace Driver
open Orca.Custom

def parseSec (s : String) : Option Sec :=
  match s.splitOn ":" with
  | [n, d] => some ⟨n, d⟩
  | _ => none

def parseCOp (s : String) : Option Op :=
  match s.splitOn ":" with
  | ["add", n, d] => some (.add ⟨n, d⟩)
  | ["del", i] => i.toNat?.map .delete
  | ["mod", i, d] => i.toNat?.map (fun k => .modify k d)
  | ["getid", n] => some (.getId n)
  | _ => none

def showOut : Out → String
  | .id n => s!"i{n}"
  | .none => "none"
  | .done => "done"

def showSecs (l : List Sec) : String := showStrs (l.map fun s => s!"{s.name}:{s.data}")

/-- `custom <case> secs=<name>:<data>,.. ops=<op>;..` (names and data in hex) -/
def runCustom (toks : List String) : List String :=
  match toks with
  | case :: rest =>
    let secs := (kv rest "secs").bind (fun s => (parseList s).mapM parseSec)
    let ops := (kv rest "ops").bind (fun s => (if s = "-" then [] else s.splitOn ";").mapM parseCOp)
    match secs, ops with
    | some secs, some ops =>
      let r := run (parse secs) ops
      [s!"custom {case} outs={showStrs (r.2.map showOut)}", s!"custom {case} final={showSecs (encode r.1)}"]
    | _, _ => [s!"custom {case} bad-op"]
  | _ => ["custom ? bad-op"]

end Driver
