import Orca.Model.Lower
import Driver.Util
namespace Driver
open Orca.Lower

def kindOf (t : String) : Kind :=
  let parts := t.splitOn ":"
  match parts with
  | ["block"] | ["block", _] => .block
  -- a `try_table` without handlers nests like a block and takes no special mode (the family never asks for one on it)
  | ["try_table"] | ["try_table", _] => .block
  | ["loop"] | ["loop", _] => .loop
  | ["if"] | ["if", _] => .if_
  | ["else"] => .else_
  | ["end"] => .end_
  | ["br", d] => .br (d.toNat?.getD 0)
  | ["br_if", d] => .brIf (d.toNat?.getD 0)
  | ["br_table", x] =>
    match x.splitOn "/" with
    | [ts, d] => .brTable ((if ts = "" then [] else ts.splitOn ".").map (·.toNat?.getD 0)) (d.toNat?.getD 0)
    | _ => .other
  | ["return"] | ["unreachable"] | ["return_call", _] => .exitLike
  | _ => .other

def parseMode (s : String) : Option Mode :=
  match s with
  | "before" => some .before | "after" => some .after | "alternate" => some .alternate
  | "semantic_after" => some .semanticAfter | "block_entry" => some .blockEntry | "block_exit" => some .blockExit
  | "block_alt" => some .blockAlt
  | _ => none

def parseApiOp (s : String) : Option ApiOp :=
  match s.splitOn "~" with
  | ["m", i, m] => do pure (.setMode (← i.toNat?) (← parseMode m))
  | ["fm", "entry"] => some (.setFMode .entry)
  | ["fm", "exit"] => some (.setFMode .exit)
  | ["i", i, t] => do pure (.inject (← i.toNat?) t)
  | ["ia", i, m, t] => do pure (.injectAtRaw (← i.toNat?) (← parseMode m) t)
  | ["aa", i, t] => do pure (.addInstrAt (← i.toNat?) t)
  | ["ea", i] => do pure (.emptyAlt (← i.toNat?))
  | ["cl", i, m] => do pure (.clear (← i.toNat?) (← parseMode m))
  | ["eba", i] => do pure (.emptyBlockAlt (← i.toNat?))
  | ["ff"] => some .finishFunc
  | _ => none

/-- `lower <case> nlocals=<n> body=<tok>,.. plan=<op>;..` -/
def runLower (toks : List String) : List String :=
  match toks with
  | case :: rest =>
    let r : Option (List String) := do
      let n ← (kv rest "nlocals").bind (·.toNat?)
      let body := parseList ((kv rest "body").getD "-")
      let plan ← (kv rest "plan").bind (fun s => (if s = "-" then [] else s.splitOn ";").mapM parseApiOp)
      let f0 : Func := { body := body.map (fun t => { tok := t, kind := kindOf t }), nlocals := n }
      match applyAll f0 plan with
      | none => pure [s!"lower {case} PANIC"]
      | some f =>
        let out := lower f
        pure [s!"lower {case} special={if f.hasSpecial then 1 else 0}", s!"lower {case} out={showStrs out.1}", s!"lower {case} added={out.2}"]
    match r with
    | some ls => ls
    | none => [s!"lower {case} bad-op"]
  | _ => ["lower ? bad-op"]

end Driver
