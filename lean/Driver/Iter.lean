import Orca.Model.Iter
import Driver.Util
namespace Driver
open Orca.Iter

def showVisit (v : Visit) : String := s!"{v.1}.{v.2.1}.{if v.2.2 then 1 else 0}"
def showTrace (t : List Visit) : String := if t.isEmpty then "-" else ";".intercalate (t.map showVisit)
def showCTrace (t : List (Nat × Visit)) : String :=
  if t.isEmpty then "-" else ";".intercalate (t.map fun p => s!"{p.1}.{showVisit p.2}")

def stepsM : Nat → ModIt → ModIt
  | 0, it => it
  | k + 1, it => stepsM k it.next.1

def stepsC : Nat → CompIt → CompIt
  | 0, c => c
  | k + 1, c => stepsC k c.next.1

/-- `iter <case> md=f:n,.. skip=f,.. resetafter=k` -/
def runIter (toks : List String) : List String :=
  match toks with
  | case :: rest =>
    match (kv rest "md").bind parsePairs, (kv rest "skip").bind parseNats, (kv rest "resetafter").bind (·.toNat?) with
    | some md, some skip, some k =>
      let fuel := totalInstrs md + 1
      let it := ModIt.new md skip
      let it2 := (stepsM k it.reset).reset
      [s!"iter {case} trace={showTrace (it.trace fuel)}", s!"iter {case} reset_trace={showTrace (it2.trace fuel)}"]
    | _, _, _ => [s!"iter {case} bad-op"]
  | _ => ["iter ? bad-op"]

/-- `compiter <case> mods=f:n,..|f:n,.. skips=f,..|-|.. resetafter=k` -/
def runCompIter (toks : List String) : List String :=
  match toks with
  | case :: rest =>
    match (kv rest "mods").bind (fun s => (s.splitOn "|").mapM parsePairs),
          (kv rest "skips").bind (fun s => (s.splitOn "|").mapM parseNats),
          (kv rest "resetafter").bind (·.toNat?) with
    | some mds, some skips, some k =>
      let fuel := (mds.map totalInstrs).sum + 1
      let c := CompIt.new mds skips
      let c2 := (stepsC k c.reset).reset
      [s!"compiter {case} trace={showCTrace (c.trace fuel)}", s!"compiter {case} reset_trace={showCTrace (c2.trace fuel)}"]
    | _, _, _ => [s!"compiter {case} bad-op"]
  | _ => ["compiter ? bad-op"]

end Driver
