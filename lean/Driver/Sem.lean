import Orca.Model.SemTree
import Orca.Lemmas.SemBranch
import Driver.Util
import Driver.Lower
/-!
driver of the `sem` family (C16-C20):

`sem <case> np= nl= nres= nglob= callees= body= plan= args= out= `

* the flat model (M3) and the tree model (M4) lower the planned injections; the tree model's output is printed when the
  case is inside its scope, the flat model's otherwise (`out=`), in canonical probe order;
* the *monitor semantics* of the annotated original and the plain semantics of the real crate's decoded output (`out=`
  of the case line) are executed on every argument vector and compared: `ORACLE OK|FAIL …` lines.
-/
namespace Driver
open Orca.Sem Orca.SemTree

structure ProbeInfo where
  id : Nat
  kind : String      -- before | after | entry | exit | semafter-block | semafter-branch | fentry | fexit
  ctx : String       -- extra context used for the signature of a failure
deriving Repr

mutual
def hasBlockLikeI : Instr → Bool
  | .block .. | .loop .. | .ite .. => true
  | _ => false
def hasBlockLikeL : List Instr → Bool
  | [] => false
  | i :: is => hasBlockLikeI i || hasBlockLikeL is
end

def mk (kind ctx : String) (ps : List Nat) : List ProbeInfo := ps.map fun p => { id := p, kind := kind, ctx := ctx }

/-- kind of the construct a branch with label `n` reaches, given the enclosing constructs (innermost first) -/
def targetKind (encl : List String) (n : Nat) : String :=
  match encl[n]? with
  | some k => k
  | none => if n = encl.length then "fnlabel" else "out-of-range"

mutual
def infoI (encl : List String) : Instr → List ProbeInfo
  | .op b a _ => mk "before" "" b ++ mk "after" "" a
  | .probe _ => []
  | .block b ann _ _ body =>
    mk "before" "" b ++ mk "entry" "block" ann.entry ++ mk "exit" "block" ann.exit ++ mk "semafter-block" "block" ann.after
      ++ infoL ("block" :: encl) body
  | .loop b ann _ body =>
    mk "before" "" b ++ mk "entry" "loop" ann.entry ++ mk "exit" "loop" ann.exit ++ mk "semafter-block" "loop" ann.after
      ++ infoL ("loop" :: encl) body
  | .ite b annT annE _ _ t e _ =>
    mk "before" "" b ++ mk "entry" "if" annT.entry ++ mk "exit" (if hasBlockLikeL t then "if-nested" else "if") annT.exit
      ++ mk "semafter-block" "if" annT.after
      ++ mk "entry" "else" annE.entry ++ mk "exit" "else" annE.exit ++ mk "semafter-block" "else" annE.after
      ++ infoL ("if" :: encl) t ++ infoL ("if" :: encl) e
  | .br b a sa n => mk "before" "" b ++ mk "after" "dead" a ++ mk "semafter-branch" (targetKind encl n) (saPs sa)
  | .brIf b a sa n => mk "before" "" b ++ mk "after" "" a ++ mk "semafter-branch" (targetKind encl n) (saPs sa)
  | .brTable b a sa ts d =>
    let kinds := (ts ++ [d]).map (targetKind encl)
    let ctx := if kinds.contains "loop" then "loop" else if kinds.contains "fnlabel" then "fnlabel" else "block"
    mk "before" "" b ++ mk "after" "dead" a ++ mk "semafter-branch" ctx (saPs sa)
  | .ret b a => mk "before" "" b ++ mk "after" "dead" a
  | .unreachable b a => mk "before" "" b ++ mk "after" "dead" a
def infoL (encl : List String) : List Instr → List ProbeInfo
  | [] => []
  | i :: is => infoI encl i ++ infoL encl is
end

def infoF (f : Orca.Sem.Func) : List ProbeInfo :=
  mk "fentry" "" f.entry ++ mk "fexit" "" f.exit ++ infoL [] f.body ++ mk "before" "final-end" f.endBefore

mutual
/-- largest number of flagged bodies one construct's `end` has to dispatch -/
def maxPendI : Instr → Nat
  | .block _ _ _ _ body => max (pendingL 0 body).length (maxPendL body)
  | .loop _ _ _ body => max (pendingL 0 body).length (maxPendL body)
  | .ite _ _ _ _ _ t e _ => max ((pendingL 0 t).length + (pendingL 0 e).length) (max (maxPendL t) (maxPendL e))
  | _ => 0
def maxPendL : List Instr → Nat
  | [] => 0
  | i :: is => max (maxPendI i) (maxPendL is)
end

mutual
/-- first instruction's `before` list (what the code hoists in front of the function-entry code) -/
def firstBefore : List Instr → List Nat
  | .op b _ _ :: _ | .block b .. :: _ | .loop b .. :: _ | .ite b .. :: _ | .br b .. :: _ | .brIf b .. :: _
  | .brTable b .. :: _ | .ret b _ :: _ | .unreachable b _ :: _ => b
  | _ => []
end

/-- reasons why the tree model's placement is not the code's (each is a recorded mechanism, see DESIGN.md) -/
def treeScope (f : Orca.Sem.Func) : Option String :=
  let info := infoF f
  if info.any (fun p => p.kind == "semafter-branch" && p.ctx == "fnlabel") then some "branch-to-fnlabel"
  else if info.any (fun p => p.kind == "semafter-branch" && p.ctx == "loop") then some "branch-to-loop"
  else if maxPendL f.body > 2 then some "three-flagged"
  else if (!f.entry.isEmpty || !f.exit.isEmpty) && !(firstBefore f.body).isEmpty then some "before-at-0-with-func-level"
  else none

def normMem (m : List (Nat × Nat)) : List (Nat × Nat) :=
  let addrs := (m.map (·.1)).eraseDups
  let cells := addrs.map fun a => (a, memRead m a)
  (cells.filter (·.2 != 0)).mergeSort (fun a b => a.1 ≤ b.1)

def parseCallee (s : String) : Option Callee :=
  match s.splitOn "~" with
  | ["log"] => some { nparams := 1, nresults := 0, nlocals := 0, body := [], log := true }
  | ["self"] => some { nparams := 0, nresults := 0, nlocals := 0, body := [.unreachable [] []] }
  | [np, nr, nl, body] => do
    let b ← parseToks (← nr.toNat?) (parseList body)
    pure { nparams := ← np.toNat?, nresults := ← nr.toNat?, nlocals := ← nl.toNat?, body := b }
  | _ => none

def showFOut : FOut → String
  | .returned r s => s!"returned {r} globals={s.globals} mem={normMem s.mem}"
  | .trapped s => s!"trapped globals={s.globals} mem={normMem s.mem}"
  | .stuck w => s!"stuck({w})"

def traceOf : FOut → List Nat
  | .returned _ s => s.trace
  | .trapped s => s.trace
  | .stuck _ => []

def FUEL : Nat := 200000

/-- the function is in the scope on which `c20_function_partial` proves the code's flag scheme right: a mismatch of a semantic-after
    probe on a branch there is not one of the recorded findings (F14, F15, F27), whatever it looks like -/
def provedC20 (F : Orca.Sem.Func) : Bool :=
  let fl := Orca.Sem.flagsL F.body
  Orca.Sem.scopedL fl F.body && fl.eraseDups.length == fl.length && (List.range 16).all (fun d => (Orca.Sem.pendingL d F.body).isEmpty)

def propOfKind (k : String) : String :=
  match k with
  | "fentry" | "fexit" => "C17"
  | "entry" => "C18"
  | "exit" => "C19"
  | "semafter-block" | "semafter-branch" => "C20"
  | _ => "C16"

def runSem (toks : List String) : List String :=
  match toks with
  | case :: rest =>
    let r : Option (List String) := do
      let np ← (kv rest "np").bind (·.toNat?)
      let nl ← (kv rest "nl").bind (·.toNat?)
      let nres ← (kv rest "nres").bind (·.toNat?)
      let nglob ← (kv rest "nglob").bind (·.toNat?)
      let callees ← ((kv rest "callees").getD "log").splitOn "|" |>.mapM parseCallee
      let body := parseList ((kv rest "body").getD "-")
      let plan ← (kv rest "plan").bind (fun s => (if s = "-" then [] else s.splitOn ";").mapM parseApiOp)
      let argvs ← ((kv rest "args").getD "-" |> fun s => if s = "-" then [] else s.splitOn ";").mapM
        (fun v => (if v = "" || v = "_" then some [] else (v.splitOn ".").mapM (·.toNat?)))
      let realOut := (kv rest "out").getD "PANIC"
      let f0 : Orca.Lower.Func := { body := body.map (fun t => { tok := t, kind := kindOf t }), nlocals := np + nl }
      match Orca.Lower.applyAll f0 plan with
      | none => pure [s!"sem {case} PANIC"]
      | some f =>
        let (flat, added) := Orca.Lower.lower f
        let tree := toTree f nres
        let scope : String := match tree with
          | none => "no-tree"
          | some F => (treeScope F).getD "in"
        let shown : List String := match tree, scope with
          | some F, "in" => flattenF (lowerF F)
          | _, _ => flat
        let lines := [s!"sem {case} out={showStrs (normProbes shown)}", s!"sem {case} added={added}", s!"INFO sem {case} scope={scope}"]
        -- execution oracle
        let oracle : List String :=
          if realOut = "PANIC" then []
          else
          match tree, parseToks nres (parseList realOut) with
          | some F, some realBody =>
            let info := infoF F
            let realF : Orca.Sem.Func := { nres := nres, body := realBody }
            let fails : List String := argvs.flatMap fun args =>
              let s0 : St := { stack := [], locals := args ++ List.replicate (nl + 64) 0, globals := List.replicate nglob 0, mem := [], trace := [] }
              let spec := runFunc callees true FUEL F s0
              let real := runFunc callees false FUEL realF s0
              match spec with
              | .stuck w => [s!"prop=C16 sig=harness-spec-run-stuck {w}"]
              | _ =>
              match real with
              | .stuck w => [s!"prop=C16,C17,C18,C19,C20 sig=instrumented-code-stuck args={args} {w}"]
              | _ =>
              let st := showFOut spec
              let rt := showFOut real
              let a : List String := if st != rt then [s!"prop=C16 sig=behaviour-differs args={args} original: {st} instrumented: {rt}"] else []
              let ts := traceOf spec
              let tr := traceOf real
              -- events nobody planned
              let known := info.map (·.id)
              let stray := tr.filter (fun e => e ≥ 1000 && !known.contains e)
              let b : List String := if stray.isEmpty then [] else [s!"prop=C16 sig=unknown-events {stray}"]
              let c : List String := info.flatMap fun p =>
                -- branches to loop labels are outside C20
                if p.kind == "semafter-branch" && p.ctx == "loop" then [] else
                let proj (t : List Nat) := t.filter (fun e => e < 1000 || e == p.id)
                let ps := proj ts
                let pr := proj tr
                if ps == pr then [] else
                  let cs := (ps.filter (· == p.id)).length
                  let cr := (pr.filter (· == p.id)).length
                  let how := if cr > cs then "fires-more" else if cr < cs then "fires-less" else "fires-at-wrong-moment"
                  let proved := if p.kind == "semafter-branch" && provedC20 F then "-in-proved-scope" else ""
                  [s!"prop={propOfKind p.kind} sig={p.kind}-{if p.ctx = "" then "any" else p.ctx}-{how}{proved} probe={p.id} args={args} want={ps} got={pr}"]
              a ++ b ++ c
            -- one line per distinct signature
            let sigOf (l : String) : String := ((l.splitOn " ").filter (·.startsWith "sig=")).headD ""
            let distinct := fails.foldl (fun acc l => if acc.any (fun x => sigOf x == sigOf l) then acc else acc ++ [l]) []
            if distinct.isEmpty then [s!"ORACLE OK sem {case}"] else distinct.map fun l => s!"ORACLE FAIL sem {case} {l}"
          | none, _ => [s!"INFO sem {case} oracle=skipped-no-tree"]
          | _, none => [s!"INFO sem {case} oracle=skipped-output-not-well-nested"]   -- the harness's validator reports it
        pure (lines ++ oracle)
    match r with
    | some ls => ls
    | none => [s!"sem {case} bad-op"]
  | _ => ["sem ? bad-op"]

end Driver
