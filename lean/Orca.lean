import Orca.Model.Locals
import Orca.Lemmas.Locals
